#!/bin/bash
# usage: tools/scratch_check.sh <patch file> <check id>...
# Applies a patch to a SCRATCH worktree of /repo, builds a scratch copy of the current harness
# against it and runs the given quick checks there. /repo and /verif/evidence stay untouched.
P="$1"; shift
SV=/tmp/sc.$$
rm -rf $SV; mkdir -p $SV/verif
git -C /repo worktree prune
git -C /repo worktree add -q --detach $SV/repo HEAD || exit 2
cp -r /verif/harness $SV/harness
sed -i 's#path = "/repo"#path = "'$SV'/repo"#' $SV/harness/Cargo.toml
cp /verif/known_findings.json $SV/verif/; cp -r /verif/replays $SV/verif/replays; rm -rf $SV/verif/replays/found
export CARGO_NET_OFFLINE=true
( cd $SV/repo && git apply "$P" ) || { echo "patch does not apply"; git -C /repo worktree remove --force $SV/repo; rm -rf $SV; exit 2; }
( cd $SV/harness && cargo build --release --offline -q 2>$SV/build.log ) || { echo "does not build"; tail -5 $SV/build.log; }
for c in "$@"; do
  VCHECK_STUCK_SECS=${VCHECK_STUCK_SECS:-120} timeout 1500 $SV/harness/target/release/vcheck $c quick --verif-dir $SV/verif > $SV/run.log 2>&1; code=$?
  echo "== $c exit=$code"; grep -E "signature:|quick seed=|INFRA" $SV/run.log | sort | uniq -c | sort -rn | head -6
done
cd /; git -C /repo worktree remove --force $SV/repo; rm -rf $SV
