//! C10 — round-robin senders deliver each message to exactly one peer, in rotation.

use crate::core::*;
use crate::fail;
use crate::pipe::Window;
use crate::props::c01::{gen_msg, MsgCase};
use crate::props::parse_case;
use crate::refcodec;
use crate::sim::{run_sim, Frames, Kind, Link, Out, Sim};

use serde::{Deserialize, Serialize};
use serde_json::{json, Value};

#[derive(Debug, Clone, Serialize, Deserialize, PartialEq, Eq, Hash)]
pub enum Op {
    /// a new raw peer starts its handshake (completes when the attach actor is stepped)
    Join,
    /// the application starts a send (if none is in flight) of message #k of the case
    Send(usize),
    /// step any runnable actor (index chosen by the value)
    Step(u16),
    /// peer j's write window: 0 = open, 1 = partial writes of k bytes, 2 = budget of k more bytes
    Window(usize, u8, usize),
    /// run everything runnable to quiescence
    Settle,
}

#[derive(Debug, Clone, Serialize, Deserialize, PartialEq, Eq, Hash)]
pub struct RrCase {
    pub kind: Kind,
    /// peers attached before the first op
    pub initial_peers: usize,
    pub msgs: Vec<MsgCase>,
    pub ops: Vec<Op>,
    /// bit j set = peer #j announces a present-but-empty Identity (as libzmq REQ / DEALER /
    /// ROUTER sockets do by default): still a peer of its own in the rotation
    #[serde(default)]
    pub empty_identity: u8,
}

struct PeerRt {
    link: Link,
    attach: usize,
    /// event index at which the attach completed
    joined_at: Option<usize>,
    /// REQ: requests seen so far on this wire (to answer them)
    answered: usize,
}

struct SendRt {
    actor: usize,
    msg: Frames,
    before: Vec<usize>,
    started_at: usize,
}

pub fn rr_outcome(c: &RrCase) -> Outcome {
    let mut o = Outcome::new(hash_of(c));
    let c2 = c.clone();
    let n_sends = c.ops.iter().filter(|x| matches!(x, Op::Send(_))).count();
    let joins = c.ops.iter().filter(|x| matches!(x, Op::Join)).count();
    let windows = c.ops.iter().any(|x| matches!(x, Op::Window(_, w, _) if *w != 0));
    o.nontrivial = (c.initial_peers >= 2 && n_sends > c.initial_peers) || (joins > 0 && n_sends > 0) || windows;
    if joins > 0 {
        o.class("join-between-or-during-sends");
    }
    if windows {
        o.class("partial-write-or-stall-window");
    }
    if c.initial_peers == 0 {
        o.class("starts-with-no-peer");
    }
    o.class(format!("kind-{}", c.kind.name()));
    let (r, panics) = capture_panics(|| {
        run_sim(async move {
            let c = c2;
            let kind = c.kind;
            let who = kind.name();
            let mut f: Vec<Failure> = vec![];
            let mut classes: Vec<String> = vec![];
            let mut sim = Sim::new();
            let s = sim.socket(kind, None);
            let mut peers: Vec<PeerRt> = vec![];
            let mut event = 0usize;
            // log of successful sends: (start event, end event, target peer)
            let mut log: Vec<(usize, usize, usize)> = vec![];
            let mut cur: Option<SendRt> = None;
            let mut join_during_send = false;
            let msgs: Vec<Frames> = c.msgs.iter().map(|m| m.frames()).collect();

            macro_rules! new_peer {
                () => {{
                    let l = sim.link();
                    let empty = (c.empty_identity >> (peers.len() % 8)) & 1 == 1;
                    l.raw_handshake(kind.a_compatible_peer(), if empty { Some(&[]) } else { None });
                    let a = sim.attach(s, &l);
                    peers.push(PeerRt { link: l, attach: a, joined_at: None, answered: 0 });
                }};
            }
            for _ in 0..c.initial_peers {
                new_peer!();
            }
            if sim.settle().await.is_err() {
                fail!(f, format!("C10/{}/spin", who), "setup does not settle");
                return (f, classes);
            }
            for p in peers.iter_mut() {
                if !matches!(sim.out(p.attach), Some(Out::Attach(Ok(_)))) {
                    fail!(f, format!("C10/{}/setup", who), "{:?}", sim.out(p.attach));
                    return (f, classes);
                }
                p.joined_at = Some(0);
            }

            // bookkeeping after anything may have happened
            macro_rules! observe {
                () => {{
                    event += 1;
                    for p in peers.iter_mut() {
                        if p.joined_at.is_none() && sim.done(p.attach) {
                            if matches!(sim.out(p.attach), Some(Out::Attach(Ok(_)))) {
                                p.joined_at = Some(event);
                                if cur.is_some() {
                                    join_during_send = true;
                                }
                            } else {
                                fail!(f, format!("C10/{}/join-failed", who), "{:?}", sim.out(p.attach));
                            }
                        }
                    }
                    let mut finished = false;
                    if let Some(sr) = &cur {
                        if sim.done(sr.actor) {
                            finished = true;
                            let res = sim.take(sr.actor);
                            let grew: Vec<usize> = (0..sr.before.len()).filter(|i| peers[*i].link.lib_traffic_len() != sr.before[*i]).collect();
                            let joined_now = peers.iter().filter(|p| p.joined_at.is_some()).count();
                            let _ = joined_now;
                            let mut wire = if kind == Kind::Req { vec![vec![]] } else { vec![] };
                            wire.extend(sr.msg.clone());
                            match res {
                                Some(Out::Send(Ok(()))) => {
                                    if grew.len() != 1 {
                                        fail!(
                                            f,
                                            format!("C10/{}/not-exactly-one-peer", who),
                                            "send returned Ok but {} connections received bytes since the call started ({:?}); a successful send has written the complete message to exactly one peer",
                                            grew.len(),
                                            grew
                                        );
                                    } else {
                                        let j = grew[0];
                                        let new = peers[j].link.lib_traffic_from(sr.before[j]);
                                        let want = refcodec::encode_message(&wire);
                                        if new != want {
                                            fail!(
                                                f,
                                                format!("C10/{}/message-incomplete-or-modified-at-return", who),
                                                "send returned Ok; connection {} has {} of the {} bytes of the encoded message (frame lengths {:?})",
                                                j,
                                                new.len(),
                                                want.len(),
                                                sr.msg.iter().map(|x| x.len()).collect::<Vec<_>>()
                                            );
                                        }
                                        log.push((sr.started_at, event, j));
                                    }
                                }
                                Some(Out::Send(Err(e))) => {
                                    let had_peers = peers.iter().any(|p| p.joined_at.map(|t| t < sr.started_at).unwrap_or(false));
                                    if had_peers {
                                        fail!(f, format!("C10/{}/send-fails-with-peers", who), "{}", e.text.chars().take(100).collect::<String>());
                                    } else {
                                        if e.returned.as_ref() != Some(&sr.msg) {
                                            fail!(
                                                f,
                                                format!("C10/{}/no-peer-send-does-not-return-message", who),
                                                "with no connected peer the send failed with {:?} and handed back {:?} (expected the original {} frames)",
                                                e.text,
                                                e.returned.as_ref().map(|m| m.iter().map(|x| x.len()).collect::<Vec<_>>()),
                                                sr.msg.len()
                                            );
                                        }
                                        if !grew.is_empty() {
                                            fail!(f, format!("C10/{}/failed-send-wrote-bytes", who), "connections {:?} grew", grew);
                                        }
                                    }
                                }
                                other => fail!(f, format!("C10/{}/send-result", who), "{:?}", other),
                            }
                        }
                    }
                    if finished {
                        cur = None;
                    }
                    // REQ: raw peers answer every request so that the next send is legal
                    if kind == Kind::Req && cur.is_none() {
                        for p in peers.iter_mut() {
                            if let Ok((m, 0)) = p.link.lib_messages_prefix() {
                                if m.len() > p.answered {
                                    p.answered = m.len();
                                    p.link.raw_send_now(&[vec![], b"ok".to_vec()]);
                                    let r = sim.recv(s);
                                    match sim.run(r).await {
                                        Ok(Some(Out::Recv(Ok(_)))) => {}
                                        other => fail!(f, "C10/REQ/reply-not-received", "{:?}", other),
                                    }
                                }
                            }
                        }
                    }
                }};
            }

            for op in &c.ops {
                match op {
                    Op::Join => {
                        if peers.len() < 6 {
                            new_peer!();
                        }
                    }
                    Op::Send(k) => {
                        if cur.is_none() && !sim.busy(s) {
                            let msg = msgs[*k % msgs.len()].clone();
                            let before: Vec<usize> = peers.iter().map(|p| p.link.lib_traffic_len()).collect();
                            let a = sim.send(s, &msg);
                            event += 1;
                            cur = Some(SendRt { actor: a, msg, before, started_at: event });
                            // first poll happens now (the call starts executing)
                            sim.poll(a);
                        }
                    }
                    Op::Step(x) => {
                        let r = sim.runnable();
                        if !r.is_empty() {
                            sim.poll(r[((*x as usize) * r.len()) >> 16]);
                        }
                    }
                    Op::Window(j, w, k) => {
                        if !peers.is_empty() {
                            let j = *j % peers.len();
                            let wnd = match w {
                                0 => Window::Open,
                                1 => Window::PerCall((*k).max(1)),
                                _ => Window::Budget(*k),
                            };
                            if !matches!(wnd, Window::Open) {
                                classes.push("window-applied".into());
                            }
                            peers[j].link.from_lib.set_window(wnd);
                        }
                    }
                    Op::Settle => {
                        if sim.settle().await.is_err() {
                            fail!(f, format!("C10/{}/spin", who), "does not settle");
                            return (f, classes);
                        }
                    }
                }
                // a send started with the before-snapshot of fewer peers: extend it
                if let Some(sr) = cur.as_mut() {
                    while sr.before.len() < peers.len() {
                        let i = sr.before.len();
                        // a connection that joins later has no application bytes yet
                        sr.before.push(peers[i].link.lib_traffic_len());
                    }
                }
                observe!();
            }
            // release everything and finish
            for p in &peers {
                p.link.from_lib.set_window(Window::Open);
            }
            let _ = sim.settle().await;
            observe!();
            if join_during_send {
                classes.push("join-while-send-in-flight".into());
            }
            // ---- rotation oracle over the log
            // stretches with a stable peer set: no join completed between the start of the
            // first and the end of the last send of the window
            let join_times: Vec<usize> = peers.iter().filter_map(|p| p.joined_at).collect();
            for w0 in 0..log.len() {
                // peers joined before this send started
                let n = join_times.iter().filter(|t| **t < log[w0].0).count();
                if n < 2 || w0 + n > log.len() {
                    continue;
                }
                let window = &log[w0..w0 + n];
                let start = window[0].0;
                let end = window[n - 1].1;
                let stable = !join_times.iter().any(|t| *t >= start && *t <= end);
                if !stable {
                    continue;
                }
                let mut targets: Vec<usize> = window.iter().map(|x| x.2).collect();
                targets.sort();
                targets.dedup();
                if targets.len() != n {
                    fail!(
                        f,
                        format!("C10/{}/rotation-not-strict", who),
                        "{} consecutive successful sends over a stable set of {} peers reached connections {:?} (expected {} different ones)",
                        n,
                        n,
                        window.iter().map(|x| x.2).collect::<Vec<_>>(),
                        n
                    );
                    break;
                }
                classes.push("rotation-window-checked".into());
            }
            // joiners enter the rotation: within the next n sends that start after the join
            for (j, p) in peers.iter().enumerate() {
                if let Some(t) = p.joined_at {
                    if t == 0 {
                        continue;
                    }
                    let later: Vec<&(usize, usize, usize)> = log.iter().filter(|x| x.0 > t).collect();
                    let n_total = peers.iter().filter(|q| q.joined_at.is_some()).count();
                    if later.len() >= n_total && !later[..n_total].iter().any(|x| x.2 == j) {
                        fail!(
                            f,
                            format!("C10/{}/joiner-not-served", who),
                            "peer {} joined, yet the next {} successful sends went to {:?}",
                            j,
                            n_total,
                            later[..n_total].iter().map(|x| x.2).collect::<Vec<_>>()
                        );
                    }
                    if later.len() >= n_total {
                        classes.push("joiner-window-checked".into());
                    }
                }
            }
            (f, classes)
        })
    });
    if let Some((f, classes)) = r {
        o.failures = f;
        let mut cl = classes;
        cl.sort();
        cl.dedup();
        o.classes.extend(cl);
    }
    for p in panics {
        o.fail(format!("C10/panic/{}", panic_sig(&p)), format!("{}: {}", c.kind.name(), p));
    }
    o
}

// --------------------------------------------------------------------------------------------
// a peer comes back under its announced identity before the sender noticed it had gone

#[derive(Debug, Clone, Serialize, Deserialize, PartialEq, Eq, Hash)]
pub struct RejoinCase {
    pub kind: Kind,
    /// anonymous bystanders in the rotation
    pub others: usize,
    /// old connection when the new one joins: 0 = open and idle, 1 = ended (EOF the sender has
    /// not read), 2 = ended, writes towards it still succeed (a FIN), 3 = its writes failed and
    /// the sender has noticed and dropped it (its id is left behind in the rotation queue)
    pub old_state: u8,
    pub sends: usize,
}

pub fn rejoin_outcome(c: &RejoinCase) -> Outcome {
    let mut o = Outcome::new(hash_of(c));
    o.nontrivial = true;
    o.class("peer-comes-back-under-its-identity");
    let c2 = c.clone();
    let (r, panics) = capture_panics(|| {
        run_sim(async move {
            let c = c2;
            let kind = c.kind;
            let who = kind.name();
            let mut f: Vec<Failure> = vec![];
            let mut sim = Sim::new();
            let s = sim.socket(kind, None);
            let old = match crate::simx::attach_raw(&mut sim, s, Some(b"worker-1")).await {
                Ok((l, _)) => l,
                Err(e) => {
                    fail!(f, format!("C10/{}/setup", who), "{}", e);
                    return f;
                }
            };
            let mut links: Vec<Link> = vec![];
            for _ in 0..c.others {
                match crate::simx::attach_raw(&mut sim, s, None).await {
                    Ok((l, _)) => links.push(l),
                    Err(e) => {
                        fail!(f, format!("C10/{}/setup", who), "{}", e);
                        return f;
                    }
                }
            }
            if c.old_state == 1 || c.old_state == 2 {
                old.to_lib.end_after_all(crate::pipe::ReadEnd::Eof);
            }
            if c.old_state == 3 {
                old.from_lib.break_writer(std::io::ErrorKind::BrokenPipe);
                // a round of sends: the one that hits the dead connection fails and removes it
                for i in 0..(c.others + 1) {
                    let before: Vec<usize> = links.iter().map(|l| l.lib_messages_prefix().map(|x| x.0.len()).unwrap_or(0)).collect();
                    let a = sim.send(s, &[format!("warm-{}", i).into_bytes()]);
                    let res = sim.run(a).await;
                    if kind == Kind::Req && matches!(res, Ok(Some(Out::Send(Ok(()))))) {
                        for (j, l) in links.iter().enumerate() {
                            if l.lib_messages_prefix().map(|x| x.0.len()).unwrap_or(0) != before[j] {
                                l.raw_send_now(&[vec![], b"ans".to_vec()]);
                            }
                        }
                        let r = sim.recv(s);
                        let _ = sim.run(r).await;
                    }
                }
            }
            let fresh = match crate::simx::attach_raw(&mut sim, s, Some(b"worker-1")).await {
                Ok((l, _)) => l,
                Err(e) => {
                    fail!(f, format!("C10/{}/peer-cannot-come-back-under-its-identity", who), "{}", e);
                    return f;
                }
            };
            links.push(fresh);
            // n rounds over the connected peers: every send succeeds, reaches exactly one of
            // them, in rotation; the replaced connection gets nothing
            let n = links.len();
            let old_before = old.lib_traffic_len();
            let mut hits = vec![0usize; n];
            for i in 0..c.sends {
                let before: Vec<usize> = links.iter().map(|l| l.lib_messages_prefix().map(|x| x.0.len()).unwrap_or(0)).collect();
                let a = sim.send(s, &[format!("job-{}", i).into_bytes()]);
                match sim.run(a).await {
                    Ok(Some(Out::Send(Ok(())))) => {}
                    other => {
                        fail!(f, format!("C10/{}/send-fails-with-connected-peers", who), "send #{} with {} connected peers: {:?}", i, n, other.map(|o| o.map(|o| o.err_text().map(|s| s.to_string()))));
                        return f;
                    }
                }
                let grew: Vec<usize> = links.iter().enumerate().filter(|(j, l)| l.lib_messages_prefix().map(|x| x.0.len()).unwrap_or(0) != before[*j]).map(|x| x.0).collect();
                if grew.len() != 1 {
                    fail!(
                        f,
                        format!("C10/{}/successful-send-reached-no-connected-peer", who),
                        "send #{} returned Ok; connected peers that received it: {:?} (the connection the returning peer replaced received {} bytes)",
                        i,
                        grew,
                        old.lib_traffic_len() - old_before
                    );
                    return f;
                }
                hits[grew[0]] += 1;
                if kind == Kind::Req {
                    links[grew[0]].raw_send_now(&[vec![], b"ans".to_vec()]);
                    let r = sim.recv(s);
                    let _ = sim.run(r).await;
                }
            }
            let (lo, hi) = (hits.iter().min().copied().unwrap_or(0), hits.iter().max().copied().unwrap_or(0));
            if hi - lo > 1 {
                fail!(f, format!("C10/{}/rotation-not-strict", who), "{} sends over {} connected peers (the last one came back under its identity): per-peer counts {:?}", c.sends, n, hits);
            }
            if old.lib_traffic_len() != old_before {
                fail!(f, format!("C10/{}/message-written-to-a-replaced-connection", who), "{} bytes", old.lib_traffic_len() - old_before);
            }
            f
        })
    });
    if let Some(f) = r {
        o.failures = f;
    }
    for p in panics {
        o.fail(format!("C10/panic/{}", panic_sig(&p)), p);
    }
    o
}

// --------------------------------------------------------------------------------------------
// a peer departs and the sender has observed it: the rotation continues over the others

#[derive(Debug, Clone, Serialize, Deserialize, PartialEq, Eq, Hash)]
pub struct DepartCase {
    pub kind: Kind,
    /// connected peers before the departure (2..=5)
    pub peers: usize,
    /// successful sends before the departure
    pub warm: usize,
    /// who departs (index; REQ with `how` 0/1: the peer holding the outstanding request)
    pub depart: usize,
    /// 0 = the peer closes (EOF) and the sender reads that; 1 = the read fails (reset) and the
    /// sender reads that; 2 = writes towards it fail (observed by the send that meets it).
    /// PUSH never reads, so 0/1 mean 2 there.
    pub how: u8,
    /// sends after the departure, in multiples of the number of remaining peers
    pub rounds: usize,
    /// the peers announce an empty Identity
    pub empty_identity: bool,
}

pub fn depart_outcome(c: &DepartCase) -> Outcome {
    let mut o = Outcome::new(hash_of(c));
    o.nontrivial = true;
    o.class("peer-departs-and-the-sender-has-seen-it");
    o.class(format!("depart-{}-how-{}", c.kind.name(), c.how));
    let c2 = c.clone();
    let (r, panics) = capture_panics(|| {
        run_sim(async move {
            let c = c2;
            let kind = c.kind;
            let who = kind.name();
            let mut f: Vec<Failure> = vec![];
            let mut observed = false;
            let mut sim = Sim::new();
            let s = sim.socket(kind, None);
            let n = c.peers.clamp(2, 5);
            let mut links: Vec<Link> = vec![];
            for _ in 0..n {
                match crate::simx::attach_raw(&mut sim, s, if c.empty_identity { Some(&[][..]) } else { None }).await {
                    Ok((l, _)) => links.push(l),
                    Err(e) => {
                        fail!(f, format!("C10/{}/setup", who), "{}", e);
                        return (f, observed);
                    }
                }
            }
            let count = |l: &Link| l.lib_messages_prefix().map(|x| x.0.len()).unwrap_or(0);
            // one send; returns Ok(Some(target)) on success, Ok(None) when the send failed
            macro_rules! one_send {
                ($tag:expr, $answer:expr) => {{
                    let before: Vec<usize> = links.iter().map(|l| count(l)).collect();
                    let a = sim.send(s, &[$tag.into_bytes()]);
                    match sim.run(a).await {
                        Ok(Some(Out::Send(Ok(())))) => {
                            let grew: Vec<usize> = (0..links.len()).filter(|j| count(&links[*j]) != before[*j]).collect();
                            if grew.len() != 1 {
                                Err(grew)
                            } else {
                                if kind == Kind::Req && $answer {
                                    links[grew[0]].raw_send_now(&[vec![], b"ans".to_vec()]);
                                    let r = sim.recv(s);
                                    let _ = sim.run(r).await;
                                }
                                Ok(Some(grew[0]))
                            }
                        }
                        Ok(Some(Out::Send(Err(_)))) => Ok(None),
                        _ => Ok(None),
                    }
                }};
            }
            for i in 0..c.warm {
                match one_send!(format!("warm-{}", i), true) {
                    Ok(Some(_)) => {}
                    other => {
                        fail!(f, format!("C10/{}/send-fails-with-connected-peers", who), "warm-up send #{} over {} healthy peers: {:?}", i, n, other);
                        return (f, observed);
                    }
                }
            }
            let how = if kind == Kind::Push { 2 } else { c.how };
            let mut gone = c.depart % n;
            match how {
                0 | 1 => {
                    if kind == Kind::Req {
                        // the peer holding the outstanding request departs without answering
                        match one_send!("held".to_string(), false) {
                            Ok(Some(j)) => gone = j,
                            other => {
                                fail!(f, "C10/REQ/send-fails-with-connected-peers", "{:?}", other);
                                return (f, observed);
                            }
                        }
                    }
                    links[gone].to_lib.end_after_all(if how == 0 { crate::pipe::ReadEnd::Eof } else { crate::pipe::ReadEnd::Err(std::io::ErrorKind::ConnectionReset) });
                    // the application asks for a message: that is how the sender sees the end
                    let r = sim.recv(s);
                    let _ = sim.settle().await;
                    if kind == Kind::Req {
                        match sim.take(r) {
                            Some(Out::Recv(Err(_))) => {}
                            other => {
                                fail!(f, "C10/REQ/recv-after-peer-end", "the peer holding the request ended; recv gave {:?}", other.map(|o| o.err_text().map(|s| s.to_string())));
                                return (f, observed);
                            }
                        }
                    } else if !sim.done(r) {
                        sim.cancel(r);
                    }
                    if links[gone].to_lib.end_reported() == 0 {
                        // the sender has not looked at that connection: nothing observed yet
                        return (f, observed);
                    }
                }
                _ => {
                    links[gone].from_lib.break_writer(std::io::ErrorKind::BrokenPipe);
                    // sends until one has met the dead connection (at most one round)
                    let fw = links[gone].from_lib.failed_writes();
                    for i in 0..n {
                        let _ = one_send!(format!("meet-{}", i), true);
                        if links[gone].from_lib.failed_writes() != fw {
                            break;
                        }
                    }
                    if links[gone].from_lib.failed_writes() == fw {
                        fail!(f, format!("C10/{}/rotation-not-strict", who), "{} sends over {} peers never tried peer {}", n, n, gone);
                        return (f, observed);
                    }
                }
            }
            observed = true;
            // from here on the connected peers are the others
            let live: Vec<usize> = (0..n).filter(|j| *j != gone).collect();
            let gone_before = links[gone].lib_traffic_len();
            let want = c.rounds.max(1) * live.len();
            let mut targets: Vec<usize> = vec![];
            let mut failed = 0usize;
            let mut i = 0;
            while targets.len() < want && i < want + 3 {
                i += 1;
                match one_send!(format!("job-{}", i), true) {
                    Ok(Some(j)) => {
                        if j == gone {
                            fail!(f, format!("C10/{}/successful-send-reached-a-departed-peer", who), "send #{} after the departure of peer {} (how {}) returned Ok and was written to that peer's connection", i, gone, how);
                            return (f, observed);
                        }
                        targets.push(j);
                    }
                    Ok(None) => failed += 1,
                    Err(grew) => {
                        fail!(f, format!("C10/{}/successful-send-reached-no-connected-peer", who), "send #{} after the departure of peer {} returned Ok; connected peers that received it: {:?}; the departed connection received {} bytes", i, gone, grew, links[gone].lib_traffic_len() - gone_before);
                        return (f, observed);
                    }
                }
            }
            if failed > 0 {
                fail!(f, format!("C10/{}/send-fails-with-connected-peers", who), "{} of {} sends failed after peer {} had departed and the sender had seen it, with {} healthy peers connected", failed, i, gone, live.len());
            }
            for w in targets.windows(live.len()) {
                let mut t = w.to_vec();
                t.sort();
                t.dedup();
                if t.len() != live.len() {
                    fail!(f, format!("C10/{}/rotation-not-strict", who), "after peer {} departed, {} consecutive successful sends over the {} remaining peers reached {:?}", gone, live.len(), live.len(), w);
                    break;
                }
            }
            if links[gone].lib_traffic_len() != gone_before {
                fail!(f, format!("C10/{}/message-written-to-a-departed-peer", who), "{} bytes", links[gone].lib_traffic_len() - gone_before);
            }
            (f, observed)
        })
    });
    if let Some((f, observed)) = r {
        o.failures = f;
        if observed {
            o.class("departure-observed-then-rotation-checked");
            o.class(format!("departure-observed-{}-how-{}", c.kind.name(), c.how));
        }
    }
    for p in panics {
        o.fail(format!("C10/panic/{}", panic_sig(&p)), p);
    }
    o
}

// --------------------------------------------------------------------------------------------
// a send that is blocked by back-pressure is abandoned by the caller (timeout, select!)

#[derive(Debug, Clone, Serialize, Deserialize, PartialEq, Eq, Hash)]
pub struct CancelSendCase {
    pub kind: Kind,
    /// connected peers (1..=4)
    pub peers: usize,
    /// successful sends before
    pub warm: usize,
    /// the peer whose connection stops accepting bytes
    pub stall_peer: usize,
    /// bytes it still accepts before it stalls
    pub budget: usize,
    /// second-frame length of the send that gets stuck
    pub size: usize,
    /// sends afterwards, in multiples of the number of peers
    pub rounds: usize,
}

pub fn cancel_send_outcome(c: &CancelSendCase) -> Outcome {
    let mut o = Outcome::new(hash_of(c));
    o.nontrivial = true;
    o.class("blocked-send-abandoned");
    let c2 = c.clone();
    let (r, panics) = capture_panics(|| {
        run_sim(async move {
            let c = c2;
            let kind = c.kind;
            let who = kind.name();
            let mut f: Vec<Failure> = vec![];
            let mut reached = false;
            let mut sim = Sim::new();
            let s = sim.socket(kind, None);
            let n = c.peers.clamp(1, 4);
            let mut links: Vec<Link> = vec![];
            for _ in 0..n {
                match crate::simx::attach_raw(&mut sim, s, None).await {
                    Ok((l, _)) => links.push(l),
                    Err(e) => {
                        fail!(f, format!("C10/{}/setup", who), "{}", e);
                        return (f, reached);
                    }
                }
            }
            // which connection holds a complete message carrying this tag
            let holder = |links: &Vec<Link>, tag: &[u8]| -> Vec<usize> { (0..links.len()).filter(|j| links[*j].lib_messages_prefix().map(|x| x.0.iter().any(|m| m.iter().any(|fr| fr == tag))).unwrap_or(false)).collect() };
            let mut sent_tags: Vec<Vec<u8>> = vec![];
            macro_rules! small_send {
                ($tag:expr) => {{
                    let tag: Vec<u8> = $tag.into_bytes();
                    let a = sim.send(s, &[tag.clone(), b"x".to_vec()]);
                    match sim.run(a).await {
                        Ok(Some(Out::Send(Ok(())))) => {
                            let h = holder(&links, &tag);
                            sent_tags.push(tag);
                            if h.len() == 1 {
                                if kind == Kind::Req {
                                    links[h[0]].raw_send_now(&[vec![], b"ans".to_vec()]);
                                    let r = sim.recv(s);
                                    let _ = sim.run(r).await;
                                }
                                Ok(Some(h[0]))
                            } else {
                                Err(h)
                            }
                        }
                        Ok(Some(Out::Send(Err(e)))) => {
                            let _ = e;
                            Ok(None)
                        }
                        Ok(None) => {
                            sim.cancel(a);
                            Ok(None)
                        }
                        _ => Ok(None),
                    }
                }};
            }
            for i in 0..c.warm {
                match small_send!(format!("warm-{}", i)) {
                    Ok(Some(_)) => {}
                    other => {
                        fail!(f, format!("C10/{}/send-fails-with-connected-peers", who), "warm-up send #{} over {} healthy peers: {:?}", i, n, other);
                        return (f, reached);
                    }
                }
            }
            let j = c.stall_peer % n;
            links[j].from_lib.set_window(Window::Budget(c.budget));
            let big_body = fill(77, c.size.max(c.budget + 64));
            let mut big_tags: Vec<Vec<u8>> = vec![];
            let mut stuck = false;
            for bi in 0..n {
                let big_tag = format!("big-send-{}", bi).into_bytes();
                big_tags.push(big_tag.clone());
                let big: Frames = vec![big_tag.clone(), big_body.clone()];
                let a = sim.send(s, &big);
                match sim.run(a).await {
                    Ok(None) => {
                        // blocked on peer j's connection: the caller gives up
                        sim.cancel(a);
                        stuck = true;
                        break;
                    }
                    Ok(Some(Out::Send(Ok(())))) => {
                        // went to another peer, whole
                        let h = holder(&links, &big_tag);
                        if let Some(h) = h.first() {
                            if kind == Kind::Req {
                                links[*h].raw_send_now(&[vec![], b"ans".to_vec()]);
                                let r = sim.recv(s);
                                let _ = sim.run(r).await;
                            }
                        }
                    }
                    other => {
                        fail!(f, format!("C10/{}/send-fails-with-connected-peers", who), "{:?}", other.map(|o| o.map(|o| o.err_text().map(|s| s.to_string()))));
                        return (f, reached);
                    }
                }
            }
            if !stuck {
                fail!(f, format!("C10/{}/rotation-not-strict", who), "{} sends over {} peers never tried peer {}", n, n, j);
                return (f, reached);
            }
            reached = true;
            // the connection accepts bytes again; all n peers are connected and healthy
            links[j].from_lib.set_window(Window::Open);
            let _ = sim.settle().await;
            let want = c.rounds.max(2) * n;
            let mut targets: Vec<usize> = vec![];
            for i in 0..want {
                match small_send!(format!("job-{}", i)) {
                    Ok(Some(t)) => targets.push(t),
                    Ok(None) => {
                        fail!(f, format!("C10/{}/send-fails-with-connected-peers", who), "send #{} after an abandoned send failed or blocked although all {} peers are connected and accept bytes", i, n);
                        return (f, reached);
                    }
                    Err(h) => {
                        fail!(f, format!("C10/{}/not-exactly-one-peer", who), "send #{} after an abandoned send returned Ok; connections holding it as a complete message: {:?}", i, h);
                        return (f, reached);
                    }
                }
            }
            for w in targets.windows(n) {
                let mut t = w.to_vec();
                t.sort();
                t.dedup();
                if t.len() != n {
                    fail!(f, format!("C10/{}/rotation-not-strict", who), "a send blocked on peer {} was abandoned; afterwards {} consecutive successful sends over the {} connected peers reached {:?}", j, n, n, w);
                    break;
                }
            }
            // every connection carries whole messages only: the sent ones, each at most once, and
            // possibly the abandoned one (whole, once, on the connection it was started on)
            let _ = sim.settle().await;
            let mut seen: Vec<Vec<u8>> = vec![];
            for (li, l) in links.iter().enumerate() {
                match l.lib_messages_prefix() {
                    Ok((msgs, residue)) => {
                        if residue != 0 {
                            fail!(f, format!("C10/{}/fragment-left-on-a-connection", who), "connection {} ends with a {}-byte fragment of a message after {} further sends", li, residue, want);
                        }
                        for m in msgs {
                            let body: &[Vec<u8>] = if kind == Kind::Req && m.first().map(|x| x.is_empty()).unwrap_or(false) { &m[1..] } else { &m[..] };
                            let tag = body.first().cloned().unwrap_or_default();
                            let is_big = big_tags.contains(&tag);
                            let known = sent_tags.contains(&tag) || is_big;
                            let whole = if is_big { body.len() == 2 && body[1] == big_body } else { body.len() == 2 && body[1] == b"x" };
                            if !known || !whole || seen.contains(&tag) {
                                fail!(f, format!("C10/{}/message-incomplete-or-modified-at-return", who), "connection {} carries a message tagged {:?} ({} frames) that is not exactly one of the sent ones", li, String::from_utf8_lossy(&tag), body.len());
                            }
                            seen.push(tag);
                        }
                    }
                    Err(e) => fail!(f, format!("C10/{}/wire-malformed", who), "connection {}: {}", li, e),
                }
            }
            (f, reached)
        })
    });
    if let Some((f, reached)) = r {
        o.failures = f;
        if reached {
            o.class("send-abandoned-while-blocked-then-rotation-checked");
        }
    }
    for p in panics {
        o.fail(format!("C10/panic/{}", panic_sig(&p)), p);
    }
    o
}

pub fn gen_rr(s: &mut Src<'_>, max_exp: usize) -> RrCase {
    let kind = s.pick(&[Kind::Push, Kind::Dealer, Kind::Req]);
    let initial_peers = s.pick(&[0usize, 1, 2, 2, 3, 3, 4, 5]);
    let nm = s.range(1, 3);
    let msgs: Vec<MsgCase> = (0..nm).map(|_| gen_msg(s, 3, max_exp, 400 << 10)).collect();
    let k = s.range(6, 40);
    let mut ops = vec![];
    for _ in 0..k {
        let op = match s.weighted(&[8, 2, 6, 3, 4]) {
            0 => Op::Send(s.below(nm)),
            1 => Op::Join,
            2 => Op::Step(s.next()),
            3 => {
                let w = s.below(3) as u8;
                let kk = match w {
                    1 => s.pick(&[1usize, 2, 7, 100, 8192]),
                    _ => s.pick(&[0usize, 0, 1, 5, 100, 10_000]),
                };
                Op::Window(s.below(6), w, kk)
            }
            _ => Op::Settle,
        };
        ops.push(op);
    }
    RrCase { kind, initial_peers, msgs, ops, empty_identity: if s.chance(1, 3) { s.next() as u8 } else { 0 } }
}

pub fn run(ctx: &Ctx) -> (Report, PropertyMeta) {
    let mut report = Report::default();
    let t = ctx.tier;
    // enumerated: n peers x 3n+1 sends, no joins, no windows; then one join after k sends
    // a peer that comes back under its identity before the sender noticed it had gone
    {
        let mut rc = vec![];
        for kind in [Kind::Push, Kind::Dealer, Kind::Req] {
            for others in 0..=2usize {
                for old_state in 0..4u8 {
                    rc.push(RejoinCase { kind, others, old_state, sends: 3 * (others + 1) });
                }
            }
        }
        let r = run_cases(ctx, "rejoin", &rc, rejoin_outcome);
        report.exhaustive_parts.push(format!("PUSH/DEALER/REQ x 0..2 bystanders x a peer with an announced identity coming back while its old connection is idle / ended / ended-but-writable / already dropped after a failed write: {} cases", rc.len()));
        report.merge(r);
    }
    {
        // a departure the sender has seen: every kind x 2..5 peers x who x how x warm-up length
        let mut dc = vec![];
        for kind in [Kind::Push, Kind::Dealer, Kind::Req] {
            for peers in 2..=5usize {
                for depart in 0..peers {
                    for how in 0..3u8 {
                        if kind == Kind::Push && how != 2 {
                            continue;
                        }
                        for warm in [0usize, 1, peers, peers + 1, 2 * peers + 1] {
                            dc.push(DepartCase { kind, peers, warm, depart, how, rounds: 3, empty_identity: (depart + warm) % 3 == 0 });
                        }
                    }
                }
            }
        }
        let r = run_cases(ctx, "depart", &dc, depart_outcome);
        report.exhaustive_parts.push(format!("PUSH/DEALER/REQ x 2..5 peers x each peer departing (closed / reset and read by the sender, or failing writes met by a send) x 5 warm-up lengths, then 3 rounds over the remaining peers: {} cases", dc.len()));
        report.merge(r);
    }
    {
        let mut cc = vec![];
        for kind in [Kind::Push, Kind::Dealer, Kind::Req] {
            for peers in 1..=4usize {
                for stall_peer in 0..peers {
                    for (budget, size) in [(0usize, 100usize), (5, 100), (40, 300_000), (200_000, 300_000)] {
                        for warm in [0usize, 1, peers + 1] {
                            cc.push(CancelSendCase { kind, peers, warm, stall_peer, budget, size, rounds: 3 });
                        }
                    }
                }
            }
        }
        let r = run_cases(ctx, "cancel_send", &cc, cancel_send_outcome);
        report.exhaustive_parts.push(format!("PUSH/DEALER/REQ x 1..4 peers x each peer stalling after 0 / 5 / 40 / 200000 more bytes x 3 warm-up lengths: the send that blocks on it is abandoned, the peer accepts bytes again, then 3 rounds: {} cases", cc.len()));
        report.merge(r);
    }
    let mut cases = vec![];
    use crate::props::c01::{Fill, FrameSpec};
    let m = |lens: &[usize]| MsgCase {
        frames: lens.iter().map(|l| FrameSpec { len: *l, fill: Fill::Seed(*l as u32) }).collect(),
    };
    for kind in [Kind::Push, Kind::Dealer, Kind::Req] {
        for n in 0..=5usize {
            let mut ops = vec![];
            for i in 0..(3 * n + 1) {
                ops.push(Op::Send(i % 2));
                ops.push(Op::Settle);
            }
            cases.push(RrCase { kind, initial_peers: n, msgs: vec![m(&[5]), m(&[0, 300])], ops: ops.clone(), empty_identity: 0 });
            cases.push(RrCase { kind, initial_peers: n, msgs: vec![m(&[5]), m(&[0, 300])], ops, empty_identity: 0xFF });
            // a long run: behaviour that depends on how many sends went before
            if n == 3 {
                let mut ops = vec![];
                for i in 0..150 {
                    ops.push(Op::Send(i % 2));
                    ops.push(Op::Settle);
                }
                cases.push(RrCase { kind, initial_peers: n, msgs: vec![m(&[5]), m(&[0, 30])], ops, empty_identity: 0 });
            }
            for join_after in 0..=(n + 1) {
                let mut ops = vec![];
                for i in 0..(3 * n + 4) {
                    if i == join_after {
                        ops.push(Op::Join);
                        ops.push(Op::Settle);
                    }
                    ops.push(Op::Send(0));
                    ops.push(Op::Settle);
                }
                cases.push(RrCase { kind, initial_peers: n, msgs: vec![m(&[1, 70_000])], ops, empty_identity: 0 });
            }
            // stalled send, join during the stall, release
            if n >= 1 {
                let ops = vec![
                    Op::Window(0, 2, 3),
                    Op::Send(0),
                    Op::Settle,
                    Op::Join,
                    Op::Settle,
                    Op::Window(0, 0, 0),
                    Op::Settle,
                    Op::Send(0),
                    Op::Settle,
                    Op::Send(0),
                    Op::Settle,
                    Op::Send(0),
                    Op::Settle,
                    Op::Send(0),
                    Op::Settle,
                    Op::Send(0),
                    Op::Settle,
                    Op::Send(0),
                    Op::Settle,
                ];
                cases.push(RrCase { kind, initial_peers: n, msgs: vec![m(&[200_000])], ops, empty_identity: 0 });
            }
        }
    }
    let r = run_cases(ctx, "rr", &cases, rr_outcome);
    report.exhaustive_parts.push(format!("PUSH/DEALER/REQ x 0..5 peers x (3n+1 sends; one join after each of the first n+1 sends; a join while a send is stalled): {} cases", cases.len()));
    report.merge(r);
    let n = t.pick(30_000, 600_000);
    let max_exp = t.pick(18, 19);
    let r = run_random(ctx, "rr", n, 60..=300, |s| gen_rr(s, max_exp), rr_outcome);
    report.sections.push(json!({"part": "random histories: sends, joins, actor steps, write windows (partial / stalled-then-released)", "cases": n}));
    report.merge(r);

    if t == Tier::Thorough {
        crate::fuzzing::campaign(ctx, &mut report, "sim", 180);
    }
    let total = report.evaluations;
    health_abs(&mut report, "departure-observed-then-rotation-checked", 300);
    health_abs(&mut report, "send-abandoned-while-blocked-then-rotation-checked", 300);
    health(&mut report, "rotation-window-checked", total, 200);
    health(&mut report, "joiner-window-checked", total, 50);
    health_abs(&mut report, "join-while-send-in-flight", 50);
    health(&mut report, "window-applied", total, 200);

    let meta = PropertyMeta {
        level: "exploration",
        rule: "proptest histories on real PUSH, DEALER and REQ sockets with 0..6 raw peers joining between and during sends, message shapes up to 256 KiB, per-connection write windows (open, k-byte partial writes, stalled-then-released); for REQ the raw peer answers so that the next send is legal. Oracle: with no peer send fails with ReturnToSender carrying the untouched message and no wire grows; when send returns Ok, at that step exactly one connection's wire has grown since the call started, by exactly the reference encoding of the message (complete, not merely buffered); over any stretch with a stable set of n peers every n consecutive successful sends reach n different connections; a peer that joined is served within the next n sends that start after its join; after a peer has departed and the sender has seen it (read its end or reset, or met its failing writes) every further send succeeds, reaches exactly one of the remaining peers in strict rotation, and nothing is written to the departed connection. Non-trivial = n >= 2 with more than n sends, or a join with sends, or a write window; distinct by case".into(),
        assumptions: vec!["re-joining under an identity whose stale entry is still queued is not generated (the statement quantifies over joins)".into()],
        exhaustive: false,
    };
    (report, meta)
}

pub fn replay(_ctx: &Ctx, kind: &str, case: &Value) -> Vec<Failure> {
    match kind {
        "rr" => parse_case::<RrCase>(case).map(|c| rr_outcome(&c).failures),
        "rejoin" => parse_case::<RejoinCase>(case).map(|c| rejoin_outcome(&c).failures),
        "depart" => parse_case::<DepartCase>(case).map(|c| depart_outcome(&c).failures),
        "cancel_send" => parse_case::<CancelSendCase>(case).map(|c| cancel_send_outcome(&c).failures),
        _ => Err(vec![Failure::new("replay/unknown-kind", kind.to_string())]),
    }
    .unwrap_or_else(|e| e)
}
