//! C02 — stream reassembly is independent of how the bytes were segmented.

use crate::core::*;
use crate::fail;
use crate::libcodec::{self, expected_from_ref, FramedRun, LItem};
use crate::pipe::ReadEnd;
use crate::props::c01::{gen_msg, MsgCase};
use crate::props::parse_case;
use crate::refcodec::{self, Strictness};
use crate::sim::{run_sim, Frames, Kind, Out, Sim};
use crate::streams::{self, ItemSpec, StreamSpec};

use serde::{Deserialize, Serialize};
use serde_json::{json, Value};

#[derive(Debug, Clone, Copy, Serialize, Deserialize, PartialEq, Eq, Hash)]
pub enum EndKind {
    Open,
    Eof,
    Reset,
}

impl EndKind {
    fn read_end(self) -> Option<ReadEnd> {
        match self {
            EndKind::Open => None,
            EndKind::Eof => Some(ReadEnd::Eof),
            EndKind::Reset => Some(ReadEnd::Err(std::io::ErrorKind::ConnectionReset)),
        }
    }
}

#[derive(Debug, Clone, Serialize, Deserialize, PartialEq, Eq, Hash)]
pub struct PartCase {
    pub stream: StreamSpec,
    /// chunk sizes; whatever remains is delivered as a final chunk
    pub chunks: Vec<usize>,
    pub end: EndKind,
}

/// What the reference says the library must produce for these bytes (independent of chunks).
pub struct Expect {
    pub items: Vec<LItem>,
    /// "pending" | "clean" | error class
    pub end: String,
    pub item_ends: Vec<usize>,
}

pub fn expectation(bytes: &[u8], end: EndKind) -> Expect {
    let p = refcodec::parse_stream(bytes, Strictness::LENIENT);
    let mut items = vec![];
    let mut item_ends = vec![];
    // greeting shorter than 64 bytes: nothing decodes
    if bytes.len() < 64 {
        let e = match end {
            EndKind::Open => "pending".to_string(),
            EndKind::Eof => if bytes.is_empty() { "clean".into() } else { "UnexpectedEof".into() },
            EndKind::Reset => "ConnectionReset".into(),
        };
        return Expect { items, end: e, item_ends };
    }
    for (i, it) in p.items.iter().enumerate() {
        match expected_from_ref(it) {
            Ok(li) => {
                items.push(li);
                item_ends.push(p.item_ends[i]);
            }
            Err(cls) => {
                return Expect { items, end: cls, item_ends };
            }
        }
    }
    // bytes the library's decoder still holds: an incomplete frame minus its consumed header
    let mut rem = bytes.len() - p.frames_end;
    if rem > 0 {
        let flags = bytes[p.frames_end];
        rem -= 1;
        let size_len = if flags & refcodec::FLAG_LONG != 0 { 8 } else { 1 };
        if rem >= size_len {
            rem -= size_len;
        }
    }
    let e = match end {
        EndKind::Open => "pending".to_string(),
        EndKind::Eof => if rem == 0 { "clean".into() } else { "UnexpectedEof".into() },
        EndKind::Reset => "ConnectionReset".into(),
    };
    Expect { items, end: e, item_ends }
}

fn brief_items(items: &[LItem]) -> String {
    let v: Vec<String> = items
        .iter()
        .map(|i| match i {
            LItem::Greeting { .. } => "G".into(),
            LItem::Command { name, props } => format!("{}{:?}", name, props.iter().map(|(k, v)| format!("{}={}B", k, v.len())).collect::<Vec<_>>()),
            LItem::Message(m) => format!("M{:?}", m.iter().map(|f| f.len()).collect::<Vec<_>>()),
        })
        .collect();
    v.join(" ")
}

/// absolute oracle: run vs reference expectation
pub fn check_against_ref(run: &FramedRun, exp: &Expect, f: &mut Vec<Failure>, what: &str) {
    if run.items != exp.items {
        fail!(
            f,
            "C02/items-differ-from-reference",
            "{}: library decoded [{}], reference parse of the same bytes gives [{}]",
            what,
            brief_items(&run.items),
            brief_items(&exp.items)
        );
    }
    if run.end != exp.end {
        fail!(f, "C02/end-differs-from-reference", "{}: stream ended as {:?}, reference expects {:?}", what, run.end, exp.end);
    }
}

/// metamorphic oracle: run vs the one-chunk baseline
pub fn check_against_baseline(run: &FramedRun, base: &FramedRun, f: &mut Vec<Failure>, what: &str) {
    if run.items != base.items {
        fail!(
            f,
            "C02/segmentation-changes-items",
            "{}: decoded [{}] but the same bytes in one read decode to [{}]",
            what,
            brief_items(&run.items),
            brief_items(&base.items)
        );
    }
    if run.end != base.end || run.errors != base.errors {
        fail!(f, "C02/segmentation-changes-end", "{}: ended {:?} {:?} vs one-read {:?} {:?}", what, run.end, run.errors, base.end, base.errors);
    }
    // after an error item the connection is dropped; what is left in the buffer then depends on
    // how much had been read and is not observable
    if base.errors.is_empty() && (run.decoder_state != base.decoder_state || run.buffered != base.buffered) {
        fail!(
            f,
            "C02/segmentation-changes-decoder-state",
            "{}: decoder state after the last byte {} (buffered {}) vs one-read {} (buffered {})",
            what,
            run.decoder_state.chars().take(200).collect::<String>(),
            run.buffered,
            base.decoder_state.chars().take(200).collect::<String>(),
            base.buffered
        );
    }
}

/// non-trivial: a cut strictly inside an item, or >= 2 items completed in one chunk
pub fn partition_nontrivial(total: usize, chunks: &[usize], item_ends: &[usize]) -> (bool, bool) {
    let mut cuts = vec![];
    let mut pos = 0usize;
    for c in chunks {
        pos += c;
        if pos >= total {
            break;
        }
        cuts.push(pos);
    }
    let inside = cuts.iter().any(|c| !item_ends.contains(c) && *c > 0);
    // two item ends with no cut between them
    let mut multi = false;
    for w in item_ends.windows(2) {
        if !cuts.iter().any(|c| *c >= w[0] && *c < w[1]) {
            multi = true;
        }
    }
    (inside, multi)
}

fn part_outcome(c: &PartCase) -> Outcome {
    let bytes = c.stream.encode();
    let mut o = Outcome::new(hash_of(c));
    let (r, panics) = capture_panics(|| {
        let mut f = vec![];
        let exp = expectation(&bytes, c.end);
        let base = libcodec::framed_run(&bytes, &[bytes.len()], c.end.read_end(), 1 << 20);
        let run = libcodec::framed_run(&bytes, &c.chunks, c.end.read_end(), 1 << 20);
        check_against_ref(&base, &exp, &mut f, "one read");
        check_against_ref(&run, &exp, &mut f, &format!("chunks {:?}", &c.chunks[..c.chunks.len().min(12)]));
        check_against_baseline(&run, &base, &mut f, &format!("chunks {:?}", &c.chunks[..c.chunks.len().min(12)]));
        (f, exp.item_ends)
    });
    if let Some((f, ends)) = r {
        o.failures = f;
        let (inside, multi) = partition_nontrivial(bytes.len(), &c.chunks, &ends);
        o.nontrivial = inside || multi;
        if inside {
            o.class("cut-inside-item");
        }
        if multi {
            o.class("several-items-in-one-read");
        }
    }
    if c.stream.truncate.is_some() {
        o.class("truncated-stream");
    }
    if bytes.len() > 8192 {
        o.class("longer-than-one-read");
    }
    for p in panics {
        o.fail(format!("C02/panic/{}", panic_sig(&p)), p);
    }
    o
}

#[derive(Debug, Clone, Serialize, Deserialize)]
pub struct GroupCase {
    pub stream: StreamSpec,
    pub end: EndKind,
}

/// baseline (one read) under panic capture
fn baseline(bytes: &[u8], end: EndKind) -> Result<FramedRun, Vec<Failure>> {
    let (r, panics) = capture_panics(|| libcodec::framed_run(bytes, &[bytes.len()], end.read_end(), 1 << 20));
    match r {
        Some(b) if panics.is_empty() => Ok(b),
        _ => Err(panics.into_iter().map(|p| Failure::new(format!("C02/panic/{}", panic_sig(&p)), format!("one read of the whole stream: {}", p))).collect()),
    }
}

/// All partitions of the post-greeting part of small streams; the greeting is delivered either
/// as its own read or glued to the first chunk.
fn exhaustive_partitions(ctx: &Ctx, specs: &[StreamSpec]) -> Report {
    let shards = ctx.threads.max(1);
    par_shards(shards, DEFAULT_STACK, |shard| {
        let mut rep = Report::default();
        for (si, spec) in specs.iter().enumerate() {
            let bytes = spec.encode();
            let n = bytes.len().saturating_sub(64);
            if n == 0 || n > 16 {
                continue;
            }
            for end in [EndKind::Open, EndKind::Eof] {
                crate::crumb::case("partition_all", &GroupCase { stream: spec.clone(), end });
                let exp = expectation(&bytes, end);
                let base = match baseline(&bytes, end) {
                    Ok(b) => b,
                    Err(fs) => {
                        if shard == 0 {
                            let mut o = Outcome::new(hash_of(&(si, end)));
                            o.failures = fs;
                            if let Some(fl) = rep.record(ctx, &o) {
                                let case = PartCase { stream: spec.clone(), chunks: vec![bytes.len()], end };
                                rep.violation(ctx, "partition", &fl, serde_json::to_value(&case).unwrap());
                            }
                        }
                        continue;
                    }
                };
                let masks = 1u32 << (n - 1);
                let mut mask = shard as u32;
                while mask < masks {
                    for glue in [false, true] {
                        let mut chunks = vec![];
                        let mut cur = if glue { 64 } else { 0 };
                        if !glue {
                            chunks.push(64);
                        }
                        for i in 0..n {
                            cur += 1;
                            let cut_after = i + 1 < n && (mask >> i) & 1 == 1;
                            if cut_after {
                                chunks.push(cur);
                                cur = 0;
                            }
                        }
                        chunks.push(cur);
                        let case_key = hash_of(&(si, end, mask, glue));
                        let mut o = Outcome::new(case_key);
                        let (r, panics) = capture_panics(|| {
                            let mut f = vec![];
                            let run = libcodec::framed_run(&bytes, &chunks, end.read_end(), 1 << 20);
                            check_against_ref(&run, &exp, &mut f, "partition");
                            check_against_baseline(&run, &base, &mut f, "partition");
                            f
                        });
                        if let Some(f) = r {
                            o.failures = f;
                        }
                        for p in panics {
                            o.fail(format!("C02/panic/{}", panic_sig(&p)), p);
                        }
                        let (inside, multi) = partition_nontrivial(bytes.len(), &chunks, &exp.item_ends);
                        o.nontrivial = inside || multi;
                        if inside {
                            o.class("cut-inside-item");
                        }
                        if multi {
                            o.class("several-items-in-one-read");
                        }
                        if rep.samples.is_empty() && shard == 0 && inside && mask > 3 {
                            rep.sample(json!({"kind": "partition", "case": {"stream": spec, "chunks": chunks, "end": end}}));
                        }
                        if let Some(fl) = rep.record(ctx, &o) {
                            let case = PartCase { stream: spec.clone(), chunks: chunks.clone(), end };
                            rep.violation(ctx, "partition", &fl, serde_json::to_value(&case).unwrap());
                        }
                    }
                    mask += shards as u32;
                }
            }
        }
        rep
    })
}

/// Every single cut and every pair of cuts (positions anywhere, including inside the greeting).
fn all_cut_pairs(ctx: &Ctx, specs: &[StreamSpec], max_len: usize) -> Report {
    let shards = ctx.threads.max(1);
    par_shards(shards, DEFAULT_STACK, |shard| {
        let mut rep = Report::default();
        for (si, spec) in specs.iter().enumerate() {
            let bytes = spec.encode();
            let n = bytes.len();
            if n < 2 || n > max_len {
                continue;
            }
            for end in [EndKind::Open, EndKind::Eof] {
                crate::crumb::case("partition_all", &GroupCase { stream: spec.clone(), end });
                let exp = expectation(&bytes, end);
                let base = match baseline(&bytes, end) {
                    Ok(b) => b,
                    Err(fs) => {
                        if shard == 0 {
                            let mut o = Outcome::new(hash_of(&(si, end)));
                            o.failures = fs;
                            if let Some(fl) = rep.record(ctx, &o) {
                                let case = PartCase { stream: spec.clone(), chunks: vec![n], end };
                                rep.violation(ctx, "partition", &fl, serde_json::to_value(&case).unwrap());
                            }
                        }
                        continue;
                    }
                };
                {
                    let mut f = vec![];
                    check_against_ref(&base, &exp, &mut f, "one read");
                    if shard == 0 {
                        let mut o = Outcome::new(hash_of(&(si, end, 0usize, 0usize)));
                        o.failures = f;
                        if let Some(fl) = rep.record(ctx, &o) {
                            let case = PartCase { stream: spec.clone(), chunks: vec![n], end };
                            rep.violation(ctx, "partition", &fl, serde_json::to_value(&case).unwrap());
                        }
                    }
                }
                let mut a = 1 + shard;
                while a < n {
                    // b == a means a single cut
                    for b in a..n {
                        let chunks = if a == b { vec![a, n - a] } else { vec![a, b - a, n - b] };
                        let mut o = Outcome::new(hash_of(&(si, end, a, b)));
                        let (r, panics) = capture_panics(|| {
                            let mut f = vec![];
                            let run = libcodec::framed_run(&bytes, &chunks, end.read_end(), 1 << 20);
                            check_against_ref(&run, &exp, &mut f, "cuts");
                            check_against_baseline(&run, &base, &mut f, "cuts");
                            f
                        });
                        if let Some(f) = r {
                            o.failures = f;
                        }
                        for p in panics {
                            o.fail(format!("C02/panic/{}", panic_sig(&p)), p);
                        }
                        let (inside, multi) = partition_nontrivial(n, &chunks, &exp.item_ends);
                        o.nontrivial = inside || multi;
                        if inside {
                            o.class("cut-inside-item");
                        }
                        if multi {
                            o.class("several-items-in-one-read");
                        }
                        if a < 64 {
                            o.class("cut-inside-greeting");
                        }
                        if let Some(fl) = rep.record(ctx, &o) {
                            let case = PartCase { stream: spec.clone(), chunks: chunks.clone(), end };
                            rep.violation(ctx, "partition", &fl, serde_json::to_value(&case).unwrap());
                        }
                    }
                    a += shards;
                }
            }
        }
        rep
    })
}

fn gen_chunks(src: &mut Src<'_>, total: usize) -> Vec<usize> {
    let mut chunks = vec![];
    let mut pos = 0;
    let style = src.below(5);
    while pos < total && chunks.len() < 4000 {
        let c = match style {
            0 => 1,
            1 => src.range(1, 4),
            2 => src.range(1, 64),
            3 => src.pick(&[1usize, 2, 7, 8, 9, 63, 64, 65, 100, 8191, 8192, 8193, 20000]),
            _ => match src.weighted(&[3, 3, 2, 1]) {
                0 => src.range(1, 3),
                1 => src.range(1, 200),
                2 => src.range(1000, 9000),
                _ => src.range(1, 100_000),
            },
        };
        chunks.push(c);
        pos += c;
        if src.exhausted() {
            break;
        }
    }
    chunks
}

// -------------------------------------------------------------------------------------------
// socket level: data arriving in the same segment as the end of the handshake

#[derive(Debug, Clone, Serialize, Deserialize, PartialEq, Eq, Hash)]
pub struct SockCase {
    pub kind: Kind,
    pub msg: MsgCase,
    /// extra READY property value length (0 = none): moves the READY/message boundary
    pub ready_pad: usize,
    /// chunk sizes for the peer's whole stream (greeting ‖ READY ‖ message); rest in one chunk
    pub chunks: Vec<usize>,
}

fn sock_outcome(c: &SockCase) -> Outcome {
    let mut o = Outcome::new(hash_of(c));
    let kind = c.kind;
    let payload: Frames = c.msg.frames();
    // what the raw peer puts on the wire so that recv() must return `expect`
    let (wire_msg, expect): (Frames, Frames) = match kind {
        Kind::Rep => {
            let mut w = vec![vec![]];
            w.extend(payload.clone());
            (w, payload.clone())
        }
        Kind::Req => {
            let mut w = vec![vec![]];
            w.extend(payload.clone());
            (w, payload.clone())
        }
        Kind::XPub | Kind::Pub => {
            // a subscription message (single frame, first byte 1); a PUB has no recv: whether
            // the subscription took effect is observed by publishing (below)
            let mut t = vec![1u8];
            t.extend_from_slice(&payload[0]);
            (vec![t.clone()], vec![t])
        }
        _ => (payload.clone(), payload.clone()),
    };
    let pub_topic: Vec<u8> = payload[0].clone();
    let mut stream = refcodec::RefGreeting::valid_null().encode();
    let mut props = vec![(b"Socket-Type".to_vec(), kind.a_compatible_peer().as_bytes().to_vec())];
    if c.ready_pad > 0 {
        props.push((b"X-pad".to_vec(), vec![b'p'; c.ready_pad]));
    }
    stream.extend_from_slice(&refcodec::encode_command(b"READY", &props));
    let hs_len = stream.len();
    stream.extend_from_slice(&refcodec::encode_message(&wire_msg));
    let total = stream.len();
    let (inside, _multi) = partition_nontrivial(total, &c.chunks, &[64, hs_len, total]);
    // non-trivial: the message (or part of it) shares a read with the end of the handshake
    let mut pos: usize = 0;
    let mut shares = c.chunks.is_empty();
    let mut all = c.chunks.clone();
    all.push(usize::MAX);
    for ch in &all {
        let end = pos.saturating_add(*ch).min(total);
        if pos < hs_len && end > hs_len {
            shares = true;
        }
        pos = end;
    }
    o.nontrivial = shares;
    if shares {
        o.class("message-in-same-read-as-READY");
    }
    if inside {
        o.class("cut-inside-item");
    }
    let chunks = c.chunks.clone();
    let (r, panics) = capture_panics(|| {
        run_sim(async move {
            let mut f = vec![];
            let mut sim = Sim::new();
            let s = sim.socket(kind, None);
            let link = sim.link();
            link.to_lib.deposit(&stream);
            let a = sim.attach(s, &link);
            // deliver chunk by chunk, settling in between (the handshake future is polled as
            // bytes arrive, exactly like a transport task would)
            let mut chunks = chunks;
            chunks.push(usize::MAX);
            let mut req_sent = false;
            let mut recv = None;
            for ch in chunks {
                link.to_lib.deliver(ch);
                if sim.settle().await.is_err() {
                    fail!(f, format!("C02/socket/{}/spin", kind.name()), "socket did not reach quiescence");
                    return f;
                }
                if sim.done(a) && recv.is_none() && kind == Kind::Pub {
                    if !matches!(sim.out(a), Some(Out::Attach(Ok(_)))) {
                        fail!(f, format!("C02/socket/{}/attach-failed", kind.name()), "handshake failed: {:?}", sim.out(a));
                        return f;
                    }
                } else if sim.done(a) && recv.is_none() {
                    if !matches!(sim.out(a), Some(Out::Attach(Ok(_)))) {
                        fail!(f, format!("C02/socket/{}/attach-failed", kind.name()), "handshake failed: {:?}", sim.out(a));
                        return f;
                    }
                    if kind == Kind::Req && !req_sent {
                        let sa = sim.send(s, &[b"request".to_vec()]);
                        let _ = sim.run(sa).await;
                        req_sent = true;
                    }
                    recv = Some(sim.recv(s));
                    let _ = sim.settle().await;
                }
                if link.to_lib.undelivered() == 0 {
                    break;
                }
            }
            if kind == Kind::Pub {
                if !sim.done(a) {
                    fail!(f, "C02/socket/PUB/attach-incomplete", "handshake did not complete after all bytes were delivered");
                    return f;
                }
                let _ = sim.settle().await;
                // the subscription that arrived with (or right after) the handshake is in force
                let mut first = pub_topic.clone();
                first.extend_from_slice(b"!");
                let m: Frames = vec![first, b"body".to_vec()];
                let sa = sim.send(s, &m);
                let _ = sim.run(sa).await;
                let _ = sim.settle().await;
                match link.lib_messages() {
                    Ok(got) if got == vec![m.clone()] => {}
                    Ok(got) => fail!(
                        f,
                        "C02/socket/PUB/first-message-lost",
                        "the subscription ({} topic bytes) that arrived with the handshake did not take effect: a matching publish put {} messages on that connection",
                        pub_topic.len(),
                        got.len()
                    ),
                    Err(e) => fail!(f, "C02/socket/PUB/wire-malformed", "{}", e),
                }
                return f;
            }
            let Some(rv) = recv else {
                fail!(f, format!("C02/socket/{}/attach-incomplete", kind.name()), "handshake did not complete after all bytes were delivered");
                return f;
            };
            let _ = sim.settle().await;
            match sim.out(rv) {
                Some(Out::Recv(Ok(m))) => {
                    let got: Frames = if kind == Kind::Router { m[1..].to_vec() } else { m.clone() };
                    if got != expect {
                        fail!(
                            f,
                            format!("C02/socket/{}/first-message-differs", kind.name()),
                            "first recv returned frames {:?}, the peer sent {:?}",
                            got.iter().map(|x| x.len()).collect::<Vec<_>>(),
                            expect.iter().map(|x| x.len()).collect::<Vec<_>>()
                        );
                    }
                }
                Some(other) => fail!(f, format!("C02/socket/{}/first-recv-error", kind.name()), "first recv returned {:?}", other.err_text()),
                None => fail!(
                    f,
                    format!("C02/socket/{}/first-message-lost", kind.name()),
                    "the message that arrived with the handshake was never delivered: recv still pending after all {} bytes were read",
                    total
                ),
            }
            f
        })
    });
    if let Some(f) = r {
        o.failures = f;
    }
    for p in panics {
        o.fail(format!("C02/panic/{}", panic_sig(&p)), p);
    }
    o
}

const SOCK_KINDS: [Kind; 8] = [Kind::Pull, Kind::Sub, Kind::Dealer, Kind::Router, Kind::Rep, Kind::XPub, Kind::Req, Kind::Pub];

fn sock_cases_enumerated() -> Vec<SockCase> {
    use crate::props::c01::{Fill, FrameSpec};
    let mut v = vec![];
    let m = |lens: &[usize]| MsgCase {
        frames: lens.iter().map(|l| FrameSpec { len: *l, fill: Fill::Seed(*l as u32 + 9) }).collect(),
    };
    for kind in SOCK_KINDS {
        for msg in [m(&[3]), m(&[0, 5]), m(&[300, 1])] {
            // hs_len for pad 0 = 64 + 2 + 6 + 1+11+4+len(type)
            let hs = 64 + 2 + 6 + 16 + kind.a_compatible_peer().len();
            // one write
            v.push(SockCase { kind, msg: msg.clone(), ready_pad: 0, chunks: vec![] });
            // a single cut at every position around the READY/message boundary
            for d in -4i64..=6 {
                let cut = (hs as i64 + d) as usize;
                v.push(SockCase { kind, msg: msg.clone(), ready_pad: 0, chunks: vec![cut] });
                // greeting alone, then the cut
                v.push(SockCase { kind, msg: msg.clone(), ready_pad: 0, chunks: vec![64, cut - 64] });
            }
            // long READY (8-byte size) glued to the message
            v.push(SockCase { kind, msg: msg.clone(), ready_pad: 260, chunks: vec![] });
        }
    }
    v
}

pub fn run(ctx: &Ctx) -> (Report, PropertyMeta) {
    let mut report = Report::default();
    let t = ctx.tier;

    let small = streams::catalogue_small();
    let r = exhaustive_partitions(ctx, &small);
    report.exhaustive_parts.push(format!(
        "all 2^(n-1) partitions of the post-greeting bytes (n <= 16) of {} catalogue streams x greeting glued/separate x {{open, EOF}}: {} runs",
        small.len(),
        r.evaluations
    ));
    report.merge(r);

    let mut medium = streams::catalogue_medium();
    medium.extend(small.iter().cloned());
    let r = all_cut_pairs(ctx, &medium, t.pick(420, 1200));
    report.exhaustive_parts.push(format!("every single cut and every pair of cuts (incl. inside the greeting) of {} streams x {{open, EOF}}: {} runs", medium.len(), r.evaluations));
    report.merge(r);

    // frames far beyond the framed reader's 8 KiB read size (and beyond any "reasonable" buffer
    // bound someone may put into the decoder): the frame is incomplete for hundreds of reads
    {
        use crate::props::c01::{Fill, FrameSpec};
        let mut big = vec![];
        for lens in [vec![(1usize << 20) - 1], vec![1 << 20], vec![(1 << 20) + 1], vec![3, (3 << 20) + 17, 0], vec![(1 << 20) + 4321, (1 << 20) + 1]] {
            let frames: Vec<FrameSpec> = lens.iter().map(|l| FrameSpec { len: *l, fill: Fill::Seed(*l as u32) }).collect();
            let stream = StreamSpec { greeting: true, items: vec![ItemSpec::Message(frames), ItemSpec::Message(vec![FrameSpec { len: 2, fill: Fill::Ones }])], truncate: None };
            let total = stream.encode().len();
            for chunks in [vec![], vec![64], vec![64 + 9 + 1000], vec![total - 5], vec![70_000; total / 70_000], vec![8192; total / 8192]] {
                for end in [EndKind::Open, EndKind::Eof] {
                    big.push(PartCase { stream: stream.clone(), chunks: chunks.clone(), end });
                }
            }
        }
        let r = run_cases(ctx, "partition", &big, part_outcome);
        report.exhaustive_parts.push(format!("messages with frames of 2^20 - 1 / 2^20 / 2^20 + 1 / 3 MiB + 17 bytes (and two > 1 MiB frames in one message) followed by a small message x 6 partitions x {{open, EOF}}: {} runs", big.len()));
        report.merge(r);
    }
    let n = t.pick(20_000, 400_000);
    let max_exp = t.pick(17, 20);
    let r = run_random(
        ctx,
        "partition",
        n,
        8..=200,
        |s| {
            // up to 6 items, sometimes a long run of them
            let max_items = match s.weighted(&[10, 2, 1]) {
                0 => 6,
                1 => 40,
                _ => 150,
            };
            let stream = streams::gen_stream(s, max_items, if max_items > 6 { 12 } else { max_exp });
            let total = stream.encode().len();
            let end = s.pick(&[EndKind::Open, EndKind::Eof, EndKind::Eof, EndKind::Reset]);
            let chunks = gen_chunks(s, total);
            PartCase { stream, chunks, end }
        },
        part_outcome,
    );
    report.sections.push(json!({"part": "random streams x random partitions", "cases": n}));
    report.merge(r);

    let sc = sock_cases_enumerated();
    let r = run_cases(ctx, "socket", &sc, sock_outcome);
    report.exhaustive_parts.push(format!("socket level: 8 socket types x 3 messages x (one write + every single cut within -4..+6 bytes of the READY/message boundary, with and without a separate greeting read + long READY): {} cases", sc.len()));
    report.merge(r);
    let n = t.pick(6000, 200_000);
    let r = run_random(
        ctx,
        "socket",
        n,
        6..=40,
        |s| {
            let kind = s.pick(&SOCK_KINDS);
            let msg = gen_msg(s, 4, 15, 1 << 18);
            let ready_pad = s.pick(&[0usize, 0, 1, 200, 230, 260]);
            let nchunks = s.range(0, 6);
            let chunks = (0..nchunks)
                .map(|_| match s.weighted(&[2, 2, 1]) {
                    0 => s.range(1, 8),
                    1 => s.range(1, 120),
                    _ => s.range(1, 9000),
                })
                .collect();
            SockCase { kind, msg, ready_pad, chunks }
        },
        sock_outcome,
    );
    report.sections.push(json!({"part": "socket level, random segmentation", "cases": n}));
    report.merge(r);

    if t == Tier::Thorough {
        crate::fuzzing::campaign(ctx, &mut report, "wire", 240);
    }
    let total = report.evaluations;
    health(&mut report, "cut-inside-item", total, 300);
    health_abs(&mut report, "several-items-in-one-read", 1000);
    health_abs(&mut report, "message-in-same-read-as-READY", 100);
    health_abs(&mut report, "longer-than-one-read", 50);

    let meta = PropertyMeta {
        level: "exploration",
        rule: "item sequences (greeting, READY with 0..4 properties, unknown commands, messages with 1..6 frames incl. empty, 8 KiB+ and 64 KiB+ frames, non-canonical long sizes, optional truncation) built by the reference encoder, fed to the library's REAL framed reader through a scripted byte source. Exhaustive: all partitions of the post-greeting bytes for catalogue streams <= 16 bytes; every single cut and pair of cuts for streams <= ~400 bytes; proptest random partitions (byte-at-a-time, tiny, around 8192, huge chunks) for long streams; socket level: greeting‖READY‖message in one write / cut around the boundary for 7 socket types. Oracles: (metamorphic) items, end-of-stream kind and decoder Debug state equal those of the one-read run; (absolute) items and end equal an independent reference parse. Non-trivial = a cut strictly inside an item or >= 2 items completed in one read (socket level: message bytes share a read with the end of READY); distinct by (stream, partition, end)".into(),
        assumptions: vec![
            "library choices taken as given: only READY is a known command (others surface as an error item), duplicate property names collapse to the last".into(),
            "reads are capped at the framed reader's own 8 KiB read buffer".into(),
        ],
        exhaustive: false,
    };
    (report, meta)
}

pub fn replay(ctx: &Ctx, kind: &str, case: &Value) -> Vec<Failure> {
    match kind {
        "partition" => parse_case::<PartCase>(case).map(|c| part_outcome(&c).failures),
        "socket" => parse_case::<SockCase>(case).map(|c| sock_outcome(&c).failures),
        "partition_all" => parse_case::<GroupCase>(case).map(|c| {
            let mut ctx1 = ctx.clone();
            ctx1.threads = 1;
            let mut r = all_cut_pairs(&ctx1, std::slice::from_ref(&c.stream), usize::MAX);
            r.merge(exhaustive_partitions(&ctx1, std::slice::from_ref(&c.stream)));
            r.violations.into_iter().map(|v| Failure::new(v.signature, v.message)).collect()
        }),
        _ => Err(vec![Failure::new("replay/unknown-kind", kind.to_string())]),
    }
    .unwrap_or_else(|e| e)
}
