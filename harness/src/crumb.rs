//! Breadcrumbs for crash isolation: before a case that could take the process down (abort on
//! allocation failure, stack overflow) is executed, its description is written with a single
//! pwrite to a per-thread file. The supervising parent process reads these files when the child
//! dies abnormally and turns the last cases into a replayable VIOLATION.

use serde::Serialize;
use std::cell::RefCell;
use std::fs::File;
use std::os::unix::io::AsRawFd;
use std::path::PathBuf;
use std::sync::atomic::{AtomicU64, Ordering};
use std::sync::OnceLock;

static DIR: OnceLock<PathBuf> = OnceLock::new();
static NEXT: AtomicU64 = AtomicU64::new(0);

thread_local! {
    static FILE: RefCell<Option<File>> = const { RefCell::new(None) };
}

pub fn init(dir: PathBuf) {
    let _ = std::fs::create_dir_all(&dir);
    let _ = DIR.set(dir);
}

pub fn enabled() -> bool {
    DIR.get().is_some()
}

pub fn write_raw(text: &str) {
    let Some(dir) = DIR.get() else { return };
    FILE.with(|f| {
        let mut f = f.borrow_mut();
        if f.is_none() {
            let n = NEXT.fetch_add(1, Ordering::SeqCst);
            let p = dir.join(format!("crumb-{}", n));
            *f = File::create(p).ok();
        }
        if let Some(file) = f.as_ref() {
            let bytes = text.as_bytes();
            let mut buf = Vec::with_capacity(bytes.len() + 9);
            buf.extend_from_slice(format!("{:08}\n", bytes.len()).as_bytes());
            buf.extend_from_slice(bytes);
            unsafe {
                libc::pwrite(file.as_raw_fd(), buf.as_ptr() as *const libc::c_void, buf.len(), 0);
            }
        }
    });
}

/// Record "about to run this case".
pub fn case<C: Serialize>(kind: &str, case: &C) {
    if !enabled() {
        return;
    }
    let v = serde_json::json!({"kind": kind, "case": case});
    write_raw(&v.to_string());
}

/// Record "this thread is idle / finished its case".
pub fn clear() {
    if enabled() {
        write_raw("{}");
    }
}

/// Parent side: read all crumbs from a directory.
pub fn read_all(dir: &std::path::Path) -> Vec<serde_json::Value> {
    read_all_with_paths(dir).into_iter().map(|x| x.1).collect()
}

pub fn read_all_with_paths(dir: &std::path::Path) -> Vec<(PathBuf, serde_json::Value)> {
    let mut out = vec![];
    if let Ok(rd) = std::fs::read_dir(dir) {
        for e in rd.flatten() {
            if let Ok(data) = std::fs::read(e.path()) {
                if data.len() < 9 {
                    continue;
                }
                let n: usize = std::str::from_utf8(&data[..8]).ok().and_then(|s| s.parse().ok()).unwrap_or(0);
                if data.len() >= 9 + n {
                    if let Ok(v) = serde_json::from_slice::<serde_json::Value>(&data[9..9 + n]) {
                        if v.get("kind").is_some() {
                            out.push((e.path(), v));
                        }
                    }
                }
            }
        }
    }
    out
}
