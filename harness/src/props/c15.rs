//! C15 — proxy() forwards every message verbatim in both directions.

use crate::core::*;
use crate::fail;
use crate::pipe::Pipe;
use crate::props::parse_case;
use crate::refcodec::{self, RefItem, Strictness};
use crate::sim::{run_sim, Frames, Kind, Link, Out, Sim};

use serde::{Deserialize, Serialize};
use serde_json::{json, Value};

#[derive(Debug, Clone, Copy, Serialize, Deserialize, PartialEq, Eq, Hash)]
pub enum Capture {
    None,
    Push,
    Pub,
    Dealer,
}

#[derive(Debug, Clone, Serialize, Deserialize, PartialEq, Eq, Hash)]
pub struct ClientSpec {
    /// 0 = raw DEALER (pipelines all its requests), 1 = raw REQ (lock-step), 2 = library REQ
    pub kind: u8,
    pub requests: usize,
}

#[derive(Debug, Clone, Serialize, Deserialize, PartialEq, Eq, Hash)]
pub struct ProxyCase {
    pub clients: Vec<ClientSpec>,
    /// per worker: true = library REP echo server, false = raw echo peer
    pub workers: Vec<bool>,
    pub capture: Capture,
    /// extra payload frame lengths after the tag frame
    pub payload: Vec<usize>,
    pub schedule: Vec<u16>,
    /// DEALER-style traffic: requests carry no delimiter frame ([tag, payload..], so a request
    /// without payload frames travels as [identity, tag]) and workers echo verbatim. Only with
    /// raw DEALER clients and raw workers.
    #[serde(default)]
    pub plain: bool,
}

enum ClientRt {
    Raw { link: Link, lockstep: bool, waiting: bool },
    Lib { sock: usize, to_front: Pipe, from_front: Pipe, call: Option<usize>, phase: u8 },
}

enum WorkerRt {
    Raw { link: Link, echoed: usize },
    Lib { sock: usize, to_back: Pipe, from_back: Pipe, call: Option<usize>, pending_echo: Option<Frames> },
}

/// messages after the handshake on a pipe a library socket writes to (strict parse)
fn pipe_messages(p: &Pipe) -> Result<Vec<Frames>, String> {
    let tap = p.tap();
    let r = refcodec::parse_stream(&tap, Strictness::EMITTED_WITH_GREETING);
    if let Some(e) = r.error {
        return Err(format!("{:?}", e));
    }
    Ok(r.items.into_iter().filter_map(|i| if let RefItem::Message(m) = i { Some(m) } else { None }).collect())
}

fn request(i: usize, k: usize, payload: &[usize], plain: bool) -> Frames {
    let mut m: Frames = if plain { vec![format!("c{}-{}", i, k).into_bytes()] } else { vec![vec![], format!("c{}-{}", i, k).into_bytes()] };
    for (j, l) in payload.iter().enumerate() {
        m.push(fill((i * 100 + k * 10 + j) as u32, *l));
    }
    m
}

fn multiset_eq(a: &[Frames], b: &[Frames]) -> bool {
    let mut x = a.to_vec();
    let mut y = b.to_vec();
    x.sort();
    y.sort();
    x == y
}

fn is_subsequence(sub: &[Frames], of: &[Frames]) -> bool {
    let mut it = of.iter();
    sub.iter().all(|s| it.any(|o| o == s))
}

pub fn proxy_outcome(c: &ProxyCase) -> Outcome {
    let mut o = Outcome::new(hash_of(c));
    let c2 = c.clone();
    let (r, panics) = capture_panics(|| {
        run_sim(async move {
            let c = c2;
            let plain = c.plain && c.clients.iter().all(|x| x.kind == 0) && c.workers.iter().all(|w| !*w);
            let mut f: Vec<Failure> = vec![];
            let mut classes: Vec<String> = vec![];
            if plain {
                classes.push("dealer-style-traffic-without-delimiter".into());
            }
            let mut sim = Sim::new();
            let front = sim.socket(Kind::Router, None);
            let back = sim.socket(Kind::Dealer, None);
            // capture socket with a raw sink
            let mut cap_link: Option<Link> = None;
            let cap_sock = match c.capture {
                Capture::None => None,
                cap => {
                    let kind = match cap {
                        Capture::Push => Kind::Push,
                        Capture::Pub => Kind::Pub,
                        _ => Kind::Dealer,
                    };
                    let s = sim.socket(kind, None);
                    let l = sim.link();
                    l.raw_handshake(kind.a_compatible_peer(), None);
                    let a = sim.attach(s, &l);
                    let _ = sim.run(a).await;
                    if cap == Capture::Pub && c.schedule.len() % 2 == 1 {
                        // subscribe to everything (even schedules: to every client's identity,
                        // exactly - see below, once the identities are known)
                        l.raw_send_now(&[vec![1u8]]);
                        let _ = sim.settle().await;
                    }
                    cap_link = Some(l);
                    Some(s)
                }
            };
            let mut clients: Vec<ClientRt> = vec![];
            let mut ids: Vec<Vec<u8>> = vec![];
            for (i, cs) in c.clients.iter().enumerate() {
                // identities of 8, 255 (the maximum) and 1 bytes
                let mut id = format!("client-{}", i).into_bytes();
                match i % 4 {
                    1 => id.resize(255, b'x'),
                    2 => id = vec![b'A' + i as u8],
                    _ => {}
                }
                if cs.kind == 2 {
                    let s = sim.socket(Kind::Req, Some(&id));
                    let (x, y, ab, ba) = sim.connect_libs(s, front, true);
                    let _ = sim.settle().await;
                    if !matches!(sim.out(x), Some(Out::Attach(Ok(_)))) || !matches!(sim.out(y), Some(Out::Attach(Ok(_)))) {
                        fail!(f, "C15/setup", "lib REQ client handshake");
                        return (f, classes);
                    }
                    ab.set_auto(false);
                    ba.set_auto(false);
                    clients.push(ClientRt::Lib { sock: s, to_front: ab, from_front: ba, call: None, phase: 0 });
                } else {
                    let l = sim.link();
                    // raw clients #0 and #3 announce an EMPTY Identity, as libzmq REQ / DEALER
                    // sockets do by default: the front ROUTER must give each an identity of its own
                    let announce_empty = i % 3 == 0;
                    l.raw_handshake(if cs.kind == 1 { "REQ" } else { "DEALER" }, Some(if announce_empty { &[][..] } else { &id[..] }));
                    let a = sim.attach(front, &l);
                    match sim.run(a).await {
                        Ok(Some(Out::Attach(Ok(assigned)))) => {
                            if announce_empty {
                                classes.push("client-announces-empty-identity".into());
                                id = assigned;
                            }
                        }
                        _ => {
                            fail!(f, "C15/setup", "raw client handshake");
                            return (f, classes);
                        }
                    }
                    clients.push(ClientRt::Raw { link: l, lockstep: cs.kind == 1, waiting: false });
                }
                ids.push(id);
            }
            if c.capture == Capture::Pub && c.schedule.len() % 2 == 0 {
                // every forwarded message starts with a client's identity: the monitor follows
                // each client by subscribing to exactly that identity (a subscription as long
                // as the first frame)
                if let Some(l) = &cap_link {
                    for id in &ids {
                        let mut sub = vec![1u8];
                        sub.extend_from_slice(id);
                        l.raw_send_now(&[sub]);
                    }
                    let _ = sim.settle().await;
                    classes.push("capture-subscribed-to-exact-identities".into());
                }
            }
            let mut workers: Vec<WorkerRt> = vec![];
            for lib in &c.workers {
                if *lib {
                    let s = sim.socket(Kind::Rep, None);
                    let (x, y, ab, ba) = sim.connect_libs(s, back, true);
                    let _ = sim.settle().await;
                    if !matches!(sim.out(x), Some(Out::Attach(Ok(_)))) || !matches!(sim.out(y), Some(Out::Attach(Ok(_)))) {
                        fail!(f, "C15/setup", "lib REP worker handshake");
                        return (f, classes);
                    }
                    ab.set_auto(false);
                    ba.set_auto(false);
                    workers.push(WorkerRt::Lib { sock: s, to_back: ab, from_back: ba, call: None, pending_echo: None });
                } else {
                    let l = sim.link();
                    l.raw_handshake("REP", None);
                    let a = sim.attach(back, &l);
                    if !matches!(sim.run(a).await, Ok(Some(Out::Attach(Ok(_))))) {
                        fail!(f, "C15/setup", "raw worker handshake");
                        return (f, classes);
                    }
                    workers.push(WorkerRt::Raw { link: l, echoed: 0 });
                }
            }
            let proxy = sim.proxy(front, back, cap_sock);
            let mut sent = vec![0usize; clients.len()];
            let mut lib_got: Vec<Vec<Frames>> = vec![vec![]; clients.len()];
            let total: usize = c.clients.iter().map(|x| x.requests).sum();
            let mut sched_used = 0usize;
            let mut steps = 0usize;
            let mut front_fed = false;
            let mut back_fed = false;
            let mut both_ready = 0usize;
            loop {
                steps += 1;
                if steps > 60_000 {
                    fail!(f, "C15/no-progress", "not all {} requests answered after 60000 steps", total);
                    break;
                }
                if sim.done(proxy) {
                    fail!(f, "C15/proxy-terminated", "proxy() returned while all peers are connected: {:?}", sim.out(proxy).map(|o| o.err_text().map(|s| s.to_string())));
                    break;
                }
                // ---- application logic of the participants
                let mut progressed = false;
                for (i, cl) in clients.iter_mut().enumerate() {
                    match cl {
                        ClientRt::Raw { link, lockstep, waiting } => {
                            if *lockstep && *waiting {
                                let n = link.lib_messages_prefix().map(|x| x.0.len()).unwrap_or(0);
                                if n >= sent[i] {
                                    *waiting = false;
                                    progressed = true;
                                }
                            }
                            if sent[i] < c.clients[i].requests && !(*lockstep && *waiting) {
                                link.raw_send(&request(i, sent[i], &c.payload, plain));
                                sent[i] += 1;
                                *waiting = true;
                                progressed = true;
                            }
                        }
                        ClientRt::Lib { sock, call, phase, .. } => {
                            if let Some(a) = *call {
                                if sim.done(a) {
                                    match sim.take(a) {
                                        Some(Out::Send(Ok(()))) => {
                                            *call = Some(sim.recv(*sock));
                                            *phase = 2;
                                        }
                                        Some(Out::Recv(Ok(m))) => {
                                            lib_got[i].push(m);
                                            *call = None;
                                            *phase = 0;
                                        }
                                        other => {
                                            fail!(f, "C15/client-call-failed", "library REQ client {}: {:?}", i, other);
                                            *call = None;
                                            sent[i] = c.clients[i].requests;
                                        }
                                    }
                                    progressed = true;
                                }
                            } else if *phase == 0 && sent[i] < c.clients[i].requests {
                                let req = request(i, sent[i], &c.payload, plain);
                                *call = Some(sim.send(*sock, &req[1..]));
                                sent[i] += 1;
                                *phase = 1;
                                progressed = true;
                            }
                        }
                    }
                }
                for w in workers.iter_mut() {
                    match w {
                        WorkerRt::Raw { link, echoed } => {
                            if let Ok((msgs, _)) = link.lib_messages_prefix() {
                                while *echoed < msgs.len() {
                                    let mut e = msgs[*echoed].clone();
                                    if !plain {
                                        e.push(b"!".to_vec());
                                        e.push(vec![]);
                                    }
                                    link.raw_send(&e);
                                    *echoed += 1;
                                    progressed = true;
                                }
                            }
                        }
                        WorkerRt::Lib { sock, call, pending_echo, .. } => {
                            if let Some(a) = *call {
                                if sim.done(a) {
                                    match sim.take(a) {
                                        Some(Out::Recv(Ok(m))) => {
                                            let mut e = m;
                                            e.push(b"!".to_vec());
                                            e.push(vec![]);
                                            *pending_echo = Some(e);
                                        }
                                        Some(Out::Send(Ok(()))) => {}
                                        other => fail!(f, "C15/worker-call-failed", "library REP worker: {:?}", other),
                                    }
                                    *call = None;
                                    progressed = true;
                                }
                            } else {
                                *call = Some(match pending_echo.take() {
                                    Some(m) => sim.send(*sock, &m),
                                    None => sim.recv(*sock),
                                });
                                progressed = true;
                            }
                        }
                    }
                }
                // done?
                let answered: usize = clients
                    .iter()
                    .enumerate()
                    .map(|(i, cl)| match cl {
                        ClientRt::Raw { link, .. } => link.lib_messages_prefix().map(|x| x.0.len()).unwrap_or(0),
                        ClientRt::Lib { .. } => lib_got[i].len(),
                    })
                    .sum();
                if answered >= total && sent.iter().zip(c.clients.iter()).all(|(s, cs)| *s >= cs.requests) {
                    break;
                }
                if progressed {
                    continue;
                }
                // ---- scheduler-chosen action
                #[derive(Clone)]
                enum Act {
                    Step(usize),
                    Deliver(Pipe, usize, bool),
                }
                // once the generated schedule is used up the history is drained fairly: the choice
                // rotates over all enabled actions and deliveries are whole (a constant choice
                // could keep picking a few-byte delivery and run into the step cap)
                let draining = sched_used >= c.schedule.len();
                let ch = if draining { (sched_used as u32).wrapping_mul(40503) as u16 } else { c.schedule[sched_used] };
                sched_used += 1;
                let mut acts: Vec<Act> = vec![];
                for a in sim.runnable() {
                    acts.push(Act::Step(a));
                }
                for cl in &clients {
                    match cl {
                        ClientRt::Raw { link, .. } => {
                            if link.to_lib.undelivered() > 0 {
                                if !draining {
                                    acts.push(Act::Deliver(link.to_lib.clone(), 1 + ch as usize % 11, true));
                                }
                                acts.push(Act::Deliver(link.to_lib.clone(), usize::MAX, true));
                            }
                        }
                        ClientRt::Lib { to_front, from_front, .. } => {
                            if to_front.undelivered() > 0 {
                                acts.push(Act::Deliver(to_front.clone(), usize::MAX, true));
                            }
                            if from_front.undelivered() > 0 {
                                acts.push(Act::Deliver(from_front.clone(), usize::MAX, false));
                            }
                        }
                    }
                }
                for w in &workers {
                    match w {
                        WorkerRt::Raw { link, .. } => {
                            if link.to_lib.undelivered() > 0 {
                                if !draining {
                                    acts.push(Act::Deliver(link.to_lib.clone(), 1 + ch as usize % 11, false));
                                }
                                acts.push(Act::Deliver(link.to_lib.clone(), usize::MAX, false));
                            }
                        }
                        WorkerRt::Lib { to_back, from_back, .. } => {
                            if to_back.undelivered() > 0 {
                                acts.push(Act::Deliver(to_back.clone(), usize::MAX, false));
                            }
                            if from_back.undelivered() > 0 {
                                acts.push(Act::Deliver(from_back.clone(), usize::MAX, true));
                            }
                        }
                    }
                }
                if acts.is_empty() {
                    if sim.settle().await.is_err() {
                        fail!(f, "C15/spin", "does not settle");
                        break;
                    }
                    if sim.runnable().is_empty() {
                        fail!(f, "C15/stuck", "nothing runnable, no byte in flight, {} of {} requests answered", answered, total);
                        break;
                    }
                    continue;
                }
                match acts[((ch as usize) * acts.len()) >> 16].clone() {
                    Act::Step(a) => {
                        if a == proxy {
                            if front_fed && back_fed {
                                both_ready += 1;
                            }
                            front_fed = false;
                            back_fed = false;
                        }
                        sim.poll(a);
                    }
                    Act::Deliver(p, n, towards_proxy_front) => {
                        p.deliver(n);
                        // was this a delivery INTO the proxy (front or back side)?
                        let into_front = clients.iter().any(|cl| match cl {
                            ClientRt::Raw { link, .. } => std::sync::Arc::ptr_eq(&link.to_lib.0, &p.0),
                            ClientRt::Lib { to_front, .. } => std::sync::Arc::ptr_eq(&to_front.0, &p.0),
                        });
                        let into_back = workers.iter().any(|w| match w {
                            WorkerRt::Raw { link, .. } => std::sync::Arc::ptr_eq(&link.to_lib.0, &p.0),
                            WorkerRt::Lib { to_back, .. } => std::sync::Arc::ptr_eq(&to_back.0, &p.0),
                        });
                        let _ = towards_proxy_front;
                        if into_front {
                            front_fed = true;
                        }
                        if into_back {
                            back_fed = true;
                        }
                    }
                }
            }
            let _ = sim.settle().await;
            if both_ready > 0 {
                classes.push("both-sides-ready-before-a-proxy-poll".into());
            }
            // ---- oracle
            // (1) what the workers received
            let mut at_workers: Vec<Vec<Frames>> = vec![];
            for (wi, w) in workers.iter().enumerate() {
                let r = match w {
                    WorkerRt::Raw { link, .. } => link.lib_messages(),
                    WorkerRt::Lib { from_back, .. } => pipe_messages(from_back),
                };
                match r {
                    Ok(m) => at_workers.push(m),
                    Err(e) => {
                        fail!(f, "C15/wire-malformed", "worker {}: {}", wi, e);
                        at_workers.push(vec![]);
                    }
                }
            }
            let mut want_fwd: Vec<Frames> = vec![];
            for (i, cs) in c.clients.iter().enumerate() {
                for k in 0..cs.requests {
                    let mut m = vec![ids[i].clone()];
                    m.extend(request(i, k, &c.payload, plain));
                    want_fwd.push(m);
                }
            }
            let all_at_workers: Vec<Frames> = at_workers.iter().flatten().cloned().collect();
            if !multiset_eq(&all_at_workers, &want_fwd) {
                let sig = if all_at_workers.len() < want_fwd.len() { "front-to-back-message-lost" } else if all_at_workers.len() > want_fwd.len() { "front-to-back-message-duplicated" } else { "front-to-back-message-modified" };
                fail!(
                    f,
                    format!("C15/{}", sig),
                    "clients sent {} requests; the back side wrote {} messages to workers (frame counts {:?}, expected identity + delimiter + tag + {} payload frames each)",
                    want_fwd.len(),
                    all_at_workers.len(),
                    all_at_workers.iter().map(|m| m.len()).collect::<Vec<_>>(),
                    c.payload.len()
                );
            }
            // per-client order at each worker
            for (wi, msgs) in at_workers.iter().enumerate() {
                for i in 0..clients.len() {
                    let ks: Vec<usize> = msgs
                        .iter()
                        .filter(|m| m.first() == Some(&ids[i]))
                        .filter_map(|m| m.get(if plain { 1 } else { 2 }).and_then(|t| std::str::from_utf8(t).ok()).and_then(|t| t.split('-').nth(1)).and_then(|x| x.parse().ok()))
                        .collect();
                    if ks.windows(2).any(|w| w[0] >= w[1]) {
                        fail!(f, "C15/front-to-back-reordered", "worker {} received client {}'s requests in order {:?}", wi, i, ks);
                    }
                }
            }
            // (2) what the clients received
            let mut want_back: Vec<Frames> = vec![];
            let mut at_clients: Vec<Vec<Frames>> = vec![];
            for (i, cl) in clients.iter().enumerate() {
                let want: Vec<Frames> = (0..c.clients[i].requests)
                    .map(|k| {
                        let mut m = request(i, k, &c.payload, plain);
                        if !plain {
                            m.push(b"!".to_vec());
                            m.push(vec![]);
                        }
                        m
                    })
                    .collect();
                for m in &want {
                    let mut b = vec![ids[i].clone()];
                    b.extend(m.clone());
                    want_back.push(b);
                }
                let r = match cl {
                    ClientRt::Raw { link, .. } => link.lib_messages(),
                    ClientRt::Lib { from_front, .. } => pipe_messages(from_front),
                };
                match r {
                    Ok(m) => {
                        let lockstep = !matches!(cl, ClientRt::Raw { lockstep: false, .. });
                        let ok = if lockstep { m == want } else { multiset_eq(&m, &want) };
                        if !ok {
                            let sig = if m.len() < want.len() { "back-to-front-reply-lost" } else if m.len() > want.len() { "back-to-front-reply-duplicated-or-misrouted" } else { "back-to-front-reply-modified-or-misrouted" };
                            fail!(
                                f,
                                format!("C15/{}", sig),
                                "client {} received {} replies {:?}, expected its own {}",
                                i,
                                m.len(),
                                m.iter().map(|x| String::from_utf8_lossy(x.get(if plain { 0 } else { 1 }).map(|t| t.as_slice()).unwrap_or(b"?")).to_string()).collect::<Vec<_>>(),
                                want.len()
                            );
                        }
                        // order per direction: the replies one worker wrote for this client (it
                        // echoes in the order it received) reach the client in that order, also
                        // when the client pipelines and replies of several workers interleave
                        let tag_of = |m: &Frames, pos: usize| -> Option<usize> { m.get(pos).and_then(|t| std::str::from_utf8(t).ok()).and_then(|t| t.split('-').nth(1)).and_then(|x| x.parse().ok()) };
                        for (wi, wm) in at_workers.iter().enumerate() {
                            let handled: Vec<usize> = wm.iter().filter(|x| x.first() == Some(&ids[i])).filter_map(|x| tag_of(x, if plain { 1 } else { 2 })).collect();
                            let seen: Vec<usize> = m.iter().filter_map(|x| tag_of(x, if plain { 0 } else { 1 })).filter(|k| handled.contains(k)).collect();
                            if seen.windows(2).any(|w| w[0] >= w[1]) {
                                fail!(f, "C15/back-to-front-reordered", "client {} received the replies worker {} wrote for it in order {:?} (the worker handled {:?} in that order)", i, wi, seen, handled);
                            }
                        }
                        at_clients.push(m);
                    }
                    Err(e) => {
                        fail!(f, "C15/wire-malformed", "client {}: {}", i, e);
                        at_clients.push(vec![]);
                    }
                }
                if let ClientRt::Lib { .. } = cl {
                    let want_app: Vec<Frames> = want.iter().map(|m| m[1..].to_vec()).collect();
                    if lib_got[i] != want_app {
                        fail!(f, "C15/chain/client-got-wrong-replies", "library REQ client {} got {} replies, expected exactly its own {} in order", i, lib_got[i].len(), want_app.len());
                    }
                }
            }
            // (3) capture
            if let Some(cl) = &cap_link {
                match cl.lib_messages() {
                    Ok(cap) => {
                        let mut want_all = want_fwd.clone();
                        want_all.extend(want_back.clone());
                        if !multiset_eq(&cap, &want_all) {
                            let sig = if cap.len() < want_all.len() { "capture-misses-messages" } else { "capture-has-extra-or-modified-messages" };
                            fail!(f, format!("C15/{}", sig), "capture socket was sent {} messages, {} were forwarded", cap.len(), want_all.len());
                        } else {
                            // forwarding order: each destination's sequence is a subsequence of the capture
                            for (wi, msgs) in at_workers.iter().enumerate() {
                                if !is_subsequence(msgs, &cap) {
                                    fail!(f, "C15/capture-order-differs-from-forwarding-order", "worker {}'s inbound sequence is not a subsequence of the capture stream", wi);
                                }
                            }
                            for (i, msgs) in at_clients.iter().enumerate() {
                                let with_id: Vec<Frames> = msgs
                                    .iter()
                                    .map(|m| {
                                        let mut b = vec![ids[i].clone()];
                                        b.extend(m.clone());
                                        b
                                    })
                                    .collect();
                                if !is_subsequence(&with_id, &cap) {
                                    fail!(f, "C15/capture-order-differs-from-forwarding-order", "client {}'s inbound sequence is not a subsequence of the capture stream", i);
                                }
                            }
                        }
                    }
                    Err(e) => fail!(f, "C15/wire-malformed", "capture: {}", e),
                }
            }
            (f, classes)
        })
    });
    if let Some((f, classes)) = r {
        o.failures = f;
        let both = classes.iter().any(|c| c == "both-sides-ready-before-a-proxy-poll");
        o.nontrivial = c.clients.len() >= 2 && !c.payload.is_empty() && both;
        o.classes.extend(classes);
    }
    if c.capture != Capture::None {
        o.class("with-capture");
    }
    if c.clients.iter().any(|x| x.kind == 2) {
        o.class("library-REQ-client");
    }
    if c.workers.iter().any(|x| *x) {
        o.class("library-REP-worker");
    }
    for p in panics {
        o.fail(format!("C15/panic/{}", panic_sig(&p)), p);
    }
    o
}

fn gen_proxy(s: &mut Src<'_>) -> ProxyCase {
    let nc = s.range(1, 4);
    let clients = (0..nc)
        .map(|_| ClientSpec {
            kind: s.below(3) as u8,
            requests: s.range(1, 4),
        })
        .collect();
    let nw = s.range(1, 3);
    let workers = (0..nw).map(|_| s.chance(1, 3)).collect();
    let capture = s.pick(&[Capture::None, Capture::Push, Capture::Pub, Capture::Dealer]);
    let np = s.range(0, 3);
    let payload = (0..np)
        .map(|_| match s.weighted(&[3, 3, 1, 1]) {
            0 => 0,
            1 => s.range(1, 40),
            2 => s.pick(&[255usize, 256]),
            _ => s.range(300, 70_000),
        })
        .collect();
    let n = s.range(20, 200);
    ProxyCase {
        clients,
        workers,
        capture,
        payload,
        schedule: (0..n).map(|_| s.next()).collect(),
        plain: s.chance(1, 3),
    }
}

// --------------------------------------------------------------------------------------------
// a worker leaves in the middle of the run (while nothing is in flight)

#[derive(Debug, Clone, Serialize, Deserialize, PartialEq, Eq, Hash)]
pub struct WorkerLeavesCase {
    /// workers on the back side (2..=4)
    pub workers: usize,
    /// requests before / after the departure
    pub before: usize,
    pub after: usize,
    pub leaver: usize,
    /// the worker's connection is reset (true) or closed in an orderly way (false)
    pub reset: bool,
    /// 0 = worker `leaver` leaves; 1 = instead, the CLIENT comes back on a fresh connection
    /// under its identity while its old connection stays open and idle, and goes on there;
    /// 2 = instead, worker `leaver` comes back on a fresh connection under its (announced)
    /// identity while its old connection stays open and idle
    #[serde(default)]
    pub returns: u8,
}

pub fn worker_leaves_outcome(c: &WorkerLeavesCase) -> Outcome {
    let mut o = Outcome::new(hash_of(c));
    o.nontrivial = true;
    o.class(match c.returns {
        1 => "client-comes-back-under-its-identity",
        2 => "worker-comes-back-under-its-identity",
        _ => "worker-leaves-mid-run",
    });
    let c2 = c.clone();
    let (r, panics) = capture_panics(|| {
        run_sim(async move {
            let c = c2;
            let mut f: Vec<Failure> = vec![];
            let mut sim = Sim::new();
            let front = sim.socket(Kind::Router, None);
            let back = sim.socket(Kind::Dealer, None);
            let mut client = sim.link();
            client.raw_handshake("DEALER", Some(b"cl"));
            let a = sim.attach(front, &client);
            if !matches!(sim.run(a).await, Ok(Some(Out::Attach(Ok(_))))) {
                fail!(f, "C15/setup", "client handshake");
                return f;
            }
            let nw = c.workers.clamp(2, 4);
            let mut workers: Vec<(Link, usize, bool)> = vec![]; // link, echoed, gone
            for wi in 0..nw {
                let l = sim.link();
                let wid = format!("w{}", wi).into_bytes();
                l.raw_handshake("REP", if c.returns == 2 { Some(&wid[..]) } else { None });
                let a = sim.attach(back, &l);
                if !matches!(sim.run(a).await, Ok(Some(Out::Attach(Ok(_))))) {
                    fail!(f, "C15/setup", "worker handshake");
                    return f;
                }
                workers.push((l, 0, false));
            }
            let proxy = sim.proxy(front, back, None);
            // run everything until nothing moves any more; live workers echo what they get
            macro_rules! pump {
                () => {{
                    for _ in 0..60 {
                        let mut moved = false;
                        if client.to_lib.deliver_all() > 0 {
                            moved = true;
                        }
                        for w in workers.iter() {
                            if w.0.to_lib.deliver_all() > 0 {
                                moved = true;
                            }
                        }
                        if sim.settle().await.is_err() {
                            fail!(f, "C15/spin", "the proxy does not settle");
                            return f;
                        }
                        for w in workers.iter_mut() {
                            if w.2 {
                                continue;
                            }
                            if let Ok((msgs, _)) = w.0.lib_messages_prefix() {
                                while w.1 < msgs.len() {
                                    let mut e = msgs[w.1].clone();
                                    e.push(b"!".to_vec());
                                    w.0.raw_send(&e);
                                    w.1 += 1;
                                    moved = true;
                                }
                            }
                        }
                        if !moved {
                            break;
                        }
                    }
                }};
            }
            let mut sent = 0usize;
            for _ in 0..c.before {
                client.raw_send(&[vec![], format!("req-{}", sent).into_bytes()]);
                sent += 1;
                pump!();
            }
            let got = client.lib_messages().map(|m| m.len()).unwrap_or(0);
            if got != sent {
                fail!(f, "C15/back-to-front-reply-lost", "{} requests, {} replies before any worker left", sent, got);
                return f;
            }
            let lv = c.leaver % nw;
            let mut old_client: Option<(Link, usize)> = None;
            match c.returns {
                1 => {
                    // the client restarts: same identity, fresh connection, old one left idle
                    let nl = sim.link();
                    nl.raw_handshake("DEALER", Some(b"cl"));
                    let a = sim.attach(front, &nl);
                    if !matches!(sim.run(a).await, Ok(Some(Out::Attach(Ok(_))))) {
                        fail!(f, "C15/returning-client-not-admitted", "a client that comes back under its identity");
                        return f;
                    }
                    let old = std::mem::replace(&mut client, nl);
                    let n_old = old.lib_messages().map(|m| m.len()).unwrap_or(0);
                    old_client = Some((old, n_old));
                }
                2 => {
                    let nl = sim.link();
                    let wid = format!("w{}", lv).into_bytes();
                    nl.raw_handshake("REP", Some(&wid[..]));
                    let a = sim.attach(back, &nl);
                    if !matches!(sim.run(a).await, Ok(Some(Out::Attach(Ok(_))))) {
                        fail!(f, "C15/returning-worker-not-admitted", "a worker that comes back under its identity");
                        return f;
                    }
                    workers[lv].2 = true;
                    workers.push((nl, 0, false));
                }
                _ => {
                    // the worker leaves while nothing is in flight; the proxy gets to see it
                    workers[lv].0.to_lib.end_after_all(if c.reset { crate::pipe::ReadEnd::Err(std::io::ErrorKind::ConnectionReset) } else { crate::pipe::ReadEnd::Eof });
                    workers[lv].2 = true;
                }
            }
            pump!();
            let leaver_wire = workers[lv].0.lib_traffic_len();
            for _ in 0..c.after {
                client.raw_send(&[vec![], format!("req-{}", sent).into_bytes()]);
                sent += 1;
                pump!();
            }
            if sim.done(proxy) {
                if c.reset {
                    // a read ERROR on one side makes recv fail, and proxy() returns with that
                    // error by design: the statement speaks of a proxy that runs
                    return f;
                }
                fail!(f, "C15/proxy-terminated", "proxy() returned after a worker closed its connection: {:?}", sim.out(proxy));
            }
            if let Some((old, n_old)) = &old_client {
                let n_now = old.lib_messages().map(|m| m.len()).unwrap_or(0);
                if n_now != *n_old {
                    fail!(f, "C15/reply-sent-to-the-connection-a-returning-client-replaced", "{} replies arrived on the old connection of a client that had come back under its identity", n_now - n_old);
                }
            }
            if c.returns != 1 && workers[lv].0.lib_traffic_len() != leaver_wire {
                fail!(f, "C15/forwarded-to-a-departed-worker", "{} bytes were written to the worker that had left (and whose departure the back socket had been shown) - those requests are lost", workers[lv].0.lib_traffic_len() - leaver_wire);
            }
            match client.lib_messages() {
                Ok(m) => {
                    let first = if c.returns == 1 { c.before } else { 0 };
                    let want: Vec<Frames> = (first..sent).map(|i| vec![vec![], format!("req-{}", i).into_bytes(), b"!".to_vec()]).collect();
                    let mut g = m.clone();
                    let mut w = want.clone();
                    g.sort();
                    w.sort();
                    if g != w {
                        let sig = if m.len() < want.len() { "back-to-front-reply-lost" } else { "back-to-front-reply-modified-or-misrouted" };
                        fail!(f, format!("C15/{}", sig), "{} requests ({} of them after worker {} of {} had left), the client received {} replies", sent, c.after, lv, nw, m.len());
                    }
                }
                Err(e) => fail!(f, "C15/wire-malformed", "client: {}", e),
            }
            f
        })
    });
    if let Some(f) = r {
        o.failures = f;
    }
    for p in panics {
        o.fail(format!("C15/panic/{}", panic_sig(&p)), p);
    }
    o
}

pub fn run(ctx: &Ctx) -> (Report, PropertyMeta) {
    let mut report = Report::default();
    let t = ctx.tier;
    {
        let mut wc = vec![];
        for workers in 2..=4usize {
            for leaver in 0..workers {
                for reset in [false, true] {
                    for (before, after) in [(0usize, 4usize), (1, 5), (workers, 2 * workers + 1), (2 * workers + 1, 9)] {
                        wc.push(WorkerLeavesCase { workers, before, after, leaver, reset, returns: 0 });
                        if !reset {
                            wc.push(WorkerLeavesCase { workers, before, after, leaver, reset, returns: 1 });
                            wc.push(WorkerLeavesCase { workers, before, after, leaver, reset, returns: 2 });
                        }
                    }
                }
            }
        }
        let r = run_cases(ctx, "worker_leaves", &wc, worker_leaves_outcome);
        report.exhaustive_parts.push(format!("proxy(ROUTER, DEALER) with a pipelining client and 2..4 echo workers, each worker leaving (closed / reset) while nothing is in flight, 4 request counts before / after: {} cases", wc.len()));
        report.merge(r);
    }
    // enumerated small configurations
    let mut cases = vec![];
    for capture in [Capture::None, Capture::Push, Capture::Pub, Capture::Dealer] {
        for ck in 0..3u8 {
            for wl in [false, true] {
                for payload in [vec![], vec![0usize], vec![5, 0, 300]] {
                    cases.push(ProxyCase {
                        clients: vec![ClientSpec { kind: ck, requests: 3 }, ClientSpec { kind: (ck + 1) % 3, requests: 2 }],
                        workers: vec![wl, false],
                        capture,
                        payload,
                        schedule: vec![],
                        plain: false,
                    });
                }
            }
        }
    }
    // DEALER-style traffic without delimiter, verbatim echo: [identity, tag] travels back to front
    for capture in [Capture::None, Capture::Push] {
        for payload in [vec![], vec![0usize], vec![5, 300]] {
            for nw in 1..=2usize {
                cases.push(ProxyCase {
                    clients: vec![ClientSpec { kind: 0, requests: 3 }, ClientSpec { kind: 0, requests: 2 }],
                    workers: vec![false; nw],
                    capture,
                    payload: payload.clone(),
                    schedule: vec![],
                    plain: true,
                });
            }
        }
    }
    let r = run_cases(ctx, "proxy", &cases, proxy_outcome);
    report.exhaustive_parts.push(format!("4 capture options x 3 client kinds x raw/library worker x 3 payload shapes, deterministic schedule: {} cases", cases.len()));
    report.merge(r);
    let n = t.pick(2500, 100_000);
    let r = run_random(ctx, "proxy", n, 60..=300, gen_proxy, proxy_outcome);
    report.sections.push(json!({"part": "random chains: 1..4 clients (raw DEALER / raw REQ / library REQ), 1..3 workers (raw echo / library REP), capture none/PUSH/PUB/DEALER, generated actor and byte-delivery schedule", "cases": n}));
    report.merge(r);

    if t == Tier::Thorough {
        crate::fuzzing::campaign(ctx, &mut report, "sim", 180);
    }
    let total = report.evaluations;
    health_abs(&mut report, "client-announces-empty-identity", 200);
    health(&mut report, "both-sides-ready-before-a-proxy-poll", total, 300);
    health(&mut report, "with-capture", total, 300);
    health(&mut report, "library-REQ-client", total, 200);
    health(&mut report, "library-REP-worker", total, 200);
    health_abs(&mut report, "dealer-style-traffic-without-delimiter", 12);

    let meta = PropertyMeta {
        level: "exploration",
        rule: "zeromq::proxy(ROUTER, DEALER, capture) run as one stepped actor between 1..4 clients (raw DEALER pipelining its requests, raw REQ in lock-step, or library REQ sockets) and 1..3 workers (raw echo peers or library REP sockets), capture in {none, PUSH, PUB, DEALER} attached to a raw sink; requests are [delimiter, tag, 0..3 payload frames incl. empty and 70 KB] echoed with a suffix, or DEALER-style [tag, payload..] without delimiter echoed verbatim (so that two-frame messages [identity, tag] travel in both directions); generated schedule of actor steps and byte deliveries including deliveries on both sides between two proxy polls. Oracle (wire level, reference-decoded): the multiset of messages the back side wrote to the workers equals identity+request for every request, exactly once, per-client order preserved at each worker; every client's wire carries exactly the echoes of its own requests (in order for lock-step clients); library REQ clients get exactly their own replies in order; the capture stream is the multiset of all forwarded messages and every destination's sequence is a subsequence of it; proxy() is still running; when a worker leaves while nothing is in flight (and the back socket is shown its departure) every later request is answered by the remaining workers and nothing is written to the departed one. Non-trivial = >= 2 clients, a multi-frame payload and at least one proxy poll with both sides fed; distinct by case".into(),
        assumptions: vec!["futures::select! picks among ready branches with an unseeded thread-local PRNG: it changes which legal interleaving runs, never the oracle".into()],
        exhaustive: false,
    };
    (report, meta)
}

pub fn replay(_ctx: &Ctx, kind: &str, case: &Value) -> Vec<Failure> {
    match kind {
        "worker_leaves" => parse_case::<WorkerLeavesCase>(case).map(|c| worker_leaves_outcome(&c).failures),
        "proxy" => parse_case::<ProxyCase>(case).map(|c| {
            // select!'s branch PRNG is not seeded: retry a few times, report the union
            let mut all: Vec<Failure> = vec![];
            for _ in 0..16 {
                for f in proxy_outcome(&c).failures {
                    if !all.iter().any(|x| x.sig == f.sig) {
                        all.push(f);
                    }
                }
            }
            all
        }),
        _ => Err(vec![Failure::new("replay/unknown-kind", kind.to_string())]),
    }
    .unwrap_or_else(|e| e)
}

pub fn gen_proxy_pub(s: &mut Src<'_>) -> ProxyCase {
    gen_proxy(s)
}
