//! vcheck <ID> [quick|thorough] [--seed N] [--replay FILE] [--verif-dir DIR] [--threads N]
//!
//! The process started by the user is a supervisor: it re-executes itself with `--child` to do
//! the work, so that an abort or stack overflow provoked inside the library under test is
//! turned into a replayable VIOLATION instead of a dead check.

use vcore::core::{self, Ctx, Known, Tier, Violation};
use vcore::{crumb, props};

use std::path::{Path, PathBuf};
use std::time::Instant;

#[global_allocator]
static GLOBAL: vcore::alloc::Counting = vcore::alloc::Counting;

fn usage() -> ! {
    eprintln!("usage: vcheck <ID> [quick|thorough] [--seed N] [--replay FILE] [--verif-dir DIR] [--threads N]");
    std::process::exit(2);
}

struct Args {
    id: String,
    tier: Tier,
    seed: u64,
    replay: Option<PathBuf>,
    verif_dir: PathBuf,
    threads: usize,
    child: bool,
    crumb_dir: Option<PathBuf>,
    /// development aid: run only a libFuzzer campaign (target, seconds) on behalf of <ID>
    fuzz_only: Option<(String, u64)>,
}

fn parse_args(args: &[String]) -> Args {
    if args.is_empty() {
        usage();
    }
    let mut a = Args {
        id: String::new(),
        tier: match std::env::var("VERIF_TIER").ok().as_deref() {
            Some("thorough") => Tier::Thorough,
            _ => Tier::Quick,
        },
        seed: std::env::var("VERIF_SEED")
            .ok()
            .and_then(|s| s.trim().parse::<i128>().ok())
            .map(|v| v as u64)
            .unwrap_or(1),
        replay: None,
        verif_dir: PathBuf::from("/verif"),
        threads: std::thread::available_parallelism().map(|n| n.get()).unwrap_or(4).min(16),
        child: false,
        crumb_dir: None,
        fuzz_only: None,
    };
    let mut i = 0;
    while i < args.len() {
        match args[i].as_str() {
            "--child" => a.child = true,
            "--tier" => {
                i += 1;
                a.tier = match args.get(i).map(|s| s.as_str()) {
                    Some("quick") => Tier::Quick,
                    Some("thorough") => Tier::Thorough,
                    _ => usage(),
                };
            }
            "quick" => a.tier = Tier::Quick,
            "thorough" => a.tier = Tier::Thorough,
            "--seed" => {
                i += 1;
                a.seed = args.get(i).and_then(|s| s.parse().ok()).unwrap_or_else(|| usage());
            }
            "--replay" => {
                i += 1;
                a.replay = Some(PathBuf::from(args.get(i).unwrap_or_else(|| usage())));
            }
            "--verif-dir" => {
                i += 1;
                a.verif_dir = PathBuf::from(args.get(i).unwrap_or_else(|| usage()));
            }
            "--crumb-dir" => {
                i += 1;
                a.crumb_dir = Some(PathBuf::from(args.get(i).unwrap_or_else(|| usage())));
            }
            "--fuzz-only" => {
                let t = args.get(i + 1).cloned().unwrap_or_else(|| usage());
                let secs = args.get(i + 2).and_then(|s| s.parse().ok()).unwrap_or_else(|| usage());
                a.fuzz_only = Some((t, secs));
                i += 2;
            }
            "--threads" => {
                i += 1;
                a.threads = args.get(i).and_then(|s| s.parse().ok()).unwrap_or_else(|| usage());
            }
            s if a.id.is_empty() && !s.starts_with('-') => a.id = s.to_string(),
            _ => usage(),
        }
        i += 1;
    }
    if a.id.is_empty() {
        usage();
    }
    a
}

fn main() {
    let raw: Vec<String> = std::env::args().skip(1).collect();
    if raw.first().map(|s| s == "--worker").unwrap_or(false) {
        std::process::exit(vcore::props::worker_main(&raw[1..]));
    }
    let args = parse_args(&raw);
    if args.child {
        std::process::exit(child_main(args));
    }
    std::process::exit(supervisor(args, &raw));
}

fn supervisor(args: Args, raw: &[String]) -> i32 {
    use std::os::unix::process::ExitStatusExt;
    let started = Instant::now();
    let run_dir = args.verif_dir.join("harness").join("target").join("run").join(format!("{}-{}", args.id, std::process::id()));
    let _ = std::fs::remove_dir_all(&run_dir);
    let _ = std::fs::create_dir_all(&run_dir);
    let exe = std::env::current_exe().expect("current exe");
    let child = std::process::Command::new(exe).arg("--child").arg("--crumb-dir").arg(&run_dir).args(raw).spawn();
    // While the child runs, watch its breadcrumbs: a case that stays in flight far beyond any
    // legitimate duration (cases take milliseconds to a few seconds) means a call into the
    // library never returned - a deadlock or an endless wait. That is a violation of the case's
    // property (every property here implies that the calls it makes return), reported with the
    // case as the replay; the whole-run watchdog in the child stays an infrastructure matter.
    let stuck_limit = std::env::var("VCHECK_STUCK_SECS").ok().and_then(|s| s.parse::<u64>().ok()).unwrap_or(match args.tier {
        Tier::Quick => 300,
        Tier::Thorough => 900,
    });
    let status = match child {
        Err(e) => Err(e),
        Ok(mut ch) => {
            let mut seen: std::collections::HashMap<PathBuf, (u64, Instant)> = std::collections::HashMap::new();
            loop {
                match ch.try_wait() {
                    Ok(Some(st)) => break Ok(st),
                    Ok(None) => {}
                    Err(e) => break Err(e),
                }
                std::thread::sleep(std::time::Duration::from_millis(500));
                let mut stuck: Option<serde_json::Value> = None;
                for (path, v) in crumb::read_all_with_paths(&run_dir) {
                    let h = core::hash_of(&v.to_string());
                    match seen.get(&path) {
                        Some((h0, t0)) if *h0 == h => {
                            if t0.elapsed().as_secs() >= stuck_limit {
                                stuck = Some(v);
                            }
                        }
                        _ => {
                            seen.insert(path, (h, Instant::now()));
                        }
                    }
                }
                if let Some(v) = stuck {
                    let _ = ch.kill();
                    let _ = ch.wait();
                    let code = report_stuck(&args, &v, stuck_limit, started);
                    let _ = std::fs::remove_dir_all(&run_dir);
                    return code;
                }
            }
        }
    };
    let code = match status {
        Err(e) => {
            println!("INFRA: cannot start child: {}", e);
            2
        }
        Ok(st) => {
            let how = match (st.code(), st.signal()) {
                (Some(c), _) if c == 0 || c == 1 || c == 2 => None,
                (Some(77), _) => Some("exit 77: a single allocation request above the 1 GiB limit (allocation bomb)".to_string()),
                (Some(c), _) => Some(format!("exit code {}", c)),
                (None, Some(s)) => Some(format!("killed by signal {} ({})", s, signal_name(s))),
                _ => Some("unknown termination".into()),
            };
            match how {
                None => st.code().unwrap(),
                Some(how) => report_crash(&args, &run_dir, &how, started),
            }
        }
    };
    let _ = std::fs::remove_dir_all(&run_dir);
    code
}

fn signal_name(s: i32) -> &'static str {
    match s {
        6 => "SIGABRT: abort, e.g. allocation failure or stack overflow guard",
        9 => "SIGKILL",
        11 => "SIGSEGV: e.g. stack overflow",
        4 => "SIGILL",
        7 => "SIGBUS",
        _ => "?",
    }
}

fn report_crash(args: &Args, run_dir: &Path, how: &str, started: Instant) -> i32 {
    let crumbs = crumb::read_all(run_dir);
    // a harness panic (exit 101) whose location is in harness code is an infrastructure problem
    if how == "exit code 101" && crumbs.is_empty() {
        println!("INFRA: the check process panicked ({}), no case was in flight", how);
        return 2;
    }
    if let Some(path) = &args.replay {
        println!("VIOLATION property={} replay={}", args.id, path.display());
        println!("  signature: {}/process-crash", args.id);
        println!("  message:   replaying the case ended the process: {}", how);
        return 1;
    }
    let v = Violation {
        property: args.id.clone(),
        kind: "crash".into(),
        signature: format!("{}/process-crash", args.id),
        message: format!(
            "the process running the check died ({}) while library code was executing one of the listed cases; the library must never abort, overflow the stack or exhaust memory",
            how
        ),
        case: serde_json::json!({"how": how, "in_flight": crumbs}),
    };
    let dir = args.verif_dir.join("replays").join("found").join(&args.id);
    let _ = std::fs::create_dir_all(&dir);
    let path = dir.join(format!("process-crash-{:08x}.json", core::hash_of(&v.case.to_string()) as u32));
    let _ = std::fs::write(&path, serde_json::to_string_pretty(&v).unwrap());
    // evidence: the run did not complete
    let ev = serde_json::json!({
        "property_id": args.id, "tier": args.tier.name(), "seed": args.seed, "level": "other",
        "coverage": {"explanation": format!("run aborted: {}; cases in flight: {}", how, v.case["in_flight"].as_array().map(|a| a.len()).unwrap_or(0)),
                     "samples": [v.case.clone()]},
        "wall_s": started.elapsed().as_secs_f64(), "violations": 1
    });
    let evdir = args.verif_dir.join("evidence");
    let _ = std::fs::create_dir_all(&evdir);
    let _ = std::fs::write(evdir.join(format!("{}.json", args.id)), serde_json::to_string_pretty(&ev).unwrap());
    println!("VIOLATION property={} replay={}", args.id, path.display());
    println!("  signature: {}", v.signature);
    println!("  message:   {}", v.message);
    1
}

fn report_stuck(args: &Args, crumb: &serde_json::Value, limit: u64, started: Instant) -> i32 {
    let kind = crumb.get("kind").and_then(|k| k.as_str()).unwrap_or("?").to_string();
    let case = crumb.get("case").cloned().unwrap_or(serde_json::Value::Null);
    let sig = format!("{}/case-hangs", args.id);
    let msg = format!(
        "a single case (kind {}) was still running after {} s; cases of this check take milliseconds to a few seconds, so a call into the library never returned (deadlock or endless wait)",
        kind, limit
    );
    if let Some(path) = &args.replay {
        println!("VIOLATION property={} replay={}", args.id, path.display());
        println!("  signature: {}", sig);
        println!("  message:   {}", msg);
        return 1;
    }
    let v = Violation { property: args.id.clone(), kind, signature: sig.clone(), message: msg.clone(), case };
    let dir = args.verif_dir.join("replays").join("found").join(&args.id);
    let _ = std::fs::create_dir_all(&dir);
    let path = dir.join(format!("case-hangs-{:08x}.json", core::hash_of(&v.case.to_string()) as u32));
    let _ = std::fs::write(&path, serde_json::to_string_pretty(&v).unwrap());
    let ev = serde_json::json!({
        "property_id": args.id, "tier": args.tier.name(), "seed": args.seed, "level": "other",
        "coverage": {"explanation": format!("run stopped: {}", msg), "samples": [{"kind": v.kind, "case": vcore::core::truncate_json(v.case.clone())}]},
        "wall_s": started.elapsed().as_secs_f64(), "violations": 1
    });
    let evdir = args.verif_dir.join("evidence");
    let _ = std::fs::create_dir_all(&evdir);
    let _ = std::fs::write(evdir.join(format!("{}.json", args.id)), serde_json::to_string_pretty(&ev).unwrap());
    println!("VIOLATION property={} replay={}", args.id, path.display());
    println!("  signature: {}", sig);
    println!("  message:   {}", msg);
    1
}

fn child_main(args: Args) -> i32 {
    core::install_panic_hook();
    if let Some(d) = &args.crumb_dir {
        crumb::init(d.clone());
    }
    let ctx = Ctx {
        id: args.id.clone(),
        tier: args.tier,
        seed: args.seed,
        known: Known::load(&args.verif_dir, &args.id),
        verif_dir: args.verif_dir.clone(),
        threads: args.threads,
        stack: core::DEFAULT_STACK,
    };

    // wall-clock watchdog: a hang is an infrastructure problem (exit 2), never a violation
    let limit = match args.tier {
        Tier::Quick => 1500,
        Tier::Thorough => 8 * 3600,
    };
    std::thread::spawn(move || {
        std::thread::sleep(std::time::Duration::from_secs(limit));
        println!("INFRA: watchdog: run exceeded {} s (inconclusive)", limit);
        std::process::exit(2);
    });

    if let Some(path) = &args.replay {
        return replay_file(&ctx, path, true);
    }
    if let Some((target, secs)) = &args.fuzz_only {
        let started = Instant::now();
        let mut report = vcore::core::Report::default();
        vcore::fuzzing::campaign(&ctx, &mut report, target, *secs);
        for n in &report.notes {
            println!("note: {}", n);
        }
        let meta = vcore::core::PropertyMeta {
            level: "exploration",
            rule: format!("libFuzzer campaign on target {} only (development aid)", target),
            assumptions: vec![],
            exhaustive: false,
        };
        let mut ctx2 = ctx.clone();
        ctx2.verif_dir = std::env::temp_dir().join("vcheck-fuzz-only");
        let _ = std::fs::create_dir_all(&ctx2.verif_dir);
        return core::finish(&ctx2, &report, &meta, started);
    }

    let started = Instant::now();
    // replay tier: curated regression cases first
    let mut regress_violation = false;
    let dir = ctx.verif_dir.join("replays").join(&ctx.id);
    let mut replayed = 0;
    if let Ok(rd) = std::fs::read_dir(&dir) {
        let mut files: Vec<PathBuf> = rd
            .filter_map(|e| e.ok().map(|e| e.path()))
            .filter(|p| p.extension().map(|x| x == "json").unwrap_or(false))
            .collect();
        files.sort();
        for f in files {
            replayed += 1;
            if replay_file(&ctx, &f, false) != 0 {
                regress_violation = true;
            }
        }
    }
    crumb::clear();
    let Some((mut report, meta)) = props::run(&ctx) else {
        eprintln!("unknown property {}", ctx.id);
        return 2;
    };
    report.notes.push(format!("replay tier: {} saved cases re-run first", replayed));
    let code = core::finish(&ctx, &report, &meta, started);
    if regress_violation {
        1
    } else {
        code
    }
}

fn replay_file(ctx: &Ctx, path: &Path, verbose: bool) -> i32 {
    let text = match std::fs::read_to_string(path) {
        Ok(t) => t,
        Err(e) => {
            eprintln!("cannot read {}: {}", path.display(), e);
            return 2;
        }
    };
    let v: Violation = match serde_json::from_str(&text) {
        Ok(v) => v,
        Err(e) => {
            eprintln!("cannot parse {}: {}", path.display(), e);
            return 2;
        }
    };
    // a crash file lists the cases that were in flight: run each of them
    let mut work: Vec<(String, serde_json::Value)> = vec![];
    if v.kind == "crash" {
        if let Some(a) = v.case.get("in_flight").and_then(|a| a.as_array()) {
            for c in a {
                if let (Some(k), Some(case)) = (c.get("kind").and_then(|k| k.as_str()), c.get("case")) {
                    work.push((k.to_string(), case.clone()));
                }
            }
        }
    } else {
        work.push((v.kind.clone(), v.case.clone()));
    }
    let mut code = 0;
    let mut hits = 0;
    for (kind, case) in work {
        crumb::case(&kind, &case);
        let Some(fails) = props::replay(ctx, &kind, &case) else {
            eprintln!("no replay for {} kind {}", ctx.id, kind);
            return 2;
        };
        for f in &fails {
            if ctx.known.is_known(&f.sig) {
                hits += 1;
                if verbose {
                    println!("KNOWN-FINDING: property={} {} {}", ctx.id, f.sig, f.msg);
                }
                continue;
            }
            println!("VIOLATION property={} replay={}", ctx.id, path.display());
            println!("  signature: {}", f.sig);
            println!("  message:   {}", f.msg);
            code = 1;
        }
    }
    if verbose && code == 0 {
        println!("replay {}: property held ({} known-finding hits)", path.display(), hits);
    }
    code
}
