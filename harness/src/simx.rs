//! Higher-level simulation helpers shared by several properties.

use crate::sim::{Frames, Kind, Link, Out, Sim, SockId};

/// Attach a well-behaved raw peer of a compatible type and run the handshake to completion.
pub async fn attach_raw(sim: &mut Sim, s: SockId, identity: Option<&[u8]>) -> Result<(Link, Vec<u8>), String> {
    let kind = sim.kind(s);
    let link = sim.link();
    link.raw_handshake(kind.a_compatible_peer(), identity);
    let a = sim.attach(s, &link);
    match sim.run(a).await {
        Ok(Some(Out::Attach(Ok(id)))) => Ok((link, id)),
        Ok(other) => Err(format!("handshake with a well-behaved {} peer failed: {:?}", kind.a_compatible_peer(), other.map(|o| o.err_text().map(|s| s.to_string())))),
        Err(e) => Err(format!("socket did not settle during handshake: {:?}", e)),
    }
}

/// A fresh well-behaved peer joins the socket and exchanges one tagged message in the
/// direction(s) the socket type supports. `skip_send` skips the outbound half (REQ whose
/// rotation may legitimately be parked on another peer).
pub async fn healthy_roundtrip(sim: &mut Sim, s: SockId, tag: &[u8], skip_send: bool) -> Result<(), String> {
    let kind = sim.kind(s);
    let (link, id) = attach_raw(sim, s, None).await?;
    let tagv = tag.to_vec();
    // inbound
    if kind.fair_queue_recv() {
        let wire: Frames = match kind {
            Kind::Rep => vec![vec![], tagv.clone()],
            Kind::XPub => {
                let mut t = vec![1u8];
                t.extend_from_slice(tag);
                vec![t]
            }
            _ => vec![tagv.clone()],
        };
        let expect_tail: Frames = match kind {
            Kind::Rep => vec![tagv.clone()],
            _ => wire.clone(),
        };
        link.raw_send_now(&wire);
        let mut got = false;
        let mut seen = vec![];
        for _ in 0..8 {
            let r = sim.recv(s);
            match sim.run(r).await {
                Ok(Some(Out::Recv(Ok(m)))) => {
                    let body: Frames = if kind == Kind::Router { m.get(1..).map(|x| x.to_vec()).unwrap_or_default() } else { m.clone() };
                    if body == expect_tail {
                        if kind == Kind::Router && m[0] != id {
                            return Err("ROUTER labelled the healthy peer's message with another identity".into());
                        }
                        got = true;
                        break;
                    }
                    seen.push(format!("msg{:?}", m.iter().map(|f| f.len()).collect::<Vec<_>>()));
                }
                Ok(Some(Out::Recv(Err(e)))) => seen.push(format!("err({})", e.text.chars().take(60).collect::<String>())),
                Ok(Some(_)) => unreachable!(),
                Ok(None) => {
                    sim.cancel(r);
                    seen.push("pending".into());
                    break;
                }
                Err(e) => return Err(format!("recv did not settle: {:?}", e)),
            }
        }
        if !got {
            return Err(format!("a healthy peer's message was not delivered within 8 recv calls (saw {:?})", seen));
        }
        if kind == Kind::Rep {
            let a = sim.send(s, &[b"reply".to_vec()]);
            match sim.run(a).await {
                Ok(Some(Out::Send(Ok(())))) => {}
                other => return Err(format!("REP could not reply to the healthy peer: {:?}", other)),
            }
            let msgs = link.lib_messages().map_err(|e| format!("healthy peer's wire: {}", e))?;
            if msgs != vec![vec![vec![], b"reply".to_vec()]] {
                return Err(format!("REP reply on the healthy peer's wire: {:?}", msgs));
            }
        }
    }
    // outbound
    if kind.can_send() && kind != Kind::Rep && !skip_send {
        if matches!(kind, Kind::Pub | Kind::XPub) {
            link.raw_send_now(&[vec![1u8]]);
            sim.settle().await.map_err(|e| format!("{:?}", e))?;
            if kind == Kind::XPub {
                // the subscription is processed by recv
                for _ in 0..4 {
                    let r = sim.recv(s);
                    match sim.run(r).await {
                        Ok(Some(Out::Recv(Ok(m)))) if m == vec![vec![1u8]] => break,
                        Ok(None) => {
                            sim.cancel(r);
                            break;
                        }
                        _ => {}
                    }
                }
            }
        }
        let before = link.lib_messages_prefix().map(|x| x.0.len()).unwrap_or(0);
        let mut delivered = false;
        let mut notes = vec![];
        for i in 0..6 {
            let m: Frames = match kind {
                Kind::Router => vec![id.clone(), tagv.clone()],
                _ => vec![tagv.clone()],
            };
            let a = sim.send(s, &m);
            match sim.run(a).await {
                Ok(Some(Out::Send(r))) => {
                    if let Err(e) = r {
                        notes.push(format!("send{}: {}", i, e.text.chars().take(60).collect::<String>()));
                    }
                }
                Ok(Some(_)) => unreachable!(),
                Ok(None) => {
                    sim.cancel(a);
                    notes.push(format!("send{}: pending", i));
                }
                Err(e) => return Err(format!("send did not settle: {:?}", e)),
            }
            let now = link.lib_messages_prefix().map(|x| x.0.len()).unwrap_or(0);
            if now > before {
                delivered = true;
                break;
            }
            if kind == Kind::Req {
                break;
            }
        }
        if !delivered {
            return Err(format!("no message reached a healthy peer within 6 sends ({:?})", notes));
        }
    }
    Ok(())
}

/// Call recv repeatedly until it stays pending (then cancel it) or `max` results were seen.
pub async fn recv_until_pending(sim: &mut Sim, s: SockId, max: usize) -> Result<Vec<Result<Frames, String>>, String> {
    let mut out = vec![];
    for _ in 0..max {
        let r = sim.recv(s);
        match sim.run(r).await {
            Ok(Some(Out::Recv(Ok(m)))) => out.push(Ok(m)),
            Ok(Some(Out::Recv(Err(e)))) => out.push(Err(e.text)),
            Ok(Some(_)) => unreachable!(),
            Ok(None) => {
                sim.cancel(r);
                return Ok(out);
            }
            Err(e) => return Err(format!("{:?}", e)),
        }
    }
    Ok(out)
}
