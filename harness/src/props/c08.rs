//! C08 — REQ/REP lock-step: one outstanding request, the reply goes to its requester.

use crate::core::*;
use crate::fail;
use crate::pipe::{Pipe, Window};
use crate::props::parse_case;
use crate::refcodec;
use crate::sim::{run_sim, Frames, Kind, Link, Out, Sim};

use serde::{Deserialize, Serialize};
use serde_json::{json, Value};

#[derive(Debug, Clone, Serialize, Deserialize, PartialEq, Eq, Hash)]
pub struct SeqCase {
    /// true = REQ under test, false = REP under test
    pub req: bool,
    /// call sequence: true = send, false = recv
    pub calls: Vec<bool>,
    pub peers: usize,
    /// REP only: bit k set = the k-th request a raw peer supplies is malformed (its delimiter is
    /// the last frame) and must be rejected without disturbing the lock-step state
    #[serde(default)]
    pub bad: u8,
    /// REQ only: bit k set = just before the k-th send call the connection the rotation is about
    /// to choose starts failing its writes (EPIPE). A send that fails this way was not accepted:
    /// no request is outstanding afterwards, and the next send goes to the next peer.
    #[serde(default)]
    pub dead: u8,
    /// REQ only: bit k set = the k-th recv call, if in turn, is polled while the reply has not
    /// arrived yet and then DROPPED (a timeout). It was not a completed recv: the request is
    /// still outstanding, so the next send is out of turn and the next recv gets the reply.
    #[serde(default)]
    pub cancel: u8,
}

fn show_calls(c: &[bool]) -> String {
    c.iter().map(|s| if *s { 'S' } else { 'R' }).collect()
}

fn taps_grew(links: &[Link], before: &[usize]) -> Vec<usize> {
    links.iter().enumerate().filter(|(i, l)| l.from_lib.tap_len() != before[*i]).map(|x| x.0).collect()
}

pub fn seq_outcome(c: &SeqCase) -> Outcome {
    let mut o = Outcome::new(hash_of(c));
    let c2 = c.clone();
    // out-of-turn: two equal calls in a row, or a leading recv (REQ) / leading send (REP)
    let mut out_of_turn = false;
    let mut expect_send = c.req;
    for call in &c.calls {
        if *call != expect_send {
            out_of_turn = true;
        } else {
            expect_send = !expect_send;
        }
    }
    o.nontrivial = out_of_turn;
    if out_of_turn {
        o.class("has-out-of-turn-call");
    }
    o.class(format!("{}-peers-{}", if c.req { "REQ" } else { "REP" }, c.peers));
    if c.bad != 0 {
        o.class("rep-with-malformed-requests");
        o.nontrivial = true;
    }
    if c.dead != 0 {
        o.class("req-with-failing-sends");
        o.nontrivial = true;
    }
    if c.cancel != 0 {
        o.class("req-with-abandoned-recvs");
        o.nontrivial = true;
    }
    let (r, panics) = capture_panics(|| {
        run_sim(async move {
            let c = c2;
            let mut f = vec![];
            let mut sim = Sim::new();
            let kind = if c.req { Kind::Req } else { Kind::Rep };
            let who = kind.name();
            let s = sim.socket(kind, None);
            let mut links: Vec<Link> = vec![];
            for _ in 0..c.peers {
                let l = sim.link();
                l.raw_handshake(kind.a_compatible_peer(), None);
                let a = sim.attach(s, &l);
                match sim.run(a).await {
                    Ok(Some(Out::Attach(Ok(_)))) => {}
                    other => {
                        fail!(f, format!("C08/{}/setup", who), "{:?}", other);
                        return f;
                    }
                }
                links.push(l);
            }
            // reference state machine
            let mut awaiting: Option<usize> = None; // REQ: outstanding request on peer; REP: current requester
            // REQ rotation: ids are popped and pushed back; entries of removed peers are skipped
            let mut rotation: std::collections::VecDeque<usize> = (0..c.peers).collect();
            let mut registered = vec![true; c.peers];
            let mut broken = vec![false; c.peers];
            let mut sends_seen = 0usize;
            let mut recvs_seen = 0usize;
            let mut k = 0usize; // message counter
            let mut supplied = 0usize;
            for (step, call) in c.calls.iter().enumerate() {
                let before: Vec<usize> = links.iter().map(|l| l.from_lib.tap_len()).collect();
                let ctx_s = format!("{} with {} peers, calls {} step {}", who, c.peers, show_calls(&c.calls), step);
                if *call {
                    // ---- send
                    k += 1;
                    let msg: Frames = vec![format!("m-{}", k).into_bytes(), vec![], b"tail".to_vec()];
                    let mut req_target: Option<usize> = None;
                    if c.req && awaiting.is_none() {
                        while let Some(p) = rotation.pop_front() {
                            if registered[p] {
                                rotation.push_back(p);
                                req_target = Some(p);
                                break;
                            }
                        }
                        if (c.dead >> (sends_seen % 8)) & 1 == 1 {
                            if let Some(t) = req_target {
                                links[t].from_lib.break_writer(std::io::ErrorKind::BrokenPipe);
                                broken[t] = true;
                            }
                        }
                    }
                    sends_seen += 1;
                    let a = sim.send(s, &msg);
                    let res = sim.run(a).await;
                    let grew = taps_grew(&links, &before);
                    let legal = if c.req { awaiting.is_none() && req_target.is_some() } else { awaiting.is_some() };
                    match res {
                        Ok(Some(Out::Send(Ok(())))) => {
                            if !legal {
                                fail!(f, format!("C08/{}/out-of-turn-send-accepted", who), "{}: send succeeded although {}", ctx_s, if c.req { "a request is already outstanding (or no peer)" } else { "no request has been received" });
                                return f;
                            }
                            let target = if c.req { req_target.unwrap() } else { awaiting.unwrap() };
                            if c.req && broken[target] {
                                fail!(f, "C08/REQ/send-on-failed-connection-accepted", "{}: every write on connection {} fails, yet send returned Ok", ctx_s, target);
                                return f;
                            }
                            let mut want = vec![vec![]];
                            want.extend(msg.clone());
                            if grew != vec![target] {
                                fail!(f, format!("C08/{}/written-to-wrong-connection", who), "{}: bytes appeared on connections {:?}, expected only {}", ctx_s, grew, target);
                                return f;
                            }
                            let new = links[target].from_lib.tap_from(before[target]);
                            if new != refcodec::encode_message(&want) {
                                fail!(f, format!("C08/{}/wire-bytes", who), "{}: wrote {} instead of [empty]+message", ctx_s, refcodec::brief(&new));
                            }
                            if c.req {
                                awaiting = Some(target);
                                // the raw REP answers; its reply arrives when the application
                                // next calls recv without abandoning it
                                links[target].raw_send(&[vec![], format!("reply-{}", k).into_bytes()]);
                            } else {
                                awaiting = None;
                            }
                        }
                        Ok(Some(Out::Send(Err(_)))) if legal && c.req && broken[req_target.unwrap()] => {
                            // the transport failed: nothing was accepted, no request is
                            // outstanding, and the dead peer leaves the rotation
                            registered[req_target.unwrap()] = false;
                            if !grew.is_empty() {
                                fail!(f, "C08/REQ/failed-send-wrote-bytes", "{}: connections {:?} grew", ctx_s, grew);
                            }
                        }
                        Ok(Some(Out::Send(Err(e)))) => {
                            if legal {
                                fail!(f, format!("C08/{}/in-turn-send-refused", who), "{}: {}", ctx_s, e.text);
                                return f;
                            }
                            if e.returned.as_ref() != Some(&msg) {
                                fail!(f, format!("C08/{}/refused-send-does-not-return-message", who), "{}: error {:?} handed back {:?}", ctx_s, e.text, e.returned.as_ref().map(|m| m.len()));
                            }
                            if !grew.is_empty() {
                                fail!(f, format!("C08/{}/refused-send-wrote-bytes", who), "{}: connections {:?} grew", ctx_s, grew);
                            }
                        }
                        other => {
                            fail!(f, format!("C08/{}/send-hangs", who), "{}: {:?}", ctx_s, other);
                            return f;
                        }
                    }
                } else {
                    // ---- recv
                    if c.req {
                        let abandon = (c.cancel >> (recvs_seen % 8)) & 1 == 1 && awaiting.is_some();
                        recvs_seen += 1;
                        if abandon {
                            let a = sim.recv(s);
                            match sim.run(a).await {
                                Ok(None) => sim.cancel(a),
                                other => {
                                    fail!(f, "C08/REQ/recv-completes-before-the-reply-arrived", "{}: {:?}", ctx_s, other.map(|o| o.map(|o| o.err_text().map(|s| s.to_string()))));
                                    return f;
                                }
                            }
                            // nothing changed: the request is still outstanding
                            continue;
                        }
                        if let Some(t) = awaiting {
                            links[t].to_lib.deliver_all();
                        }
                    }
                    let a = sim.recv(s);
                    let mut want_req: Option<(usize, Vec<u8>)> = None;
                    let mut bad_supplied = false;
                    if !c.req && c.peers > 0 {
                        // a raw REQ supplies a request whenever a recv is in flight
                        let p = supplied % c.peers;
                        let is_bad = (c.bad >> (supplied % 8)) & 1 == 1;
                        supplied += 1;
                        if is_bad {
                            links[p].raw_send_now(&[b"route".to_vec(), vec![]]);
                            bad_supplied = true;
                        } else {
                            let body = format!("req-{}", supplied).into_bytes();
                            links[p].raw_send_now(&[vec![], body.clone()]);
                            want_req = Some((p, body));
                        }
                    }
                    let res = sim.run(a).await;
                    let grew = taps_grew(&links, &before);
                    if !grew.is_empty() {
                        fail!(f, format!("C08/{}/recv-wrote-bytes", who), "{}: connections {:?} grew during recv", ctx_s, grew);
                    }
                    if c.req {
                        match (awaiting, res) {
                            (Some(_), Ok(Some(Out::Recv(Ok(m))))) => {
                                // the reply to the outstanding request (there is only one)
                                if m.len() != 1 || !m[0].starts_with(b"reply-") {
                                    fail!(f, "C08/REQ/wrong-reply", "{}: {:?}", ctx_s, m);
                                }
                                awaiting = None;
                            }
                            (None, Ok(Some(Out::Recv(Err(_))))) => {}
                            (None, Ok(Some(Out::Recv(Ok(m))))) => {
                                fail!(f, "C08/REQ/out-of-turn-recv-accepted", "{}: recv without an outstanding request returned {:?}", ctx_s, m);
                                return f;
                            }
                            (Some(_), other) => {
                                fail!(f, "C08/REQ/in-turn-recv-failed", "{}: {:?}", ctx_s, other.map(|o| o.map(|o| o.err_text().map(|s| s.to_string()))));
                                return f;
                            }
                            (None, other) => {
                                if let Ok(None) = other {
                                    sim.cancel(a);
                                }
                                fail!(f, "C08/REQ/out-of-turn-recv-hangs", "{}: {:?}", ctx_s, other.map(|o| o.map(|o| o.err_text().map(|s| s.to_string()))));
                                return f;
                            }
                        }
                    } else {
                        match (want_req, res) {
                            (Some((p, body)), Ok(Some(Out::Recv(Ok(m))))) => {
                                if m != vec![body] {
                                    fail!(f, "C08/REP/wrong-request", "{}: {:?}", ctx_s, m);
                                }
                                awaiting = Some(p);
                            }
                            (None, Ok(None)) => {
                                sim.cancel(a);
                            }
                            // a malformed request is rejected (error) or dropped (recv keeps
                            // waiting); either way the lock-step state does not move
                            (None, Ok(Some(Out::Recv(Err(_))))) if bad_supplied => {}
                            (None, Ok(Some(Out::Recv(Ok(m))))) if bad_supplied => {
                                fail!(f, "C08/REP/malformed-request-accepted", "{}: a request whose delimiter is its last frame was handed to the application as {:?}", ctx_s, m);
                                return f;
                            }
                            (w, other) => {
                                fail!(f, "C08/REP/recv", "{}: expected request {:?}, got {:?}", ctx_s, w.map(|x| x.0), other.map(|o| o.map(|o| o.err_text().map(|s| s.to_string()))));
                                return f;
                            }
                        }
                    }
                }
            }
            f
        })
    });
    if let Some(f) = r {
        o.failures = f;
    }
    for p in panics {
        o.fail(format!("C08/panic/{}", panic_sig(&p)), format!("calls {}: {}", show_calls(&c.calls), p));
    }
    o
}

// --------------------------------------------------------------------------------------------
// concurrent requesters against one library REP

#[derive(Debug, Clone, Serialize, Deserialize, PartialEq, Eq, Hash)]
pub struct ClientSpec {
    /// true = a library REQ socket, false = a raw REQ peer
    pub lib: bool,
    pub requests: usize,
    /// partial writes on the REP -> client direction: bytes per write call (0 = unrestricted)
    pub per_call: usize,
    /// raw clients only: announce a present-but-empty Identity (as libzmq REQ sockets do)
    #[serde(default)]
    pub empty_identity: bool,
}

#[derive(Debug, Clone, Serialize, Deserialize, PartialEq, Eq, Hash)]
pub struct ConcCase {
    pub clients: Vec<ClientSpec>,
    pub schedule: Vec<u16>,
    pub payload_len: usize,
}

enum ClientRt {
    Lib { sock: usize, to_rep: Pipe, from_rep: Pipe, call: Option<usize>, phase: u8 },
    Raw { link: Link, waiting: bool },
}

pub fn conc_outcome(c: &ConcCase) -> Outcome {
    let mut o = Outcome::new(hash_of(c));
    let c2 = c.clone();
    let (r, panics) = capture_panics(|| {
        run_sim(async move {
            let c = c2;
            let mut f: Vec<Failure> = vec![];
            let mut sim = Sim::new();
            let rep = sim.socket(Kind::Rep, None);
            let mut clients: Vec<ClientRt> = vec![];
            let mut sent = vec![0usize; c.clients.len()]; // requests issued
            let mut got: Vec<Vec<Frames>> = vec![vec![]; c.clients.len()]; // replies seen by lib clients
            for cs in &c.clients {
                if cs.lib {
                    let s = sim.socket(Kind::Req, None);
                    let (x, y, ab, ba) = sim.connect_libs(s, rep, false);
                    ab.set_auto(true);
                    ba.set_auto(true);
                    let _ = sim.settle().await;
                    if !matches!(sim.out(x), Some(Out::Attach(Ok(_)))) || !matches!(sim.out(y), Some(Out::Attach(Ok(_)))) {
                        fail!(f, "C08/concurrent/setup", "lib REQ <-> REP handshake failed");
                        return (f, false);
                    }
                    ab.set_auto(false);
                    ba.set_auto(false);
                    if cs.per_call > 0 {
                        ba.set_window(Window::PerCall(cs.per_call));
                    }
                    clients.push(ClientRt::Lib { sock: s, to_rep: ab, from_rep: ba, call: None, phase: 0 });
                } else {
                    let l = sim.link();
                    l.raw_handshake("REQ", if cs.empty_identity { Some(&[]) } else { None });
                    let a = sim.attach(rep, &l);
                    let _ = sim.run(a).await;
                    if cs.per_call > 0 {
                        l.from_lib.set_window(Window::PerCall(cs.per_call));
                    }
                    clients.push(ClientRt::Raw { link: l, waiting: false });
                }
            }
            let payload = |i: usize, seq: usize| -> Frames { vec![format!("c{}-{}", i, seq).into_bytes(), fill((i * 100 + seq) as u32, c.payload_len)] };
            // REP application: recv -> echo
            let mut rep_call: Option<usize> = None;
            let mut rep_pending_echo: Option<Frames> = None;
            let mut overlapping = false;
            let total_requests: usize = c.clients.iter().map(|x| x.requests).sum();
            let mut served = 0usize;
            let mut sched_used = 0usize;
            let mut steps = 0usize;
            loop {
                steps += 1;
                if steps > 40_000 {
                    fail!(f, "C08/concurrent/no-progress", "{} of {} requests served after 40000 steps", served, total_requests);
                    break;
                }
                // automatic transitions (application logic)
                if rep_call.is_none() {
                    rep_call = Some(match rep_pending_echo.take() {
                        Some(m) => sim.send(rep, &m),
                        None => sim.recv(rep),
                    });
                }
                for (i, cl) in clients.iter_mut().enumerate() {
                    match cl {
                        ClientRt::Lib { sock, call, phase, .. } => {
                            if call.is_none() && *phase == 0 && sent[i] < c.clients[i].requests {
                                *call = Some(sim.send(*sock, &payload(i, sent[i])));
                                sent[i] += 1;
                                *phase = 1;
                            }
                        }
                        ClientRt::Raw { link, waiting } => {
                            if !*waiting && sent[i] < c.clients[i].requests {
                                let mut w = vec![vec![]];
                                w.extend(payload(i, sent[i]));
                                link.raw_send(&w);
                                sent[i] += 1;
                                *waiting = true;
                            }
                        }
                    }
                }
                let outstanding = clients
                    .iter()
                    .filter(|cl| match cl {
                        ClientRt::Lib { phase, .. } => *phase != 0,
                        ClientRt::Raw { waiting, .. } => *waiting,
                    })
                    .count();
                if outstanding >= 2 {
                    overlapping = true;
                }
                // completion handling
                if let Some(a) = rep_call {
                    if sim.done(a) {
                        match sim.take(a) {
                            Some(Out::Recv(Ok(m))) => {
                                let mut e = m.clone();
                                e.push(b"!".to_vec());
                                rep_pending_echo = Some(e);
                            }
                            Some(Out::Send(Ok(()))) => served += 1,
                            other => {
                                fail!(f, "C08/concurrent/rep-call-failed", "{:?}", other);
                                break;
                            }
                        }
                        rep_call = None;
                        continue;
                    }
                }
                let mut progressed = false;
                for (i, cl) in clients.iter_mut().enumerate() {
                    match cl {
                        ClientRt::Lib { sock, call, phase, .. } => {
                            if let Some(a) = *call {
                                if sim.done(a) {
                                    match sim.take(a) {
                                        Some(Out::Send(Ok(()))) => {
                                            *call = Some(sim.recv(*sock));
                                            *phase = 2;
                                        }
                                        Some(Out::Recv(Ok(m))) => {
                                            got[i].push(m);
                                            *call = None;
                                            *phase = 0;
                                        }
                                        other => {
                                            fail!(f, "C08/concurrent/client-call-failed", "client {}: {:?}", i, other);
                                            *call = None;
                                            *phase = 0;
                                            sent[i] = c.clients[i].requests;
                                        }
                                    }
                                    progressed = true;
                                }
                            }
                        }
                        ClientRt::Raw { link, waiting } => {
                            if *waiting {
                                let n = link.lib_messages_prefix().map(|x| x.0.len()).unwrap_or(0);
                                if n >= sent[i] {
                                    *waiting = false;
                                    progressed = true;
                                }
                            }
                        }
                    }
                }
                if progressed {
                    continue;
                }
                if served >= total_requests && outstanding == 0 {
                    break;
                }
                // scheduler-chosen action
                #[derive(Clone)]
                enum Act {
                    Step(usize),
                    Deliver(Pipe, usize),
                }
                // once the generated schedule is used up the history is drained fairly: the choice
                // rotates over all enabled actions and deliveries are whole (a constant choice
                // could keep picking a few-byte delivery and run into the step cap)
                let draining = sched_used >= c.schedule.len();
                let ch = if draining { (sched_used as u32).wrapping_mul(40503) as u16 } else { c.schedule[sched_used] };
                sched_used += 1;
                let mut acts: Vec<Act> = vec![];
                for a in sim.runnable() {
                    acts.push(Act::Step(a));
                }
                for cl in &clients {
                    let pipes: Vec<&Pipe> = match cl {
                        ClientRt::Lib { to_rep, from_rep, .. } => vec![to_rep, from_rep],
                        ClientRt::Raw { link, .. } => vec![&link.to_lib],
                    };
                    for p in pipes {
                        if p.undelivered() > 0 {
                            if !draining {
                                acts.push(Act::Deliver(p.clone(), 1 + (ch as usize % 9)));
                            }
                            acts.push(Act::Deliver(p.clone(), usize::MAX));
                        }
                    }
                }
                if acts.is_empty() {
                    // nothing enabled: let tokio run, then re-check
                    if sim.settle().await.is_err() {
                        fail!(f, "C08/concurrent/spin", "does not settle");
                        break;
                    }
                    if sim.runnable().is_empty() {
                        fail!(f, "C08/concurrent/stuck", "no runnable call and no byte in flight with {} of {} requests served", served, total_requests);
                        break;
                    }
                    continue;
                }
                match acts[((ch as usize) * acts.len()) >> 16].clone() {
                    Act::Step(a) => {
                        sim.poll(a);
                    }
                    Act::Deliver(p, n) => {
                        p.deliver(n);
                    }
                }
            }
            // ---- oracle
            for (i, cl) in clients.iter().enumerate() {
                let want: Vec<Frames> = (0..c.clients[i].requests)
                    .map(|seq| {
                        let mut m = payload(i, seq);
                        m.push(b"!".to_vec());
                        m
                    })
                    .collect();
                match cl {
                    ClientRt::Lib { from_rep, .. } => {
                        if got[i] != want {
                            fail!(
                                f,
                                "C08/concurrent/client-got-wrong-replies",
                                "library client {} received {:?}, expected its own {} replies in order",
                                i,
                                got[i].iter().map(|m| String::from_utf8_lossy(&m[0]).to_string()).collect::<Vec<_>>(),
                                want.len()
                            );
                        }
                        // wire of this connection: only this client's replies
                        let tap = from_rep.tap();
                        let p = refcodec::parse_stream(&tap, refcodec::Strictness::EMITTED_WITH_GREETING);
                        let msgs: Vec<Frames> = p.items.iter().filter_map(|it| if let refcodec::RefItem::Message(m) = it { Some(m.clone()) } else { None }).collect();
                        let want_wire: Vec<Frames> = want
                            .iter()
                            .map(|m| {
                                let mut w = vec![vec![]];
                                w.extend(m.clone());
                                w
                            })
                            .collect();
                        if msgs != want_wire || p.error.is_some() {
                            fail!(f, "C08/concurrent/reply-on-wrong-connection", "connection of library client {} carries {} messages (error {:?}), expected exactly its own {} replies", i, msgs.len(), p.error, want_wire.len());
                        }
                    }
                    ClientRt::Raw { link, .. } => {
                        let want_wire: Vec<Frames> = want
                            .iter()
                            .map(|m| {
                                let mut w = vec![vec![]];
                                w.extend(m.clone());
                                w
                            })
                            .collect();
                        match link.lib_messages() {
                            Ok(m) if m == want_wire => {}
                            Ok(m) => fail!(
                                f,
                                "C08/concurrent/reply-on-wrong-connection",
                                "connection of raw client {} carries replies {:?}, expected its own {} replies in order",
                                i,
                                m.iter().map(|m| String::from_utf8_lossy(m.get(1).map(|x| x.as_slice()).unwrap_or(b"?")).to_string()).collect::<Vec<_>>(),
                                want_wire.len()
                            ),
                            Err(e) => fail!(f, "C08/concurrent/wire-malformed", "raw client {}: {}", i, e),
                        }
                    }
                }
            }
            (f, overlapping)
        })
    });
    if let Some((f, overlapping)) = r {
        o.failures = f;
        o.nontrivial = c.clients.len() >= 2 && overlapping;
        if overlapping {
            o.class("overlapping-requests");
        }
    }
    if c.clients.iter().any(|x| x.per_call > 0) {
        o.class("partial-writes");
    }
    if c.clients.iter().filter(|x| !x.lib && x.empty_identity).count() >= 2 {
        o.class("several-clients-announcing-an-empty-identity");
    }
    for p in panics {
        o.fail(format!("C08/panic/{}", panic_sig(&p)), p);
    }
    o
}

// --------------------------------------------------------------------------------------------
// a client restarts under its announced identity: the reply goes to the connection the
// request came from

#[derive(Debug, Clone, Serialize, Deserialize, PartialEq, Eq, Hash)]
pub struct ReturnCase {
    /// bystander clients (anonymous) that exchange in between
    pub others: usize,
    /// exchanges of the client before it restarts
    pub before: usize,
    /// old connection at the restart: 0 = open and idle, 1 = ended (EOF the REP has not read)
    pub old_state: u8,
    /// the restart happens while the REP owes a bystander a reply
    pub rep_busy: bool,
    /// exchanges after the restart
    pub after: usize,
}

pub fn return_outcome(c: &ReturnCase) -> Outcome {
    let mut o = Outcome::new(hash_of(c));
    o.nontrivial = true;
    o.class("client-restarts-under-its-identity");
    let c2 = c.clone();
    let (r, panics) = capture_panics(|| {
        run_sim(async move {
            let c = c2;
            let mut f: Vec<Failure> = vec![];
            let mut sim = Sim::new();
            let rep = sim.socket(Kind::Rep, None);
            let mut client = match crate::simx::attach_raw(&mut sim, rep, Some(b"client-a")).await {
                Ok((l, _)) => l,
                Err(e) => {
                    fail!(f, "C08/REP/setup", "{}", e);
                    return f;
                }
            };
            let mut others: Vec<Link> = vec![];
            for _ in 0..c.others {
                match crate::simx::attach_raw(&mut sim, rep, None).await {
                    Ok((l, _)) => others.push(l),
                    Err(e) => {
                        fail!(f, "C08/REP/setup", "{}", e);
                        return f;
                    }
                }
            }
            let mut n = 0usize;
            // one lock-step exchange of `link`: request, recv, reply; the reply must appear on
            // `link` and nowhere else
            macro_rules! exchange {
                ($link:expr, $all:expr, $who:expr) => {{
                    n += 1;
                    let q = format!("q{}", n).into_bytes();
                    let a = format!("a{}", n).into_bytes();
                    let before: Vec<usize> = $all.iter().map(|l: &Link| l.from_lib.tap_len()).collect();
                    let mine = $link.from_lib.tap_len();
                    $link.raw_send_now(&[vec![], q.clone()]);
                    let r = sim.recv(rep);
                    match sim.run(r).await {
                        Ok(Some(Out::Recv(Ok(m)))) if m == vec![q.clone()] => {}
                        other => {
                            fail!(f, "C08/REP/request-not-received", "{}: request #{}: {:?}", $who, n, other.map(|o| o.map(|o| format!("{:?}", o).chars().take(100).collect::<String>())));
                            return f;
                        }
                    }
                    let s = sim.send(rep, &[a.clone()]);
                    let res = sim.run(s).await;
                    let elsewhere: Vec<usize> = (0..$all.len()).filter(|i| $all[*i].from_lib.tap_len() != before[*i] && !std::sync::Arc::ptr_eq(&$all[*i].from_lib.0, &$link.from_lib.0)).collect();
                    let got = $link.from_lib.tap_from(mine);
                    if !elsewhere.is_empty() || got != refcodec::encode_message(&[vec![], a.clone()]) {
                        fail!(
                            f,
                            "C08/REP/reply-not-on-the-requesting-connection",
                            "{}: request #{} came in on one connection; the reply ({:?}) put {} bytes there and wrote to {} other connection(s)",
                            $who,
                            n,
                            res.map(|o| o.map(|o| o.err_text().map(|s| s.to_string()))),
                            got.len(),
                            elsewhere.len()
                        );
                        return f;
                    }
                }};
            }
            for _ in 0..c.before {
                let all: Vec<Link> = std::iter::once(client.clone()).chain(others.iter().cloned()).collect();
                exchange!(client, all, "client before its restart");
                for o in others.clone() {
                    let all: Vec<Link> = std::iter::once(client.clone()).chain(others.iter().cloned()).collect();
                    exchange!(o, all, "bystander");
                }
            }
            // the restart
            let old = client.clone();
            if c.old_state == 1 {
                old.to_lib.end_after_all(crate::pipe::ReadEnd::Eof);
            }
            let mut owed: Option<(Link, Vec<u8>, usize)> = None;
            if c.rep_busy {
                if let Some(b) = others.first().cloned() {
                    n += 1;
                    let q = format!("q{}", n).into_bytes();
                    b.raw_send_now(&[vec![], q.clone()]);
                    let r = sim.recv(rep);
                    match sim.run(r).await {
                        Ok(Some(Out::Recv(Ok(m)))) if m == vec![q.clone()] => owed = Some((b.clone(), format!("a{}", n).into_bytes(), b.from_lib.tap_len())),
                        other => {
                            fail!(f, "C08/REP/request-not-received", "bystander: {:?}", other.map(|o| o.map(|o| format!("{:?}", o).chars().take(100).collect::<String>())));
                            return f;
                        }
                    }
                }
            }
            client = match crate::simx::attach_raw(&mut sim, rep, Some(b"client-a")).await {
                Ok((l, _)) => l,
                Err(e) => {
                    fail!(f, "C08/REP/returning-client-not-admitted", "{}", e);
                    return f;
                }
            };
            if let Some((b, a, mine)) = owed {
                let s = sim.send(rep, &[a.clone()]);
                let _ = sim.run(s).await;
                if b.from_lib.tap_from(mine) != refcodec::encode_message(&[vec![], a]) {
                    fail!(f, "C08/REP/reply-not-on-the-requesting-connection", "the reply owed to a bystander while another client restarted did not reach the bystander");
                    return f;
                }
            }
            let old_tap = old.from_lib.tap_len();
            for _ in 0..c.after.max(1) {
                let all: Vec<Link> = std::iter::once(client.clone()).chain(others.iter().cloned()).chain(std::iter::once(old.clone())).collect();
                exchange!(client, all, "client after its restart (fresh connection)");
                for o in others.clone() {
                    let all: Vec<Link> = std::iter::once(client.clone()).chain(others.iter().cloned()).chain(std::iter::once(old.clone())).collect();
                    exchange!(o, all, "bystander");
                }
            }
            if old.from_lib.tap_len() != old_tap {
                fail!(f, "C08/REP/reply-not-on-the-requesting-connection", "{} bytes were written to the connection the client had before its restart", old.from_lib.tap_len() - old_tap);
            }
            f
        })
    });
    if let Some(f) = r {
        o.failures = f;
    }
    for p in panics {
        o.fail(format!("C08/panic/{}", panic_sig(&p)), p);
    }
    o
}

pub fn run(ctx: &Ctx) -> (Report, PropertyMeta) {
    let mut report = Report::default();
    {
        let mut rc = vec![];
        for others in 0..=2usize {
            for before in 0..=2usize {
                for old_state in 0..=1u8 {
                    for rep_busy in [false, true] {
                        if rep_busy && others == 0 {
                            continue;
                        }
                        rc.push(ReturnCase { others, before, old_state, rep_busy, after: 2 });
                    }
                }
            }
        }
        let r = run_cases(ctx, "return", &rc, return_outcome);
        report.exhaustive_parts.push(format!("REP: a client with an announced identity restarts on a fresh connection (0..2 bystanders x 0..2 earlier exchanges x old connection idle / ended-unseen x REP idle / owing a bystander a reply): {} cases", rc.len()));
        report.merge(r);
    }
    let t = ctx.tier;
    let maxlen = t.pick(6, 9);
    let mut cases = vec![];
    for len in 1..=maxlen {
        for code in 0..(1usize << len) {
            let calls: Vec<bool> = (0..len).map(|i| (code >> i) & 1 == 1).collect();
            for peers in 0..=2 {
                cases.push(SeqCase { req: true, calls: calls.clone(), peers, bad: 0, dead: 0, cancel: 0 });
                cases.push(SeqCase { req: false, calls: calls.clone(), peers, bad: 0, dead: 0, cancel: 0 });
                // REQ with some sends hitting a connection that has just died
                let sends = calls.iter().filter(|c| **c).count();
                if peers > 0 && sends > 0 && len <= 6 {
                    for dead in 1..(1u32 << sends.min(4)) {
                        cases.push(SeqCase { req: true, calls: calls.clone(), peers, bad: 0, dead: dead as u8, cancel: 0 });
                    }
                }
                // REQ with some in-turn recvs abandoned before the reply arrives
                let recvs_r = calls.iter().filter(|c| !**c).count();
                if peers > 0 && recvs_r > 0 && len <= 6 {
                    for cancel in 1..(1u32 << recvs_r.min(4)) {
                        cases.push(SeqCase { req: true, calls: calls.clone(), peers, bad: 0, dead: 0, cancel: cancel as u8 });
                    }
                }
                // REP with some malformed requests among the supplied ones
                let recvs = calls.iter().filter(|c| !**c).count();
                if peers > 0 && recvs > 0 && len <= 6 {
                    for bad in 1..(1u32 << recvs.min(5)) {
                        cases.push(SeqCase { req: false, calls: calls.clone(), peers, bad: bad as u8, dead: 0, cancel: 0 });
                    }
                }
            }
        }
    }
    let r = run_cases(ctx, "sequence", &cases, seq_outcome);
    report.exhaustive_parts.push(format!(
        "all call sequences over {{send, recv}} of length 1..{} on a library REQ (auto-answering raw REP peers) and a library REP (raw REQ peers supplying requests), each with 0, 1 and 2 peers, against a reference state machine: {} cases",
        maxlen,
        cases.len()
    ));
    report.merge(r);

    // long runs: behaviour that depends on how many exchanges went before
    let long: Vec<ConcCase> = vec![
        ConcCase { clients: vec![ClientSpec { lib: true, requests: 60, per_call: 0, empty_identity: false }, ClientSpec { lib: false, requests: 60, per_call: 0, empty_identity: false }], schedule: vec![], payload_len: 5 },
        ConcCase { clients: vec![ClientSpec { lib: false, requests: 40, per_call: 3, empty_identity: true }, ClientSpec { lib: false, requests: 40, per_call: 0, empty_identity: true }, ClientSpec { lib: true, requests: 40, per_call: 0, empty_identity: false }], schedule: vec![], payload_len: 300 },
    ];
    let r = run_cases(ctx, "concurrent", &long, conc_outcome);
    report.exhaustive_parts.push("two long concurrent runs (120 exchanges each) against one REP".to_string());
    report.merge(r);
    let n = t.pick(20_000, 400_000);
    let r = run_random(
        ctx,
        "concurrent",
        n,
        60..=300,
        |s| {
            let k = s.range(1, 5);
            let clients = (0..k)
                .map(|_| ClientSpec {
                    lib: s.bool(),
                    requests: s.range(1, 4),
                    per_call: s.pick(&[0usize, 0, 1, 3, 17]),
                    empty_identity: s.chance(1, 3),
                })
                .collect();
            let slen = s.range(30, 250);
            ConcCase {
                clients,
                schedule: (0..slen).map(|_| s.next()).collect(),
                payload_len: s.pick(&[0usize, 5, 300, 9000]),
            }
        },
        conc_outcome,
    );
    report.sections.push(json!({"part": "1..5 concurrent requesters (library REQ sockets or raw REQ peers) against one echoing library REP, generated actor/byte-delivery schedule, partial-write windows", "cases": n}));
    report.merge(r);

    if t == Tier::Thorough {
        crate::fuzzing::campaign(ctx, &mut report, "sim", 180);
    }
    {
        use crate::stress::sc;
        let n = t.pick(400, 5000);
        let cases = vec![sc("rep", "spawned", 5, n, 10), sc("rep", "block_on", 4, n, 3000), sc("rep", "spawned", 8, n / 2, 40_000)];
        crate::stress::run_all(ctx, &mut report, "C08", &cases, 60);
    }
    health_abs(&mut report, "has-out-of-turn-call", 500);
    health_abs(&mut report, "rep-with-malformed-requests", 500);
    health_abs(&mut report, "req-with-failing-sends", 500);
    health_abs(&mut report, "req-with-abandoned-recvs", 500);
    health_abs(&mut report, "overlapping-requests", 500);
    health_abs(&mut report, "partial-writes", 300);
    health_abs(&mut report, "several-clients-announcing-an-empty-identity", 300);

    let meta = PropertyMeta {
        level: "exploration",
        rule: "(a) exhaustive call sequences over {send, recv} on REQ and REP with 0..2 peers (for REP also with every subset of the supplied requests malformed: delimiter last, which must be rejected or dropped without moving the state; for REQ also with every subset of the first four sends hitting a connection whose writes have just begun to fail: such a send is not accepted, so no request is outstanding after it, the next recv is out of turn and the next send goes to the next peer of the rotation; and with every subset of the first four in-turn recvs polled before the reply has arrived and then dropped - such a recv did not happen: the request stays outstanding, the next send is out of turn, the next recv gets the reply) run in lock-step with a reference state machine: an out-of-turn call must fail, hand the same message back (ReturnToSender), grow no connection's wire, and leave the machine's subsequent behaviour unchanged; an in-turn send must write exactly [empty]+message on exactly the right connection. (b) proptest histories with 1..5 concurrent requesters (library REQ sockets over harness pipes, or raw peers) against one echoing REP under generated scheduling, segmentation and partial writes: every client receives exactly the replies to its own tagged requests, in order, and each connection's wire carries only that client's replies. Non-trivial: (a) the sequence contains an out-of-turn call, (b) >= 2 clients with overlapping outstanding requests; distinct by case".into(),
        assumptions: vec!["a second recv on a REP that already holds a request is not refused by the statement; the model lets it fetch the next request and makes the latest requester current".into()],
        exhaustive: false,
    };
    (report, meta)
}

pub fn replay(_ctx: &Ctx, kind: &str, case: &Value) -> Vec<Failure> {
    match kind {
        "sequence" => parse_case::<SeqCase>(case).map(|c| seq_outcome(&c).failures),
        "concurrent" => parse_case::<ConcCase>(case).map(|c| conc_outcome(&c).failures),
        "return" => parse_case::<ReturnCase>(case).map(|c| return_outcome(&c).failures),
        "stress" => Ok(crate::stress::replay(_ctx, "C08", case)),
        _ => Err(vec![Failure::new("replay/unknown-kind", kind.to_string())]),
    }
    .unwrap_or_else(|e| e)
}

pub fn gen_conc_pub(s: &mut Src<'_>) -> ConcCase {
    let k = s.range(1, 5);
    let clients = (0..k)
        .map(|_| ClientSpec {
            lib: s.bool(),
            requests: s.range(1, 4),
            per_call: s.pick(&[0usize, 0, 1, 3, 17]),
            empty_identity: s.chance(1, 3),
        })
        .collect();
    let slen = s.range(30, 250);
    ConcCase {
        clients,
        schedule: (0..slen).map(|_| s.next()).collect(),
        payload_len: s.pick(&[0usize, 5, 300, 9000]),
    }
}
