//! Thin adapters around the library's real codec / framed reader (through the verif hooks),
//! mapping its items to plain data comparable with the reference codec's.

use crate::pipe::{Pipe, ReadEnd};
use crate::refcodec::{RefGreeting, RefItem};
use crate::sim::{to_msg, Frames};

use bytes::BytesMut;
use futures::task::noop_waker;
use futures::Stream;
use serde::{Deserialize, Serialize};
use zeromq::__verif::codec::{Codec, Item};
use zeromq::__verif::FramedReader;

use std::pin::Pin;
use std::task::{Context, Poll};

#[derive(Debug, Clone, PartialEq, Eq, Serialize, Deserialize)]
pub enum LItem {
    Greeting {
        version: (u8, u8),
        mechanism: String,
        as_server: bool,
    },
    /// properties sorted by name
    Command {
        name: String,
        props: Vec<(String, Vec<u8>)>,
    },
    Message(Frames),
}

pub fn to_litem(i: Item) -> LItem {
    match i {
        Item::Greeting {
            version,
            mechanism,
            as_server,
        } => LItem::Greeting {
            version,
            mechanism,
            as_server,
        },
        Item::Command { name, properties } => LItem::Command {
            name,
            props: properties.into_iter().map(|(k, v)| (k, v.to_vec())).collect(),
        },
        Item::Message(m) => LItem::Message(m.into_vec().into_iter().map(|b| b.to_vec()).collect()),
    }
}

/// Encode a message with the library's codec.
pub fn lib_encode_message(frames: &[Vec<u8>]) -> Result<Vec<u8>, String> {
    let mut c = Codec::new();
    let mut dst = BytesMut::new();
    c.encode(Item::Message(to_msg(frames)), &mut dst)
        .map_err(|e| format!("{:?}", e))?;
    Ok(dst.to_vec())
}

pub fn lib_encode_item(item: Item) -> Result<Vec<u8>, String> {
    let mut c = Codec::new();
    let mut dst = BytesMut::new();
    c.encode(item, &mut dst).map_err(|e| format!("{:?}", e))?;
    Ok(dst.to_vec())
}

/// How a decoded stream ended.
#[derive(Debug, Clone, PartialEq, Eq, Serialize, Deserialize)]
pub enum End {
    /// all bytes consumed, decoder waiting for more
    NeedMore { buffered: usize },
    /// decoder returned an error (text)
    Error(String),
    /// framed reader reported a clean end of stream
    Clean,
}

/// Feed the whole byte string to the library's decoder in one buffer, collecting every item.
pub fn lib_decode_all(bytes: &[u8]) -> (Vec<LItem>, End, String) {
    let mut c = Codec::new();
    let mut buf = BytesMut::from(bytes);
    let mut items = vec![];
    loop {
        match c.decode(&mut buf) {
            Ok(Some(i)) => items.push(to_litem(i)),
            Ok(None) => {
                return (items, End::NeedMore { buffered: buf.len() }, c.debug_state());
            }
            Err(e) => return (items, End::Error(format!("{:?}", e)), c.debug_state()),
        }
    }
}

/// Normalise an error's Debug text to a class that does not depend on segmentation.
pub fn err_class(text: &str) -> String {
    let t = text;
    for key in [
        "UnexpectedEof",
        "ConnectionReset",
        "BrokenPipe",
        "Bad first byte of greeting",
        "Failed to parse greeting",
        "Failed to parse ZmqMechanism",
        "Unknown command received",
        "Invalid property identifier",
        "Malformed command",
    ] {
        if t.contains(key) {
            return key.to_string();
        }
    }
    t.to_string()
}

/// Result of driving the real framed reader over a scripted segmentation.
#[derive(Debug, Clone, PartialEq, Eq)]
pub struct FramedRun {
    pub items: Vec<LItem>,
    /// errors yielded as stream items, by position in the item sequence
    pub errors: Vec<(usize, String)>,
    /// how the stream ended: "clean", "pending" (all bytes consumed, no EOF given), or error class
    pub end: String,
    pub decoder_state: String,
    pub buffered: usize,
    pub polls: u64,
}

/// Drive the library's real `FramedRead<_, ZmqCodec>` over `bytes` cut into `chunks` (sizes),
/// with a `Pending` between chunks. `eof`: what follows the last byte (None = stays open).
/// After the first error item the run stops (that is what every socket does: it drops or
/// reports the connection).
pub fn framed_run(bytes: &[u8], chunks: &[usize], eof: Option<ReadEnd>, max_items: usize) -> FramedRun {
    let pipe = Pipe::new();
    pipe.deposit(bytes);
    if let Some(e) = eof {
        pipe.end_after_all(e);
    }
    let mut fr = FramedReader::new(pipe.reader());
    let waker = noop_waker();
    let mut cx = Context::from_waker(&waker);
    let mut run = FramedRun {
        items: vec![],
        errors: vec![],
        end: "pending".into(),
        decoder_state: String::new(),
        buffered: 0,
        polls: 0,
    };
    let mut ci = 0usize;
    let mut finished = false;
    // first chunk is delivered before the first poll
    loop {
        // deliver next chunk (if any)
        if ci < chunks.len() {
            pipe.deliver(chunks[ci]);
            ci += 1;
        } else if pipe.undelivered() > 0 {
            pipe.deliver_all();
        }
        // poll until Pending
        loop {
            run.polls += 1;
            match Pin::new(&mut fr).poll_next(&mut cx) {
                Poll::Ready(Some(Ok(i))) => {
                    run.items.push(to_litem(i));
                    if run.items.len() >= max_items {
                        run.end = "max_items".into();
                        finished = true;
                        break;
                    }
                }
                Poll::Ready(Some(Err(e))) => {
                    let cls = err_class(&format!("{:?}", e));
                    run.errors.push((run.items.len(), cls.clone()));
                    run.end = cls;
                    finished = true;
                    break;
                }
                Poll::Ready(None) => {
                    run.end = "clean".into();
                    finished = true;
                    break;
                }
                Poll::Pending => break,
            }
        }
        if finished {
            break;
        }
        if ci >= chunks.len() && pipe.undelivered() == 0 {
            // everything delivered and consumed as far as possible
            break;
        }
    }
    run.decoder_state = fr.debug_state();
    run.buffered = fr.buffered();
    run
}

/// What the library is documented / observed to make of a reference-parsed item:
/// Ok(item) or Err(error class).
pub fn expected_from_ref(item: &RefItem) -> Result<LItem, String> {
    match item {
        RefItem::Greeting(g) => expected_greeting(g),
        RefItem::Message(m) => Ok(LItem::Message(m.clone())),
        RefItem::MalformedCommand(body) => {
            // the library looks at the command name first: a well-formed name other than READY
            // is "unknown" whatever follows (e.g. ERROR, whose body is not a property list)
            match body.first() {
                Some(&n) if body.len() > n as usize && &body[1..1 + n as usize] != b"READY" => {
                    Err("Unknown command received".into())
                }
                _ => Err("malformed-command".into()),
            }
        }
        RefItem::Command { name, props } => {
            if name != b"READY" {
                return Err("Unknown command received".into());
            }
            let mut out: Vec<(String, Vec<u8>)> = vec![];
            for (k, v) in props {
                let k = match String::from_utf8(k.clone()) {
                    Ok(k) => k,
                    Err(_) => return Err("Invalid property identifier".into()),
                };
                // duplicate names: the last one wins (a map)
                if let Some(e) = out.iter_mut().find(|e| e.0 == k) {
                    e.1 = v.clone();
                } else {
                    out.push((k, v.clone()));
                }
            }
            out.sort();
            Ok(LItem::Command {
                name: "READY".into(),
                props: out,
            })
        }
    }
}

pub fn expected_greeting(g: &RefGreeting) -> Result<LItem, String> {
    if g.sig_first != 0xFF {
        return Err("Bad first byte of greeting".into());
    }
    if g.sig_last != 0x7F {
        return Err("Failed to parse greeting".into());
    }
    let mech = match g.mechanism.as_slice() {
        b"NULL" => "NULL",
        b"PLAIN" => "PLAIN",
        b"CURVE" => "CURVE",
        _ => return Err("Failed to parse ZmqMechanism".into()),
    };
    Ok(LItem::Greeting {
        version: g.version,
        mechanism: mech.into(),
        as_server: g.as_server == 1,
    })
}

/// Drive the real framed reader over hostile bytes without retaining items (memory oracle).
/// Returns (items seen, error items seen, end description).
pub fn framed_consume(bytes: &[u8], chunk: usize, eof: Option<ReadEnd>, max_items: usize) -> (usize, usize, String) {
    let pipe = Pipe::new();
    pipe.deposit(bytes);
    if let Some(e) = eof {
        pipe.end_after_all(e);
    }
    let mut fr = FramedReader::new(pipe.reader());
    let waker = noop_waker();
    let mut cx = Context::from_waker(&waker);
    let mut items = 0usize;
    let mut errors = 0usize;
    loop {
        pipe.deliver(chunk.max(1));
        loop {
            match Pin::new(&mut fr).poll_next(&mut cx) {
                Poll::Ready(Some(Ok(_))) => {
                    items += 1;
                    if items >= max_items {
                        return (items, errors, "max_items".into());
                    }
                }
                Poll::Ready(Some(Err(e))) => {
                    errors += 1;
                    // sockets drop or report the connection on the first error
                    return (items, errors, err_class(&format!("{:?}", e)));
                }
                Poll::Ready(None) => return (items, errors, "clean".into()),
                Poll::Pending => break,
            }
        }
        if pipe.undelivered() == 0 {
            return (items, errors, "pending".into());
        }
    }
}
