#!/usr/bin/env python3
"""add_seed_row.py <after-id> <row text>: insert a DESIGN 7.2 table row after the row of <after-id>"""
import sys,re
after,row=sys.argv[1],sys.argv[2]
p='/verif/DESIGN.md'; L=open(p).read().split('\n')
idx=[i for i,l in enumerate(L) if l.startswith('| %s |'%after)]
assert len(idx)==1,(after,idx)
new_id=row.split('|')[1].strip()
assert not any(l.startswith('| %s |'%new_id) for l in L), 'exists'
L.insert(idx[0]+1,row)
open(p,'w').write('\n'.join(L))
