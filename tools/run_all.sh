#!/bin/sh
# usage: tools/run_all.sh [quick|thorough] [seed]   runs every check registered in props, prints one line each
TIER="${1:-quick}"; SEED="${2:-1}"
cd /verif
for id in $(python3 -c "
import json
print(' '.join(c['property_id'] for c in json.load(open('/verif/MANIFEST.json'))['checks']))"); do
  VERIF_SEED=$SEED ./check $id $TIER > /tmp/run_all_$id.log 2>&1
  code=$?
  echo "$id exit=$code $(grep -c '^VIOLATION' /tmp/run_all_$id.log) violations; $(grep -c '^KNOWN-FINDING' /tmp/run_all_$id.log) known; $(tail -1 /tmp/run_all_$id.log)"
done
