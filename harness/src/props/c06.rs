//! C06 — a waiting receiver is always woken, and no peer is starved.
//! Same schedule strings as C05 (fq.rs), judged by the executor-mode liveness oracle and the
//! bounded-bypass fairness oracle.

use crate::core::*;
use crate::fq::{self, Tok};
use crate::props::c05::{exhaustive_schedules, gen_sched, sched_outcome, SchedCase};
use crate::props::parse_case;

use serde_json::{json, Value};

/// fairness-focused strings: several busy streams, receiver polling, joins in between
fn gen_fair(src: &mut Src<'_>) -> SchedCase {
    let n_keys = src.range(2, 6);
    let mut toks = vec![];
    for i in 0..n_keys {
        toks.push(Tok::Insert(i as u8));
        if src.bool() {
            toks.push(Tok::Burst(i as u8));
        }
    }
    let len = src.range(20, 90);
    for _ in 0..len {
        let t = match src.weighted(&[8, 3, 2, 1, 1, 1]) {
            0 => Tok::Recv,
            1 => Tok::Burst(src.below(n_keys) as u8),
            2 => Tok::Push(src.below(n_keys) as u8),
            3 => Tok::Settle,
            4 => Tok::Insert(src.below(n_keys) as u8),
            _ => Tok::Migrate,
        };
        toks.push(t);
    }
    let mut c = SchedCase { toks, n_keys, block: true };
    // repair invalid tokens
    for _ in 0..200 {
        match fq::run_schedule(&c.toks, c.n_keys, c.block).stats.invalid_at {
            Some(p) => {
                c.toks.remove(p);
            }
            None => break,
        }
    }
    c
}

pub fn run(ctx: &Ctx) -> (Report, PropertyMeta) {
    let mut report = Report::default();
    let t = ctx.tier;
    report.merge(exhaustive_schedules(ctx, 2, t.pick(8, 10), true, true));
    report.merge(exhaustive_schedules(ctx, 3, t.pick(7, 8), true, true));
    report.merge(exhaustive_schedules(ctx, 2, t.pick(7, 9), false, true));
    let n = t.pick(20_000, 400_000);
    report.merge(run_random(ctx, "schedule06", n, 40..=200, |s| gen_sched(s, false), |c| sched_outcome(c, true)));
    report.merge(run_random(ctx, "schedule06", n, 40..=200, gen_fair, |c| sched_outcome(c, true)));
    // stale wakes: liveness / safety only (fairness is not asserted with stale wakes)
    report.merge(run_random(ctx, "schedule06", n / 2, 40..=200, |s| gen_sched(s, true), |c| sched_outcome(c, true)));
    report.sections.push(json!({"part": "random schedule strings (generic, fairness-focused, with stale wakes)", "cases": n * 2 + n / 2}));

    if t == Tier::Thorough {
        crate::fuzzing::campaign(ctx, &mut report, "fq", 240);
    }
    // real transports: a receive loop in the block_on body of a multi-thread runtime (the body
    // of #[tokio::main]) fed by fast senders - where the cooperative-budget spin showed
    {
        use crate::stress::sc;
        let n = t.pick(3000, 40_000);
        let cases = vec![sc("pull", "block_on", 2, n, 20_000), sc("pull", "block_on", 1, n * 2, 9000), sc("router", "block_on", 2, n, 20_000), sc("rep", "block_on", 3, n / 3, 20_000), sc("pull", "spawned", 2, n, 20_000)];
        crate::stress::run_all(ctx, &mut report, "C06", &cases, 45);
    }
    let total = report.evaluations;
    health(&mut report, "wake-or-insert-inside-window", total, 50);
    health(&mut report, "two-busy-streams", total, 50);
    health_abs(&mut report, "receiver-moved-to-another-task", 2000);
    let observed = report.measures.get("max_bypass_observed").copied().unwrap_or(0);
    report.notes.push(format!("largest number of other-stream deliveries that went ahead of a ready stream in the exhaustive part: {} (bound asserted: 2n)", observed));

    let meta = PropertyMeta {
        level: "exploration",
        rule: "the library's real fair queue driven by schedule strings over {Push i, Burst i, Close i, Insert i, Remove i, Recv, Settle, Exhaust (streams yield), Migrate (the receiver is moved to another task: new waker, wakes to the old one reach nobody)}; tokens inside a stream poll run while the queue lock is released (before the stream decides and after it decided but before it is put back). ALL valid strings to the stated depth for 2 and 3 streams, proptest strings (generic, fairness-focused with several busy streams, and with stale wakes) for up to 6 streams. Oracles: (no lost wake-up) the receiver is re-polled only when an executor would (its waker fired since it last returned Pending); whenever it is parked with no wake pending - at every Settle token and after the schedule - no connected stream may hold an undelivered item; end-of-stream only with no streams and block_on_no_clients=false. (bounded bypass) from the moment a stream holds an item until it is served, at most 2n deliveries from other streams (n = streams ever inserted; bursts of 14 items make any monopolising order exceed the bound). Non-trivial = a wake or insert lands inside a window, or two streams each hold >= 2 items at some point; distinct by schedule".into(),
        assumptions: vec![
            "a correct executor re-polls a task that was woken while running; waker registration once per poll call is therefore not flagged".into(),
            "fairness is not asserted on schedules containing stale wakes (an old waker clone legitimately re-queues its stream with an old ticket)".into(),
        ],
        exhaustive: false,
    };
    (report, meta)
}

pub fn replay(_ctx: &Ctx, kind: &str, case: &Value) -> Vec<Failure> {
    match kind {
        "schedule06" | "schedule" => parse_case::<SchedCase>(case).map(|c| sched_outcome(&c, true).failures),
        "stress" => Ok(crate::stress::replay(_ctx, "C06", case)),
        "schedule_subtree" => {
            let first: Result<SchedCase, _> = parse_case(&case["first"]);
            first.map(|c| {
                let depth = case["depth"].as_u64().unwrap_or(5) as usize;
                let alpha = fq::alphabet_m(c.n_keys, false);
                let mut fails = vec![];
                let mut visit = |_t: &[Tok], r: &fq::RunResult| {
                    fails.extend(r.c06.clone());
                };
                let (_, panics) = capture_panics(|| fq::enumerate(&alpha, c.n_keys, depth, c.block, &c.toks, &mut visit));
                for p in panics {
                    fails.push(Failure::new(format!("C06/panic/{}", panic_sig(&p)), p));
                }
                fails
            })
        }
        _ => Err(vec![Failure::new("replay/unknown-kind", kind.to_string())]),
    }
    .unwrap_or_else(|e| e)
}
