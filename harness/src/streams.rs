//! Generated ZMTP byte streams (valid item sequences), built with the reference encoder.

use crate::core::{fill, Src};
use crate::props::c01::{gen_fill, Fill, FrameSpec};
use crate::refcodec::{self, RefGreeting};

use serde::{Deserialize, Serialize};

#[derive(Debug, Clone, Serialize, Deserialize, PartialEq, Eq, Hash)]
pub enum ItemSpec {
    /// READY with extra properties (name, value length, fill seed); Socket-Type first
    Ready { socket_type: String, extra: Vec<(String, usize, u32)> },
    /// a command the library does not know (e.g. ERROR): name + opaque body
    OtherCommand { name: String, body: Vec<u8> },
    Message(Vec<FrameSpec>),
    /// a message whose short frames use the (legal, non-canonical) 8-byte size
    MessageLongSizes(Vec<FrameSpec>),
}

#[derive(Debug, Clone, Serialize, Deserialize, PartialEq, Eq, Hash)]
pub struct StreamSpec {
    pub greeting: bool,
    pub items: Vec<ItemSpec>,
    /// cut the stream after this many bytes (None = whole)
    pub truncate: Option<usize>,
}

impl ItemSpec {
    pub fn encode(&self, out: &mut Vec<u8>) {
        match self {
            ItemSpec::Ready { socket_type, extra } => {
                let mut props = vec![(b"Socket-Type".to_vec(), socket_type.as_bytes().to_vec())];
                for (k, l, s) in extra {
                    props.push((k.as_bytes().to_vec(), fill(*s, *l)));
                }
                out.extend_from_slice(&refcodec::encode_command(b"READY", &props));
            }
            ItemSpec::OtherCommand { name, body } => {
                let mut b = vec![name.len() as u8];
                b.extend_from_slice(name.as_bytes());
                b.extend_from_slice(body);
                refcodec::encode_frame(out, &b, false, true);
            }
            ItemSpec::Message(frames) => {
                let f: Vec<Vec<u8>> = frames.iter().map(|f| f.bytes()).collect();
                out.extend_from_slice(&refcodec::encode_message(&f));
            }
            ItemSpec::MessageLongSizes(frames) => {
                for (i, f) in frames.iter().enumerate() {
                    refcodec::encode_frame_opts(out, &f.bytes(), i + 1 != frames.len(), false, true, 0);
                }
            }
        }
    }
}

impl StreamSpec {
    pub fn encode(&self) -> Vec<u8> {
        let mut out = vec![];
        if self.greeting {
            out.extend_from_slice(&RefGreeting::valid_null().encode());
        }
        for i in &self.items {
            i.encode(&mut out);
        }
        if let Some(t) = self.truncate {
            out.truncate(t.min(out.len()));
        }
        out
    }
}

fn fs(len: usize) -> FrameSpec {
    FrameSpec {
        len,
        fill: Fill::Seed(len as u32 + 1),
    }
}

pub fn msg(lens: &[usize]) -> ItemSpec {
    ItemSpec::Message(lens.iter().map(|l| fs(*l)).collect())
}

pub fn ready(extra: &[(&str, usize)]) -> ItemSpec {
    ItemSpec::Ready {
        socket_type: "REQ".into(),
        extra: extra.iter().map(|(k, l)| (k.to_string(), *l, 3)).collect(),
    }
}

/// Catalogue of minimal streams, each exercising one decoder state transition. All are at most
/// 16 bytes after the greeting unless noted.
pub fn catalogue_small() -> Vec<StreamSpec> {
    let mk = |items: Vec<ItemSpec>| StreamSpec {
        greeting: true,
        items,
        truncate: None,
    };
    let ready_min = ItemSpec::Ready {
        socket_type: "".into(),
        extra: vec![],
    }; // 2+6+1+11+4 = 24 bytes: too long for the <=16 catalogue, used in the pairs set
    let _ = ready_min;
    let mut v = vec![
        mk(vec![msg(&[0])]),
        mk(vec![msg(&[1])]),
        mk(vec![msg(&[2])]),
        mk(vec![msg(&[14])]),
        mk(vec![msg(&[0, 0])]),
        mk(vec![msg(&[1, 1])]),
        mk(vec![msg(&[0, 1, 0])]),
        mk(vec![msg(&[1, 0, 1])]),
        mk(vec![msg(&[0, 0, 0, 0])]),
        mk(vec![msg(&[3, 3, 3])]),
        mk(vec![msg(&[0, 0, 0, 0, 0, 0, 0, 0])]),
        mk(vec![msg(&[0]), msg(&[0])]),
        mk(vec![msg(&[1]), msg(&[1]), msg(&[1])]),
        mk(vec![msg(&[1, 1]), msg(&[1, 1])]),
        mk(vec![msg(&[5]), msg(&[0, 2])]),
        mk(vec![msg(&[0, 0]), msg(&[0]), msg(&[0, 0, 0])]),
        // commands the library does not know: the stream reports an error at that item
        mk(vec![ItemSpec::OtherCommand { name: "ERROR".into(), body: vec![2, b'n', b'o'] }]),
        mk(vec![msg(&[1]), ItemSpec::OtherCommand { name: "X".into(), body: vec![] }, msg(&[1])]),
        mk(vec![msg(&[2, 1]), ItemSpec::OtherCommand { name: "PING".into(), body: vec![0, 1] }]),
        // non-canonical but legal long sizes for short frames
        mk(vec![ItemSpec::MessageLongSizes(vec![fs(1)])]),
        mk(vec![ItemSpec::MessageLongSizes(vec![fs(0)]), msg(&[1])]),
        mk(vec![msg(&[1]), ItemSpec::MessageLongSizes(vec![fs(3)])]),
        // READY with no properties at all: 04 06 05 R E A D Y
        mk(vec![ItemSpec::OtherCommand { name: "READY".into(), body: vec![] }]),
        mk(vec![ItemSpec::OtherCommand { name: "READY".into(), body: vec![] }, msg(&[3])]),
        mk(vec![msg(&[1]), ItemSpec::OtherCommand { name: "READY".into(), body: vec![] }, msg(&[0])]),
        // READY with one tiny property: name "a", value "b"  (04 0d 05 READY 01 a 00000001 b = 15 bytes)
        mk(vec![ItemSpec::OtherCommand { name: "READY".into(), body: vec![1, b'a', 0, 0, 0, 1, b'b'] }]),
        // READY with an empty-valued property followed by a message
        mk(vec![ItemSpec::OtherCommand { name: "READY".into(), body: vec![1, b'k', 0, 0, 0, 0] }, msg(&[0])]),
    ];
    // truncated variants: every prefix is reached by the partition enumeration's EOF variant,
    // here some explicit mid-item ends
    for (items, t) in [
        (vec![msg(&[10])], 64 + 5),
        (vec![msg(&[1, 5])], 64 + 4),
        (vec![msg(&[0, 0, 3])], 64 + 5),
        (vec![ItemSpec::MessageLongSizes(vec![fs(4)])], 64 + 6),
        (vec![msg(&[1]), msg(&[6])], 64 + 3),
        (vec![ItemSpec::OtherCommand { name: "READY".into(), body: vec![1, b'a', 0, 0, 0, 1, b'b'] }], 64 + 9),
    ] {
        v.push(StreamSpec {
            greeting: true,
            items,
            truncate: Some(t),
        });
    }
    v
}

/// Medium streams (up to ~400 bytes) for the every-cut / every-pair-of-cuts enumeration.
pub fn catalogue_medium() -> Vec<StreamSpec> {
    let mk = |items: Vec<ItemSpec>| StreamSpec {
        greeting: true,
        items,
        truncate: None,
    };
    vec![
        mk(vec![ready(&[]), msg(&[5])]),
        mk(vec![ready(&[("Identity", 10)]), msg(&[0, 3])]),
        mk(vec![ready(&[("Identity", 3), ("X-a", 0), ("Resource", 20)]), msg(&[1]), msg(&[2, 2])]),
        mk(vec![ready(&[("Identity", 200)]), msg(&[0])]), // long command (body > 255)
        mk(vec![ready(&[]), msg(&[255]), msg(&[1])]),
        mk(vec![ready(&[]), msg(&[256])]),
        mk(vec![ready(&[]), msg(&[0, 256, 0])]),
        mk(vec![ready(&[]), msg(&[1, 1, 1, 1, 1, 1]), ready(&[("k", 1)]), msg(&[7])]),
        mk(vec![ready(&[]), msg(&[100, 100]), ItemSpec::OtherCommand { name: "ERROR".into(), body: vec![1, b'x'] }, msg(&[1])]),
        mk(vec![ready(&[]), ItemSpec::MessageLongSizes(vec![fs(5), fs(0), fs(9)]), msg(&[2])]),
        mk(vec![ready(&[("a", 1), ("b", 2), ("c", 3), ("d", 4)]), msg(&[0]), msg(&[0]), msg(&[0, 0])]),
        mk(vec![msg(&[3]), msg(&[3, 3])]), // no READY at all
        // many frames / many items in few bytes: one read holds dozens of decode steps
        mk(vec![ready(&[]), msg(&[0; 31]), msg(&[1])]),
        mk(vec![ready(&[]), msg(&[1; 33])]),
        mk(vec![ready(&[]), msg(&[0; 64]), msg(&[1, 0])]),
        mk(vec![ready(&[]), msg(&[0; 130])]),
        mk((0..45).map(|i| if i == 0 { ready(&[]) } else { msg(&[i % 2]) }).collect()),
        StreamSpec { greeting: true, items: vec![ready(&[]), msg(&[40, 40])], truncate: Some(64 + 26 + 50) },
        StreamSpec { greeting: true, items: vec![ready(&[]), msg(&[300])], truncate: Some(64 + 26 + 5) },
    ]
}

pub fn gen_item(src: &mut Src<'_>, max_exp: usize) -> ItemSpec {
    match src.weighted(&[10, 3, 1, 1]) {
        0 => {
            // mostly a handful of frames; sometimes dozens or hundreds of small ones (work per
            // decode call / per read then depends on how the bytes are segmented)
            let many = src.weighted(&[12, 2, 1]);
            let n = match many {
                0 => src.range(1, 6),
                1 => src.range(7, 70),
                _ => src.range(71, 400),
            };
            let frames = (0..n)
                .map(|_| {
                    let len = match if many == 0 { src.weighted(&[5, 3, 2, 1]) } else { src.weighted(&[8, 1]) } {
                        0 => src.range(0, 3),
                        1 => src.range(4, 300),
                        2 => src.pick(&[254usize, 255, 256, 257, 8190, 8191, 8192, 8193, 16384, 65535, 65536, 65537]),
                        _ => {
                            let e = src.range(8, max_exp);
                            (1usize << e) / 2 + src.below((1usize << e) / 2)
                        }
                    };
                    FrameSpec { len, fill: gen_fill(src) }
                })
                .collect();
            ItemSpec::Message(frames)
        }
        1 => {
            let n = src.range(0, 4);
            let extra = (0..n)
                .map(|_| {
                    let k = src.pick(&["Identity", "X-a", "Resource", "x", "Socket-Type"]).to_string();
                    let l = src.pick(&[0usize, 1, 5, 100, 220, 255, 256, 1000]);
                    (k, l, src.next() as u32)
                })
                .collect();
            ItemSpec::Ready {
                socket_type: src.pick(&["REQ", "DEALER", "SUB", "", "weird"]).to_string(),
                extra,
            }
        }
        2 => ItemSpec::OtherCommand {
            name: src.pick(&["ERROR", "PING", "X", "SUBSCRIBE"]).to_string(),
            body: fill(src.next() as u32, src.range(0, 20)),
        },
        _ => {
            let n = src.range(1, 3);
            ItemSpec::MessageLongSizes((0..n).map(|_| FrameSpec { len: src.range(0, 300), fill: gen_fill(src) }).collect())
        }
    }
}

pub fn gen_stream(src: &mut Src<'_>, max_items: usize, max_exp: usize) -> StreamSpec {
    let n = src.range(1, max_items);
    let items: Vec<ItemSpec> = (0..n).map(|_| gen_item(src, max_exp)).collect();
    let mut s = StreamSpec {
        greeting: true,
        items,
        truncate: None,
    };
    if src.chance(1, 4) {
        let len = s.encode().len();
        s.truncate = Some(src.below(len + 1));
    }
    s
}
