//! C13 — a SUB socket's subscriptions reach every peer, including late joiners.

use crate::core::*;
use crate::fail;
use crate::pipe::Window;
use crate::props::parse_case;
use crate::refcodec;
use crate::sim::{run_sim, Kind, Link, Out, Sim};

use serde::{Deserialize, Serialize};
use serde_json::{json, Value};
use std::collections::{BTreeMap, BTreeSet};

pub const TOPICS: [&str; 4] = ["a", "ab", "b", ""];
/// topic #i: the four short ones, then (random part and one enumerated family) topics whose
/// subscription message sits at the short/long frame boundary (253..256 bytes) and a long one
pub const N_TOPICS: u8 = 9;
pub fn topic_str(i: u8) -> String {
    match i {
        0..=3 => TOPICS[i as usize].to_string(),
        4 => "q".repeat(253),
        5 => "q".repeat(254),
        6 => "q".repeat(255),
        7 => "q".repeat(256),
        _ => "w".repeat(70_000),
    }
}

/// bytes a SUB socket without identity writes for greeting + READY
pub const SUB_HANDSHAKE_LEN: usize = 64 + 2 + 6 + 1 + 11 + 4 + 3;

#[derive(Debug, Clone, Serialize, Deserialize, PartialEq, Eq, Hash)]
pub enum Op {
    Sub(u8),
    Unsub(u8),
    /// a raw PUB/XPUB peer starts joining; `stall`: its connection accepts only the
    /// library's handshake plus this many bytes until released (None = never stalls)
    Join {
        xpub: bool,
        stall: Option<usize>,
        /// the peer announces a fixed identity (so that it can come back under it)
        #[serde(default)]
        ident: bool,
    },
    /// open the write window of joiner #j (index among joiners)
    Release(usize),
    /// one poll of a runnable actor
    Step(u16),
    Settle,
    /// peer #j's connection breaks (writes fail from now on)
    Break(usize),
    /// peer #j (one that announced a fixed identity) dies silently - the SUB, which is not
    /// reading, does not notice - and a new connection announcing the same identity joins. From
    /// then on that peer is the new connection.
    Rejoin(usize),
}

#[derive(Debug, Clone, Serialize, Deserialize, PartialEq, Eq, Hash)]
pub struct SubCase {
    pub initial_peers: usize,
    pub ops: Vec<Op>,
}

struct PeerRt {
    link: Link,
    attach: usize,
    broken: bool,
    /// a subscribe/unsubscribe call ran (started or finished) while this peer's join was in flight
    join_overlapped_call: bool,
    joined: bool,
    stalled: bool,
    identity: Option<Vec<u8>>,
    xpub: bool,
}

/// fold a peer's wire into per-topic counts the way a publisher does
fn fold(link: &Link) -> Result<BTreeMap<Vec<u8>, i64>, String> {
    let msgs = link.lib_messages_prefix()?.0;
    let mut m: BTreeMap<Vec<u8>, i64> = BTreeMap::new();
    for msg in msgs {
        if msg.len() != 1 || msg[0].is_empty() || msg[0][0] > 1 {
            return Err(format!("SUB wrote something that is not a subscription message: frame lengths {:?}", msg.iter().map(|f| f.len()).collect::<Vec<_>>()));
        }
        let topic = msg[0][1..].to_vec();
        let e = m.entry(topic).or_insert(0);
        if msg[0][0] == 1 {
            *e += 1;
        } else if *e > 0 {
            *e -= 1;
        }
    }
    Ok(m)
}

pub fn sub_outcome(c: &SubCase) -> Outcome {
    let mut o = Outcome::new(hash_of(c));
    let c2 = c.clone();
    let (r, panics) = capture_panics(|| {
        run_sim(async move {
            let c = c2;
            let mut f: Vec<Failure> = vec![];
            let mut classes: Vec<String> = vec![];
            let mut sim = Sim::new();
            let s = sim.socket(Kind::Sub, None);
            let mut peers: Vec<PeerRt> = vec![];
            for i in 0..c.initial_peers {
                let l = sim.link();
                // every other early peer announces a fixed identity
                let identity = if i % 2 == 0 { Some(format!("pub-{}", i).into_bytes()) } else { None };
                // ... and half of the others announce an EMPTY Identity (what every libzmq socket
                // does by default): such peers must not share one registration
                let announced: Option<&[u8]> = if identity.is_none() && i % 4 == 1 { Some(&[][..]) } else { identity.as_deref() };
                if identity.is_none() && i % 4 == 1 {
                    classes.push("peer-announces-an-empty-identity".into());
                }
                l.raw_handshake("PUB", announced);
                let a = sim.attach(s, &l);
                peers.push(PeerRt { link: l, attach: a, broken: false, join_overlapped_call: false, joined: false, stalled: false, identity, xpub: false });
            }
            let mut replaced: Vec<Link> = vec![];
            let mut call_errors: Vec<String> = vec![];
            if sim.settle().await.is_err() {
                fail!(f, "C13/spin", "setup");
                return (f, classes);
            }
            // API history: set semantics and whether set == counting semantics per topic
            let mut set: BTreeSet<u8> = BTreeSet::new();
            let coincide = [true; N_TOPICS as usize];
            let mut call: Option<usize> = None;
            let mut any_sub_before_join = false;
            let mut repeated_topic = false;

            macro_rules! track {
                () => {{
                    for p in peers.iter_mut() {
                        if !p.joined && sim.done(p.attach) {
                            p.joined = true;
                        }
                    }
                    if let Some(a) = call {
                        if sim.done(a) {
                            // a call may only fail when a connection's writes fail
                            if let Some(e) = sim.out(a).and_then(|o| o.err_text().map(|s| s.to_string())) {
                                if !peers.iter().any(|p| p.broken) && replaced.is_empty() {
                                    call_errors.push(e);
                                }
                            }
                            call = None;
                        }
                    }
                }};
            }
            macro_rules! finish_call {
                () => {{
                    // a call in flight must complete before the next one (&mut self); if it is
                    // stuck on a stalled connection, release everything
                    if call.is_some() {
                        let _ = sim.settle().await;
                        track!();
                        if call.is_some() {
                            for p in peers.iter_mut() {
                                if p.stalled {
                                    p.link.from_lib.set_window(Window::Open);
                                    p.stalled = false;
                                }
                            }
                            let _ = sim.settle().await;
                            track!();
                        }
                        if let Some(a) = call {
                            fail!(f, "C13/call-hangs", "a subscribe/unsubscribe call does not complete with all connections writable: polls {}", sim.polls(a));
                            return (f, classes);
                        }
                    }
                }};
            }

            for op in &c.ops {
                match op {
                    Op::Sub(t) | Op::Unsub(t) => {
                        finish_call!();
                        let t = *t % N_TOPICS;
                        let on = matches!(op, Op::Sub(_));
                        if on {
                            if set.contains(&t) {
                                // the socket keeps a SET (and announces set changes only), so a
                                // repeated subscribe changes nothing and is not announced again
                                repeated_topic = true;
                            }
                            set.insert(t);
                            any_sub_before_join = true;
                        } else {
                            set.remove(&t);
                        }
                        for p in peers.iter_mut() {
                            if !p.joined && !sim.done(p.attach) {
                                p.join_overlapped_call = true;
                            }
                        }
                        if t >= 4 {
                            classes.push("boundary-length-topic".into());
                        }
                        let a = sim.subscribe(s, &topic_str(t), on);
                        call = Some(a);
                        sim.poll(a);
                    }
                    Op::Rejoin(j) => {
                        finish_call!();
                        let cands: Vec<usize> = (0..peers.len()).filter(|j| peers[*j].identity.is_some() && peers[*j].joined && !peers[*j].stalled && !peers[*j].broken).collect();
                        if cands.is_empty() {
                            continue;
                        }
                        let j = cands[*j % cands.len()];
                        // the old connection is dead, but nothing tells the socket
                        peers[j].link.from_lib.break_writer(std::io::ErrorKind::ConnectionReset);
                        let l = sim.link();
                        l.raw_handshake(if peers[j].xpub { "XPUB" } else { "PUB" }, peers[j].identity.as_deref());
                        let a = sim.attach(s, &l);
                        let old = std::mem::replace(&mut peers[j].link, l);
                        replaced.push(old);
                        peers[j].attach = a;
                        peers[j].joined = false;
                        peers[j].join_overlapped_call = false;
                        classes.push("peer-comes-back-under-its-identity".into());
                    }
                    Op::Join { xpub, stall, ident } => {
                        if peers.len() >= 6 {
                            continue;
                        }
                        let l = sim.link();
                        let identity = if *ident { Some(format!("pub-{}", peers.len()).into_bytes()) } else { None };
                        let empty = identity.is_none() && peers.len() % 2 == 1;
                        if empty {
                            classes.push("peer-announces-an-empty-identity".into());
                        }
                        l.raw_handshake(if *xpub { "XPUB" } else { "PUB" }, if empty { Some(&[][..]) } else { identity.as_deref() });
                        let mut stalled = false;
                        if let Some(k) = stall {
                            l.from_lib.set_window(Window::Budget(SUB_HANDSHAKE_LEN + *k));
                            stalled = true;
                        }
                        let a = sim.attach(s, &l);
                        if any_sub_before_join {
                            classes.push("join-after-subscribe".into());
                        }
                        peers.push(PeerRt { link: l, attach: a, broken: false, join_overlapped_call: call.is_some(), joined: false, stalled, identity, xpub: *xpub });
                    }
                    Op::Release(j) => {
                        let js: Vec<usize> = (c.initial_peers..peers.len()).collect();
                        if !js.is_empty() {
                            let j = js[*j % js.len()];
                            peers[j].link.from_lib.set_window(Window::Open);
                            peers[j].stalled = false;
                        }
                    }
                    Op::Step(x) => {
                        let r = sim.runnable();
                        if !r.is_empty() {
                            sim.poll(r[((*x as usize) * r.len()) >> 16]);
                        }
                    }
                    Op::Settle => {
                        if sim.settle().await.is_err() {
                            fail!(f, "C13/spin", "does not settle");
                            return (f, classes);
                        }
                    }
                    Op::Break(j) => {
                        if !peers.is_empty() {
                            let j = *j % peers.len();
                            if !peers.iter().any(|p| p.broken) {
                                peers[j].link.from_lib.break_writer(std::io::ErrorKind::BrokenPipe);
                                peers[j].broken = true;
                                classes.push("one-broken-peer".into());
                            }
                        }
                    }
                }
                track!();
            }
            // quiescence
            for p in peers.iter_mut() {
                if p.stalled {
                    p.link.from_lib.set_window(Window::Open);
                    p.stalled = false;
                }
            }
            if sim.settle().await.is_err() {
                fail!(f, "C13/spin", "does not settle at the end");
                return (f, classes);
            }
            track!();
            if call.is_some() {
                fail!(f, "C13/call-hangs", "a subscribe/unsubscribe call never completed");
                return (f, classes);
            }
            if peers.iter().any(|p| p.join_overlapped_call) {
                classes.push("join-overlaps-a-call".into());
            }
            if repeated_topic {
                classes.push("repeated-topic".into());
            }
            // ---- oracle
            if let Some(e) = call_errors.first() {
                fail!(f, "C13/call-fails-without-a-failing-connection", "{} subscribe/unsubscribe call(s) returned an error although every connection accepts writes: {}", call_errors.len(), e);
            }
            let mut views: Vec<(usize, BTreeMap<Vec<u8>, i64>)> = vec![];
            for (j, p) in peers.iter().enumerate() {
                if p.broken {
                    continue;
                }
                match sim.out(p.attach) {
                    Some(Out::Attach(Ok(_))) => {}
                    other => {
                        fail!(f, "C13/join-failed", "healthy peer {} was not admitted: {:?}", j, other.map(|o| o.err_text().map(|s| s.to_string())));
                        continue;
                    }
                }
                match fold(&p.link) {
                    Ok(v) => views.push((j, v)),
                    Err(e) => fail!(f, "C13/wire-malformed", "peer {}: {}", j, e),
                }
            }
            let any_broken = peers.iter().any(|p| p.broken);
            for ti in 0..N_TOPICS as usize {
                let topic = topic_str(ti as u8);
                let topic = if topic.len() > 20 { format!("{}... ({} bytes)", &topic[..4], topic.len()) } else { topic };
                let tb = topic_str(ti as u8).into_bytes();
                let subscribed: Vec<(usize, bool, i64)> = views.iter().map(|(j, v)| (*j, v.get(&tb).copied().unwrap_or(0) > 0, v.get(&tb).copied().unwrap_or(0))).collect();
                let want = set.contains(&(ti as u8));
                // (i) agreement among live peers
                let yes: Vec<usize> = subscribed.iter().filter(|x| x.1).map(|x| x.0).collect();
                let no: Vec<usize> = subscribed.iter().filter(|x| !x.1).map(|x| x.0).collect();
                if !yes.is_empty() && !no.is_empty() {
                    // which side is wrong (where the API history is unambiguous)?
                    let wrong: Vec<usize> = if coincide[ti] { if want { no.clone() } else { yes.clone() } } else { vec![] };
                    let all_wrong_overlapped = !wrong.is_empty() && wrong.iter().all(|j| peers[*j].join_overlapped_call);
                    let sig = if all_wrong_overlapped {
                        "C13/join-window/concurrent-call-not-announced-to-joiner"
                    } else if any_broken {
                        "C13/broken-peer/other-peers-not-updated"
                    } else if !coincide[ti] {
                        "C13/peers-disagree/repeated-topic"
                    } else {
                        "C13/peers-disagree"
                    };
                    fail!(
                        f,
                        sig,
                        "topic {:?}: peers {:?} believe it is subscribed, peers {:?} believe it is not (API history: {}; joins overlapping a call: {:?})",
                        topic,
                        yes,
                        no,
                        if coincide[ti] { format!("subscribed={}", want) } else { "repeated subscribe, set vs count semantics differ".into() },
                        peers.iter().enumerate().filter(|(_, p)| p.join_overlapped_call).map(|x| x.0).collect::<Vec<_>>()
                    );
                    continue;
                }
                // (ii) agreed value equals the API history where unambiguous
                if coincide[ti] && !subscribed.is_empty() {
                    let agreed = !yes.is_empty();
                    if agreed != want {
                        let all_overlapped = subscribed.iter().all(|x| peers[x.0].join_overlapped_call);
                        let sig = if all_overlapped {
                            "C13/join-window/concurrent-call-not-announced-to-joiner"
                        } else if any_broken {
                            "C13/broken-peer/other-peers-not-updated"
                        } else if want {
                            "C13/subscription-not-announced"
                        } else {
                            "C13/unsubscription-not-announced"
                        };
                        fail!(f, sig, "topic {:?}: the socket's set says subscribed={}, every live peer was told the opposite", topic, want);
                    }
                    // (iii) never more than one active subscription per topic on a peer
                    for x in &subscribed {
                        if x.2 > 1 {
                            let sig = if peers[x.0].join_overlapped_call { "C13/join-window/concurrent-call-announced-twice-to-joiner" } else { "C13/duplicate-announcement" };
                            fail!(f, sig, "topic {:?}: peer {} was told {} subscriptions for one entry in the socket's set", topic, x.0, x.2);
                        }
                    }
                }
            }
            (f, classes)
        })
    });
    if let Some((f, classes)) = r {
        o.failures = f;
        let mut cl = classes;
        cl.sort();
        cl.dedup();
        o.nontrivial = cl.iter().any(|c| c == "join-after-subscribe" || c == "join-overlaps-a-call" || c == "repeated-topic");
        o.classes.extend(cl);
    }
    for p in panics {
        o.fail(format!("C13/panic/{}", panic_sig(&p)), p);
    }
    o
}

pub fn gen_sub(s: &mut Src<'_>) -> SubCase {
    let initial_peers = s.range(0, 3);
    let n = s.range(3, 24);
    let mut ops = vec![];
    let allow_break = s.chance(1, 4);
    for _ in 0..n {
        let op = match s.weighted(&[6, 4, 3, 2, 4, 2, if allow_break { 1 } else { 0 }, 1]) {
            0 => Op::Sub(if s.chance(1, 5) { s.range(4, N_TOPICS as usize - 1) } else { s.below(4) } as u8),
            1 => Op::Unsub(if s.chance(1, 5) { s.range(4, N_TOPICS as usize - 1) } else { s.below(4) } as u8),
            2 => Op::Join {
                xpub: s.bool(),
                stall: if s.chance(1, 2) { Some(s.pick(&[0usize, 0, 1, 3, 5])) } else { None },
                ident: s.bool(),
            },
            3 => Op::Release(s.below(4)),
            4 => Op::Step(s.next()),
            5 => Op::Settle,
            6 => Op::Break(s.below(6)),
            _ => Op::Rejoin(s.below(6)),
        };
        ops.push(op);
    }
    SubCase { initial_peers, ops }
}

pub fn run(ctx: &Ctx) -> (Report, PropertyMeta) {
    let mut report = Report::default();
    let t = ctx.tier;
    // targeted enumeration: every prefix position of 6-op histories, one join (plain and stalled)
    let hist: Vec<Vec<Op>> = vec![
        vec![Op::Sub(0), Op::Sub(1), Op::Unsub(0), Op::Sub(2), Op::Unsub(2), Op::Sub(3)],
        vec![Op::Sub(0), Op::Sub(0), Op::Unsub(0), Op::Sub(1), Op::Unsub(1), Op::Unsub(1)],
        vec![Op::Unsub(0), Op::Sub(2), Op::Sub(1), Op::Unsub(2), Op::Sub(2), Op::Unsub(1)],
        vec![Op::Sub(3), Op::Sub(0), Op::Unsub(3), Op::Unsub(0), Op::Sub(0), Op::Sub(1)],
        // topics whose subscription message is 254..257 / 70001 bytes long
        vec![Op::Sub(5), Op::Sub(4), Op::Unsub(5), Op::Sub(6), Op::Sub(7), Op::Sub(8)],
    ];
    let mut cases = vec![];
    for h in &hist {
        for initial in [0usize, 1, 2] {
            for pos in 0..=h.len() {
                for stall in [None, Some(0usize), Some(2)] {
                    for release_after in 0..=2usize {
                        if stall.is_none() && release_after > 0 {
                            continue;
                        }
                        let mut ops: Vec<Op> = vec![];
                        for (i, op) in h.iter().enumerate() {
                            if i == pos {
                                ops.push(Op::Join { xpub: i % 2 == 0, stall, ident: false });
                                ops.push(Op::Settle);
                            }
                            if stall.is_some() && i == pos + release_after {
                                ops.push(Op::Release(0));
                                ops.push(Op::Settle);
                            }
                            ops.push(op.clone());
                            ops.push(Op::Settle);
                        }
                        if pos == h.len() {
                            ops.push(Op::Join { xpub: false, stall, ident: false });
                            ops.push(Op::Settle);
                        }
                        cases.push(SubCase { initial_peers: initial, ops });
                    }
                }
            }
        }
    }
    // one broken peer among healthy ones
    for h in &hist {
        for broken in 0..3usize {
            for at in 0..h.len() {
                let mut ops = vec![];
                for (i, op) in h.iter().enumerate() {
                    if i == at {
                        ops.push(Op::Break(broken));
                    }
                    ops.push(op.clone());
                    ops.push(Op::Settle);
                }
                ops.push(Op::Join { xpub: false, stall: None, ident: false });
                ops.push(Op::Settle);
                cases.push(SubCase { initial_peers: 3, ops });
            }
        }
    }
    // a peer with a fixed identity comes back at every position
    for h in &hist {
        for at in 0..=h.len() {
            for initial in [1usize, 3] {
                let mut ops = vec![Op::Settle];
                for (i, op) in h.iter().enumerate() {
                    if i == at {
                        ops.push(Op::Rejoin(0));
                        ops.push(Op::Settle);
                    }
                    ops.push(op.clone());
                    ops.push(Op::Settle);
                }
                if at == h.len() {
                    ops.push(Op::Rejoin(0));
                    ops.push(Op::Settle);
                }
                cases.push(SubCase { initial_peers: initial, ops });
            }
        }
    }
    let r = run_cases(ctx, "sub", &cases, sub_outcome);
    report.exhaustive_parts.push(format!("4 six-call histories x 0..2 early peers x a join at every prefix position (plain, stalled between snapshot and registration and released 0..2 calls later) + one broken peer at every position: {} cases", cases.len()));
    report.merge(r);
    let n = t.pick(80_000, 2_000_000);
    let r = run_random(ctx, "sub", n, 40..=160, gen_sub, sub_outcome);
    report.sections.push(json!({"part": "random histories of subscribe/unsubscribe interleaved with joins (as separate actors, optionally stalled), actor steps, releases, one broken peer", "cases": n}));
    report.merge(r);

    if t == Tier::Thorough {
        crate::fuzzing::campaign(ctx, &mut report, "sim", 180);
    }
    let total = report.evaluations;
    health(&mut report, "join-after-subscribe", total, 300);
    health(&mut report, "join-overlaps-a-call", total, 50);
    health(&mut report, "repeated-topic", total, 100);
    health_abs(&mut report, "boundary-length-topic", 300);
    health_abs(&mut report, "one-broken-peer", 300);
    health_abs(&mut report, "peer-comes-back-under-its-identity", 300);
    health_abs(&mut report, "peer-announces-an-empty-identity", 300);

    let _ = refcodec::hex;
    let meta = PropertyMeta {
        level: "exploration",
        rule: "proptest histories on a real SUB socket: subscribe/unsubscribe calls over 4 short topics plus topics of 253 / 254 / 255 / 256 / 70000 bytes (repeats and never-subscribed topics included) interleaved with raw PUB/XPUB peers joining through the real handshake as separate actors, a joiner's connection optionally stalled right after the handshake so that its join is suspended between the socket reading its subscription set and registering the peer while calls run, optionally one peer whose writes fail, peers coming back under their announced identity, peers announcing an empty Identity (libzmq's default; they must not share a registration); plus a targeted enumeration of join and come-back positions. Oracle at quiescence: each live peer's wire is folded into per-topic counts the way a publisher does (+1/-1, floored); (i) all live peers agree on whether each topic is subscribed; (ii) the agreed value equals the socket's subscription SET after the API history (a repeated subscribe changes nothing) and no peer holds more than one subscription for a topic; (iii) a peer that announced a fixed identity and comes back under it while the socket has not noticed that its old connection is dead (Rejoin) is, from then on, the new connection and is held to (i)-(ii) like any other; (iv) with one broken peer every other peer is still updated and no call panics or hangs. Non-trivial = a join after a subscribe, or overlapping a call, or a repeated topic; distinct by case".into(),
        assumptions: vec![
            "joins by connect() cannot overlap a call (&mut self); only accept-path joins are generated as concurrent actors".into(),
            "interleaving at await granularity (DESIGN §2.3)".into(),
        ],
        exhaustive: false,
    };
    (report, meta)
}

pub fn replay(_ctx: &Ctx, kind: &str, case: &Value) -> Vec<Failure> {
    match kind {
        "sub" => parse_case::<SubCase>(case).map(|c| sub_outcome(&c).failures),
        _ => Err(vec![Failure::new("replay/unknown-kind", kind.to_string())]),
    }
    .unwrap_or_else(|e| e)
}
