//! Real-transport, multi-threaded stress scenarios run in a WORKER PROCESS (`vcheck --worker
//! stress ...`): a receive loop that spins inside one poll cannot be cancelled from within its
//! process, so the parent runs it with a wall-clock limit and kills it.
//!
//! Scenarios use only the library's public API on a 4-worker tokio runtime; the receiving side
//! runs either in the `block_on` body (what `#[tokio::main]` gives an application - no scheduler
//! context, tokio's cooperative-budget yields wake immediately) or in a spawned task.

use crate::core::{Ctx, Failure};
use zeromq::prelude::*;
use zeromq::util::PeerIdentity;
use zeromq::{DealerSocket, PullSocket, PushSocket, RepSocket, ReqSocket, RouterSocket, SocketOptions, ZmqMessage};

use std::convert::TryFrom;

fn tag_of(m: &ZmqMessage, idx: usize) -> Option<(usize, usize)> {
    let f = m.get(idx)?;
    let s = std::str::from_utf8(f.get(..f.iter().position(|c| *c == b'|')?)?).ok()?;
    let (a, b) = s.split_once('-')?;
    Some((a.parse().ok()?, b.parse().ok()?))
}

fn body(k: usize, i: usize, size: usize) -> bytes::Bytes {
    let mut v = format!("{}-{}|", k, i).into_bytes();
    v.extend(std::iter::repeat(b'x').take(size));
    bytes::Bytes::from(v)
}

async fn pull_scenario(k: usize, n: usize, size: usize) -> Result<(), String> {
    let mut pull = PullSocket::new();
    let ep = pull.bind("tcp://127.0.0.1:0").await.map_err(|e| format!("{:?}", e))?.to_string();
    let mut senders = vec![];
    for p in 0..k {
        let ep = ep.clone();
        senders.push(tokio::spawn(async move {
            let mut s = PushSocket::new();
            s.connect(&ep).await.unwrap();
            for i in 0..n {
                let m = ZmqMessage::try_from(vec![body(p, i, size), bytes::Bytes::new()]).unwrap();
                s.send(m).await.unwrap();
            }
            s
        }));
    }
    let mut next = vec![0usize; k];
    for _ in 0..k * n {
        let m = pull.recv().await.map_err(|e| format!("recv error: {:?}", e))?;
        let (p, i) = tag_of(&m, 0).ok_or("unattributable message")?;
        if m.len() != 2 || m.get(0).map(|f| f.len()) != Some(body(p, i, size).len()) || !m.get(1).unwrap().is_empty() {
            return Err(format!("message {}-{} arrived modified ({} frames)", p, i, m.len()));
        }
        if next[p] != i {
            return Err(format!("peer {}: received message {} while {} was next (lost, duplicated or reordered)", p, i, next[p]));
        }
        next[p] += 1;
    }
    for s in senders {
        let _ = s.await;
    }
    Ok(())
}

async fn router_scenario(k: usize, n: usize, size: usize) -> Result<(), String> {
    let mut router = RouterSocket::new();
    let ep = router.bind("tcp://127.0.0.1:0").await.map_err(|e| format!("{:?}", e))?.to_string();
    let mut senders = vec![];
    for p in 0..k {
        let ep = ep.clone();
        senders.push(tokio::spawn(async move {
            let mut o = SocketOptions::default();
            o.peer_identity(PeerIdentity::try_from(format!("dealer-{}", p).into_bytes()).unwrap());
            let mut s = DealerSocket::with_options(o);
            s.connect(&ep).await.unwrap();
            for i in 0..n {
                s.send(ZmqMessage::from(body(p, i, size))).await.unwrap();
            }
            s
        }));
    }
    let mut next = vec![0usize; k];
    for _ in 0..k * n {
        let m = router.recv().await.map_err(|e| format!("recv error: {:?}", e))?;
        let (p, i) = tag_of(&m, 1).ok_or("unattributable message")?;
        if m.get(0).map(|f| &f[..]) != Some(format!("dealer-{}", p).as_bytes()) {
            return Err(format!("message of dealer-{} labelled {:?}", p, m.get(0)));
        }
        if next[p] != i {
            return Err(format!("peer {}: received message {} while {} was next", p, i, next[p]));
        }
        next[p] += 1;
    }
    for s in senders {
        let _ = s.await;
    }
    Ok(())
}

async fn rep_scenario(k: usize, n: usize, size: usize) -> Result<(), String> {
    let mut rep = RepSocket::new();
    let ep = rep.bind("tcp://127.0.0.1:0").await.map_err(|e| format!("{:?}", e))?.to_string();
    let mut clients = vec![];
    for p in 0..k {
        let ep = ep.clone();
        clients.push(tokio::spawn(async move {
            let mut s = ReqSocket::new();
            s.connect(&ep).await.unwrap();
            for i in 0..n {
                s.send(ZmqMessage::from(body(p, i, size))).await.map_err(|e| format!("client {} send: {:?}", p, e))?;
                let r = s.recv().await.map_err(|e| format!("client {} recv: {:?}", p, e))?;
                match tag_of(&r, 0) {
                    Some((rp, ri)) if rp == p && ri == i && r.len() == 2 => {}
                    other => return Err(format!("client {} request {}: got the reply {:?} ({} frames)", p, i, other, r.len())),
                }
            }
            Ok::<(), String>(())
        }));
    }
    for _ in 0..k * n {
        let mut m = rep.recv().await.map_err(|e| format!("REP recv: {:?}", e))?;
        m.push_back(bytes::Bytes::from_static(b"echo"));
        rep.send(m).await.map_err(|e| format!("REP send: {:?}", e))?;
    }
    for c in clients {
        c.await.map_err(|e| format!("{:?}", e))??;
    }
    Ok(())
}

/// `vcheck --worker stress <scenario> <mode> <k> <n> <size>`; exit 0 = ok, 3 = oracle failed
pub fn worker(args: &[String]) -> i32 {
    let get = |i: usize| args.get(i).cloned().unwrap_or_default();
    let scenario = get(0);
    let mode = get(1);
    let k: usize = get(2).parse().unwrap_or(3);
    let n: usize = get(3).parse().unwrap_or(100);
    let size: usize = get(4).parse().unwrap_or(10);
    let rt = tokio::runtime::Builder::new_multi_thread().worker_threads(4).enable_all().build().expect("runtime");
    let fut = async move {
        match scenario.as_str() {
            "pull" => pull_scenario(k, n, size).await,
            "router" => router_scenario(k, n, size).await,
            "rep" => rep_scenario(k, n, size).await,
            _ => Err("unknown scenario".to_string()),
        }
    };
    let res = if mode == "block_on" {
        rt.block_on(fut)
    } else {
        rt.block_on(async move { tokio::spawn(fut).await.unwrap_or_else(|e| Err(format!("task failed: {:?}", e))) })
    };
    match res {
        Ok(()) => {
            println!("STRESS-OK");
            0
        }
        Err(e) => {
            println!("STRESS-FAILED {}", e);
            3
        }
    }
}

#[derive(Debug, Clone, serde::Serialize, serde::Deserialize)]
pub struct StressCase {
    pub scenario: String,
    pub mode: String,
    pub k: usize,
    pub n: usize,
    pub size: usize,
}

/// Parent side: run one scenario in a worker process with a wall-clock limit.
/// Returns (failure if any, inconclusive note if any).
pub fn run(_ctx: &Ctx, c: &StressCase, limit_s: u64, prop: &str) -> (Option<Failure>, Option<String>) {
    let exe = match std::env::current_exe() {
        Ok(e) => e,
        Err(e) => return (None, Some(format!("cannot find own executable: {}", e))),
    };
    let mut child = match std::process::Command::new(exe)
        .args(["--worker", "stress", &c.scenario, &c.mode, &c.k.to_string(), &c.n.to_string(), &c.size.to_string()])
        .stdout(std::process::Stdio::piped())
        .stderr(std::process::Stdio::null())
        .spawn()
    {
        Ok(c) => c,
        Err(e) => return (None, Some(format!("cannot start worker: {}", e))),
    };
    let start = std::time::Instant::now();
    loop {
        match child.try_wait() {
            Ok(Some(st)) => {
                let mut out = String::new();
                if let Some(mut o) = child.stdout.take() {
                    use std::io::Read;
                    let _ = o.read_to_string(&mut out);
                }
                return match st.code() {
                    Some(0) => (None, None),
                    Some(3) => {
                        let msg = out.lines().find(|l| l.starts_with("STRESS-FAILED")).unwrap_or("").to_string();
                        (Some(Failure::new(format!("{}/real/{}/{}", prop, c.scenario, "messages-lost-duplicated-reordered-or-misrouted"), format!("{:?}: {}", c, msg))), None)
                    }
                    other => (Some(Failure::new(format!("{}/real/{}/worker-crashed", prop, c.scenario), format!("{:?}: worker ended with {:?}", c, other))), None),
                };
            }
            Ok(None) => {
                if start.elapsed().as_secs() > limit_s {
                    // busy or blocked? a spinning receive loop burns CPU
                    let cpu = cpu_seconds(child.id());
                    let _ = child.kill();
                    let _ = child.wait();
                    let busy = cpu.map(|c| c > (limit_s as f64) * 0.5).unwrap_or(false);
                    let sig = if busy { "recv-loop-spins" } else { "recv-never-completes" };
                    return (
                        Some(Failure::new(
                            format!("{}/real/{}/{}", prop, c.scenario, sig),
                            format!("{:?}: the scenario (typically well under a second) did not finish within {} s; the worker had used {:?} s of CPU", c, limit_s, cpu),
                        )),
                        None,
                    );
                }
                std::thread::sleep(std::time::Duration::from_millis(20));
            }
            Err(e) => return (None, Some(format!("wait failed: {}", e))),
        }
    }
}

fn cpu_seconds(pid: u32) -> Option<f64> {
    let s = std::fs::read_to_string(format!("/proc/{}/stat", pid)).ok()?;
    let rest = s.rsplit_once(')')?.1;
    let f: Vec<&str> = rest.split_whitespace().collect();
    let ut: f64 = f.get(11)?.parse().ok()?;
    let st: f64 = f.get(12)?.parse().ok()?;
    Some((ut + st) / 100.0)
}


/// Run a list of scenarios on behalf of property `prop`, recording them in `report`.
pub fn run_all(ctx: &Ctx, report: &mut crate::core::Report, prop: &str, cases: &[StressCase], limit_s: u64) {
    for c in cases {
        if crate::core::enough_violations() {
            break;
        }
        crate::crumb::case("stress", c);
        let (fail, note) = run(ctx, c, limit_s, prop);
        let mut o = crate::core::Outcome::new(crate::core::hash_of(&(prop, &c.scenario, &c.mode, c.k, c.n, c.size)));
        o.nontrivial = true;
        o.class("real-transport-multi-thread-stress");
        if let Some(f) = fail {
            o.failures.push(f);
        }
        if let Some(n) = note {
            report.notes.push(format!("stress {:?}: inconclusive: {}", c, n));
        }
        if report.samples.iter().filter(|s| s.get("kind").and_then(|k| k.as_str()) == Some("stress")).count() < 1 {
            report.sample(serde_json::json!({"kind": "stress", "case": c}));
        }
        if let Some(f) = report.record(ctx, &o) {
            report.violation(ctx, "stress", &f, serde_json::to_value(c).unwrap());
        }
    }
    report.sections.push(serde_json::json!({"part": "real TCP, 4-worker tokio runtime, library sockets on both sides, receiver in the block_on body and in a spawned task; run in a worker process under a wall-clock limit", "scenarios": cases.len()}));
    crate::crumb::clear();
}

pub fn replay(ctx: &Ctx, prop: &str, case: &serde_json::Value) -> Vec<Failure> {
    match serde_json::from_value::<StressCase>(case.clone()) {
        Ok(c) => run(ctx, &c, 60, prop).0.into_iter().collect(),
        Err(e) => vec![Failure::new("replay/bad-case", e.to_string())],
    }
}

pub fn sc(scenario: &str, mode: &str, k: usize, n: usize, size: usize) -> StressCase {
    StressCase { scenario: scenario.into(), mode: mode.into(), k, n, size }
}
