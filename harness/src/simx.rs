//! Higher-level simulation helpers shared by several properties.

use crate::sim::{Frames, Kind, Link, Out, Sim, SockId};

/// Attach a well-behaved raw peer of a compatible type and run the handshake to completion.
pub async fn attach_raw(sim: &mut Sim, s: SockId, identity: Option<&[u8]>) -> Result<(Link, Vec<u8>), String> {
    let kind = sim.kind(s);
    let link = sim.link();
    link.raw_handshake(kind.a_compatible_peer(), identity);
    let a = sim.attach(s, &link);
    match sim.run(a).await {
        Ok(Some(Out::Attach(Ok(id)))) => Ok((link, id)),
        Ok(other) => Err(format!("handshake with a well-behaved {} peer failed: {:?}", kind.a_compatible_peer(), other.map(|o| o.err_text().map(|s| s.to_string())))),
        Err(e) => Err(format!("socket did not settle during handshake: {:?}", e)),
    }
}

/// A fresh well-behaved peer joins the socket and exchanges one tagged message in the
/// direction(s) the socket type supports. `skip_send` skips the outbound half (REQ whose
/// rotation may legitimately be parked on another peer).
pub async fn healthy_roundtrip(sim: &mut Sim, s: SockId, tag: &[u8], skip_send: bool) -> Result<(), String> {
    let (link, id) = attach_raw(sim, s, None).await?;
    roundtrip_on(sim, s, &link, &id, tag, skip_send).await
}

/// The same exchange on a connection that is already established (`link`, registered as `id`,
/// with no application traffic on its wire so far).
pub async fn roundtrip_on(sim: &mut Sim, s: SockId, link: &Link, id: &[u8], tag: &[u8], skip_send: bool) -> Result<(), String> {
    let kind = sim.kind(s);
    let id = id.to_vec();
    let tagv = tag.to_vec();
    // inbound
    if kind.fair_queue_recv() {
        let wire: Frames = match kind {
            Kind::Rep => vec![vec![], tagv.clone()],
            Kind::XPub => {
                let mut t = vec![1u8];
                t.extend_from_slice(tag);
                vec![t]
            }
            _ => vec![tagv.clone()],
        };
        let expect_tail: Frames = match kind {
            Kind::Rep => vec![tagv.clone()],
            _ => wire.clone(),
        };
        link.raw_send_now(&wire);
        let mut got = false;
        let mut seen = vec![];
        for _ in 0..8 {
            let r = sim.recv(s);
            match sim.run(r).await {
                Ok(Some(Out::Recv(Ok(m)))) => {
                    let body: Frames = if kind == Kind::Router { m.get(1..).map(|x| x.to_vec()).unwrap_or_default() } else { m.clone() };
                    if body == expect_tail {
                        if kind == Kind::Router && m[0] != id {
                            return Err("ROUTER labelled the healthy peer's message with another identity".into());
                        }
                        got = true;
                        break;
                    }
                    seen.push(format!("msg{:?}", m.iter().map(|f| f.len()).collect::<Vec<_>>()));
                }
                Ok(Some(Out::Recv(Err(e)))) => seen.push(format!("err({})", e.text.chars().take(60).collect::<String>())),
                Ok(Some(_)) => unreachable!(),
                Ok(None) => {
                    sim.cancel(r);
                    seen.push("pending".into());
                    break;
                }
                Err(e) => return Err(format!("recv did not settle: {:?}", e)),
            }
        }
        if !got {
            return Err(format!("a healthy peer's message was not delivered within 8 recv calls (saw {:?})", seen));
        }
        if kind == Kind::Rep {
            let a = sim.send(s, &[b"reply".to_vec()]);
            match sim.run(a).await {
                Ok(Some(Out::Send(Ok(())))) => {}
                other => return Err(format!("REP could not reply to the healthy peer: {:?}", other)),
            }
            let msgs = link.lib_messages().map_err(|e| format!("healthy peer's wire: {}", e))?;
            if msgs != vec![vec![vec![], b"reply".to_vec()]] {
                return Err(format!("REP reply on the healthy peer's wire: {:?}", msgs));
            }
        }
    }
    // outbound
    if kind.can_send() && kind != Kind::Rep && !skip_send {
        if matches!(kind, Kind::Pub | Kind::XPub) {
            link.raw_send_now(&[vec![1u8]]);
            sim.settle().await.map_err(|e| format!("{:?}", e))?;
            if kind == Kind::XPub {
                // the subscription is processed by recv
                for _ in 0..4 {
                    let r = sim.recv(s);
                    match sim.run(r).await {
                        Ok(Some(Out::Recv(Ok(m)))) if m == vec![vec![1u8]] => break,
                        Ok(None) => {
                            sim.cancel(r);
                            break;
                        }
                        _ => {}
                    }
                }
            }
        }
        let before = link.lib_messages_prefix().map(|x| x.0.len()).unwrap_or(0);
        let mut delivered = false;
        let mut notes = vec![];
        for i in 0..6 {
            let m: Frames = match kind {
                Kind::Router => vec![id.clone(), tagv.clone()],
                _ => vec![tagv.clone()],
            };
            let a = sim.send(s, &m);
            match sim.run(a).await {
                Ok(Some(Out::Send(r))) => {
                    if let Err(e) = r {
                        notes.push(format!("send{}: {}", i, e.text.chars().take(60).collect::<String>()));
                    }
                }
                Ok(Some(_)) => unreachable!(),
                Ok(None) => {
                    sim.cancel(a);
                    notes.push(format!("send{}: pending", i));
                }
                Err(e) => return Err(format!("send did not settle: {:?}", e)),
            }
            let now = link.lib_messages_prefix().map(|x| x.0.len()).unwrap_or(0);
            if now > before {
                delivered = true;
                break;
            }
            if kind == Kind::Req {
                break;
            }
        }
        if !delivered {
            return Err(format!("no message reached a healthy peer within 6 sends ({:?})", notes));
        }
    }
    Ok(())
}

/// Call recv repeatedly until it stays pending (then cancel it) or `max` results were seen.
pub async fn recv_until_pending(sim: &mut Sim, s: SockId, max: usize) -> Result<Vec<Result<Frames, String>>, String> {
    let mut out = vec![];
    for _ in 0..max {
        let r = sim.recv(s);
        match sim.run(r).await {
            Ok(Some(Out::Recv(Ok(m)))) => out.push(Ok(m)),
            Ok(Some(Out::Recv(Err(e)))) => out.push(Err(e.text)),
            Ok(Some(_)) => unreachable!(),
            Ok(None) => {
                sim.cancel(r);
                return Ok(out);
            }
            Err(e) => return Err(format!("{:?}", e)),
        }
    }
    Ok(out)
}

/// Behavioural check that an admitted peer (already attached over `link`, registered as `id`)
/// is registered exactly once: inbound messages are each delivered once, outbound traffic
/// reaches it exactly as often as the socket type's distribution rule says. `other` is a second
/// healthy peer of the same socket (attached by the caller) used for rotation checks.
pub async fn registered_exactly_once(sim: &mut Sim, s: SockId, link: &Link, id: &[u8], other: Option<(&Link, &[u8])>) -> Result<(), String> {
    let kind = sim.kind(s);
    let base = link.lib_messages_prefix().map(|x| x.0.len()).map_err(|e| format!("peer wire: {}", e))?;
    let obase = match other {
        Some((ol, _)) => ol.lib_messages_prefix().map(|x| x.0.len()).map_err(|e| format!("other peer wire: {}", e))?,
        None => 0,
    };
    // ---- inbound: two tagged messages, each must come out exactly once
    if kind.fair_queue_recv() {
        let wires: Vec<Frames> = (0..2)
            .map(|i| {
                let t = format!("in-{}", i).into_bytes();
                match kind {
                    Kind::Rep => vec![vec![], t],
                    Kind::XPub => {
                        let mut f = vec![1u8];
                        f.extend_from_slice(&t);
                        vec![f]
                    }
                    _ => vec![t],
                }
            })
            .collect();
        let mut got: Vec<Frames> = vec![];
        if kind == Kind::Rep {
            // lock-step: request, reply, request, reply
            for w in &wires {
                link.raw_send_now(w);
                let res = recv_until_pending(sim, s, 4).await?;
                for r in res {
                    got.push(r.map_err(|e| format!("recv error {}", e))?);
                }
                let a = sim.send(s, &[b"rep".to_vec()]);
                match sim.run(a).await {
                    Ok(Some(Out::Send(Ok(())))) => {}
                    o => return Err(format!("REP reply failed: {:?}", o)),
                }
            }
            let msgs = link.lib_messages().map_err(|e| format!("peer wire: {}", e))?;
            if msgs.len() != base + 2 || msgs[base..].iter().any(|m| m != &vec![vec![], b"rep".to_vec()]) {
                return Err(format!("REP replies on the requesting connection: {} messages (expected 2 replies)", msgs.len() - base));
            }
            if let Some((ol, _)) = other {
                let n = ol.lib_messages_prefix().map(|x| x.0.len()).unwrap_or(0);
                if n != obase {
                    return Err("a REP reply went to a connection that did not send the request".into());
                }
            }
        } else {
            for w in &wires {
                link.raw_send_now(w);
            }
            let res = recv_until_pending(sim, s, 6).await?;
            for r in res {
                got.push(r.map_err(|e| format!("recv error {}", e))?);
            }
        }
        let want: Vec<Frames> = wires
            .iter()
            .map(|w| match kind {
                Kind::Rep => w[1..].to_vec(),
                Kind::Router => {
                    let mut m = vec![id.to_vec()];
                    m.extend(w.clone());
                    m
                }
                _ => w.clone(),
            })
            .collect();
        if got != want {
            return Err(format!(
                "inbound: peer sent 2 messages, recv returned {} results {:?}",
                got.len(),
                got.iter().map(|m| m.iter().map(|f| String::from_utf8_lossy(f).chars().take(12).collect::<String>()).collect::<Vec<_>>()).collect::<Vec<_>>()
            ));
        }
    }
    // ---- outbound
    match kind {
        Kind::Push | Kind::Dealer => {
            let n_peers = if other.is_some() { 2 } else { 1 };
            for i in 0..4 {
                let a = sim.send(s, &[format!("out-{}", i).into_bytes()]);
                match sim.run(a).await {
                    Ok(Some(Out::Send(Ok(())))) => {}
                    o => return Err(format!("send {} failed: {:?}", i, o)),
                }
            }
            let mine = link.lib_messages().map_err(|e| format!("peer wire: {}", e))?.len() - base;
            let theirs = match other {
                Some((ol, _)) => ol.lib_messages().map_err(|e| format!("other wire: {}", e))?.len() - obase,
                None => 0,
            };
            if mine != 4 / n_peers || theirs != 4 - 4 / n_peers {
                return Err(format!("4 sends over {} peers: this peer got {}, the other {} (each registered once means an even rotation)", n_peers, mine, theirs));
            }
        }
        Kind::Req => {
            // 2 requests per peer; every request is answered by whoever got it
            let links: Vec<&Link> = match other {
                Some((ol, _)) => vec![link, ol],
                None => vec![link],
            };
            let mut counts = vec![0usize; links.len()];
            let mut seen: Vec<usize> = links.iter().map(|l| l.lib_messages_prefix().map(|x| x.0.len()).unwrap_or(0)).collect();
            for i in 0..2 * links.len() {
                let a = sim.send(s, &[format!("q-{}", i).into_bytes()]);
                match sim.run(a).await {
                    Ok(Some(Out::Send(Ok(())))) => {}
                    o => return Err(format!("REQ send {} failed: {:?}", i, o)),
                }
                let mut who = None;
                for (j, l) in links.iter().enumerate() {
                    let n = l.lib_messages_prefix().map(|x| x.0.len()).unwrap_or(0);
                    if n > seen[j] {
                        seen[j] = n;
                        counts[j] += 1;
                        who = Some(j);
                    }
                }
                let Some(j) = who else { return Err(format!("REQ request {} reached no peer", i)) };
                links[j].raw_send_now(&[vec![], format!("a-{}", i).into_bytes()]);
                let r = sim.recv(s);
                match sim.run(r).await {
                    Ok(Some(Out::Recv(Ok(m)))) if m == vec![format!("a-{}", i).into_bytes()] => {}
                    o => return Err(format!("REQ reply {} not returned: {:?}", i, o)),
                }
            }
            if counts.iter().any(|c| *c != 2) {
                return Err(format!("REQ rotation over {} peers delivered {:?} requests per peer (expected 2 each)", links.len(), counts));
            }
        }
        Kind::Router => {
            let a = sim.send(s, &[id.to_vec(), b"routed".to_vec()]);
            match sim.run(a).await {
                Ok(Some(Out::Send(Ok(())))) => {}
                o => return Err(format!("ROUTER send to the peer's identity failed: {:?}", o)),
            }
            let msgs = link.lib_messages().map_err(|e| format!("peer wire: {}", e))?;
            if msgs.len() != base + 1 || msgs[base] != vec![b"routed".to_vec()] {
                return Err(format!("ROUTER send to the identity: peer's wire has {} new messages", msgs.len() - base));
            }
            if let Some((ol, _)) = other {
                if ol.lib_messages_prefix().map(|x| x.0.len()).unwrap_or(0) != obase {
                    return Err("ROUTER send also reached another peer".into());
                }
            }
        }
        Kind::Pub | Kind::XPub => {
            // subscribe (this peer only), then publish: exactly one copy here, none elsewhere
            link.raw_send_now(&[vec![1u8, b't']]);
            sim.settle().await.map_err(|e| format!("{:?}", e))?;
            if kind == Kind::XPub {
                let res = recv_until_pending(sim, s, 4).await?;
                if res.len() != 1 || res[0] != Ok(vec![vec![1u8, b't']]) {
                    return Err(format!("XPUB recv of one subscription returned {} results", res.len()));
                }
            }
            let a = sim.send(s, &[b"topic".to_vec(), b"body".to_vec()]);
            match sim.run(a).await {
                Ok(Some(Out::Send(Ok(())))) => {}
                o => return Err(format!("publish failed: {:?}", o)),
            }
            let msgs = link.lib_messages().map_err(|e| format!("peer wire: {}", e))?;
            if msgs.len() != base + 1 {
                return Err(format!("subscriber received {} copies of one matching publish", msgs.len() - base));
            }
            if let Some((ol, _)) = other {
                if ol.lib_messages_prefix().map(|x| x.0.len()).unwrap_or(0) != obase {
                    return Err("a publish reached a peer that never subscribed".into());
                }
            }
        }
        Kind::Sub => {
            let a = sim.subscribe(s, "news", true);
            match sim.run(a).await {
                Ok(Some(Out::Unit(Ok(())))) => {}
                o => return Err(format!("subscribe failed: {:?}", o)),
            }
            let msgs = link.lib_messages().map_err(|e| format!("peer wire: {}", e))?;
            let mut want = vec![1u8];
            want.extend_from_slice(b"news");
            let n = msgs[base..].iter().filter(|m| **m == vec![want.clone()]).count();
            if n != 1 || msgs.len() != base + 1 {
                return Err(format!("one subscribe call put {} messages on the peer's wire ({} of them the subscription)", msgs.len() - base, n));
            }
        }
        Kind::Rep | Kind::Pull => {}
    }
    Ok(())
}
