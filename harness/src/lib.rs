pub mod alloc;
pub mod core;
pub mod libcodec;
pub mod pipe;
pub mod props;
pub mod refcodec;
pub mod sim;
