//! C06 — a waiting receiver is always woken, and no peer is starved.
//! Same schedule strings as C05 (fq.rs), judged by the executor-mode liveness oracle and the
//! bounded-bypass fairness oracle.

use crate::core::*;
use crate::fq::{self, Tok};
use crate::props::c05::{exhaustive_schedules, gen_sched, sched_outcome, SchedCase};
use crate::props::parse_case;

use serde::{Deserialize, Serialize};
use serde_json::{json, Value};

// --------------------------------------------------------------------------------------------
// fairness observed on real sockets (sim): k peers, each with a backlog of complete messages

#[derive(Debug, Clone, Serialize, Deserialize, PartialEq, Eq, Hash)]
pub struct FairSockCase {
    pub kind: crate::sim::Kind,
    /// backlog per peer (messages), one entry per peer
    pub backlog: Vec<usize>,
    /// second-frame length of every message
    pub size: usize,
    /// peers join and deliver in this order (a permutation seed)
    pub order: u32,
}

pub fn fair_sock_outcome(c: &FairSockCase) -> Outcome {
    use crate::fail;
    use crate::props::c05::wire_and_expect;
    use crate::sim::{run_sim, Kind, Out, Sim};
    let mut o = Outcome::new(hash_of(c));
    o.nontrivial = c.backlog.iter().filter(|b| **b >= 2).count() >= 2;
    o.class("fairness-on-a-real-socket");
    let c2 = c.clone();
    let (r, panics) = capture_panics(|| {
        run_sim(async move {
            let c = c2;
            let kind = c.kind;
            let who = kind.name();
            let mut f: Vec<Failure> = vec![];
            let mut sim = Sim::new();
            let s = sim.socket(kind, None);
            let k = c.backlog.len();
            let mut links = vec![];
            for _ in 0..k {
                // odd `order`: the peers announce an empty Identity (libzmq's default)
                match crate::simx::attach_raw(&mut sim, s, if c.order & 1 == 1 { Some(&[][..]) } else { None }).await {
                    Ok((l, _)) => links.push(l),
                    Err(e) => {
                        fail!(f, format!("C06/{}/setup", who), "{}", e);
                        return f;
                    }
                }
            }
            // every peer's whole backlog is on the wire before the first recv, busiest first or
            // last depending on `order`
            let mut idx: Vec<usize> = (0..k).collect();
            if c.order % 2 == 1 {
                idx.reverse();
            }
            idx.rotate_left((c.order as usize / 2) % k.max(1));
            for j in idx {
                for q in 0..c.backlog[j] {
                    let (w, _) = wire_and_expect(kind, j, q, &[8, c.size], false);
                    links[j].raw_send_now(&w);
                }
            }
            let total: usize = c.backlog.iter().sum();
            let mut left = c.backlog.clone();
            let mut waiting = vec![0usize; k]; // deliveries from others since this peer last got a turn
            for step in 0..total + 4 {
                let r = sim.recv(s);
                match sim.run(r).await {
                    Ok(Some(Out::Recv(Ok(m)))) => {
                        let tagf = m.get(if kind == Kind::Router { 1 } else { 0 });
                        let j = tagf.and_then(|t| {
                            let t = if kind == Kind::XPub { t.get(1..)? } else { &t[..] };
                            if !t.starts_with(b"p") {
                                return None;
                            }
                            let end = t.iter().position(|c| *c == b'-')?;
                            std::str::from_utf8(&t[1..end]).ok()?.parse::<usize>().ok()
                        });
                        let Some(j) = j.filter(|j| *j < k) else {
                            fail!(f, format!("C06/{}/unattributable-message", who), "{:?}", m.iter().map(|x| x.len()).collect::<Vec<_>>());
                            return f;
                        };
                        left[j] = left[j].saturating_sub(1);
                        waiting[j] = 0;
                        for i in 0..k {
                            if i != j && left[i] > 0 {
                                waiting[i] += 1;
                                if waiting[i] > 2 * k {
                                    fail!(
                                        f,
                                        format!("C06/{}/starvation", who),
                                        "recv #{}: peer {} still has {} complete messages queued and has now been passed over by {} deliveries from other peers (bound 2n = {}; backlogs {:?})",
                                        step,
                                        i,
                                        left[i],
                                        waiting[i],
                                        2 * k,
                                        c.backlog
                                    );
                                    return f;
                                }
                            }
                        }
                        if kind == Kind::Rep {
                            let a = sim.send(s, &[b"r".to_vec()]);
                            let _ = sim.run(a).await;
                        }
                    }
                    Ok(Some(Out::Recv(Err(_)))) => {}
                    Ok(None) => {
                        sim.cancel(r);
                        break;
                    }
                    other => {
                        fail!(f, format!("C06/{}/spin", who), "{:?}", other.map(|x| x.map(|_| ())));
                        return f;
                    }
                }
            }
            if left.iter().any(|l| *l > 0) {
                fail!(f, format!("C06/{}/lost-wakeup", who), "recv is pending although peers still have {:?} complete messages on the wire", left);
            }
            f
        })
    });
    if let Some(f) = r {
        o.failures = f;
    }
    for p in panics {
        o.fail(format!("C06/panic/{}", panic_sig(&p)), p);
    }
    o
}

/// fairness-focused strings: several busy streams, receiver polling, joins in between
fn gen_fair(src: &mut Src<'_>) -> SchedCase {
    let n_keys = src.range(2, 6);
    let mut toks = vec![];
    for i in 0..n_keys {
        toks.push(Tok::Insert(i as u8));
        if src.bool() {
            toks.push(Tok::Burst(i as u8));
        }
    }
    let len = src.range(20, 90);
    for _ in 0..len {
        let t = match src.weighted(&[8, 3, 2, 1, 1, 1]) {
            0 => Tok::Recv,
            1 => Tok::Burst(src.below(n_keys) as u8),
            2 => Tok::Push(src.below(n_keys) as u8),
            3 => Tok::Settle,
            4 => Tok::Insert(src.below(n_keys) as u8),
            _ => Tok::Migrate,
        };
        toks.push(t);
    }
    let mut c = SchedCase { toks, n_keys, block: true };
    // repair invalid tokens
    for _ in 0..200 {
        match fq::run_schedule(&c.toks, c.n_keys, c.block).stats.invalid_at {
            Some(p) => {
                c.toks.remove(p);
            }
            None => break,
        }
    }
    c
}

pub fn run(ctx: &Ctx) -> (Report, PropertyMeta) {
    let mut report = Report::default();
    let t = ctx.tier;
    // (the alphabet has 16 / 22 tokens since Migrate and Replace were added; depths chosen so
    // that quick stays within seconds)
    report.merge(exhaustive_schedules(ctx, 2, t.pick(7, 9), true, true));
    report.merge(exhaustive_schedules(ctx, 3, t.pick(6, 7), true, true));
    report.merge(exhaustive_schedules(ctx, 2, t.pick(7, 8), false, true));
    let n = t.pick(20_000, 400_000);
    report.merge(run_random(ctx, "schedule06", n, 40..=200, |s| gen_sched(s, false), |c| sched_outcome(c, true)));
    report.merge(run_random(ctx, "schedule06", n, 40..=200, gen_fair, |c| sched_outcome(c, true)));
    // stale wakes: liveness / safety only (fairness is not asserted with stale wakes)
    report.merge(run_random(ctx, "schedule06", n / 2, 40..=200, |s| gen_sched(s, true), |c| sched_outcome(c, true)));
    report.sections.push(json!({"part": "random schedule strings (generic, fairness-focused, with stale wakes)", "cases": n * 2 + n / 2}));

    // the same fairness bound observed through real sockets
    {
        use crate::sim::Kind;
        let mut fc = vec![];
        for kind in [Kind::Pull, Kind::Router, Kind::Dealer, Kind::Sub, Kind::XPub] {
            for backlog in [vec![40usize, 1], vec![1, 40], vec![30, 30], vec![50, 2, 2], vec![2, 50, 2], vec![20, 20, 20, 1], vec![60, 1, 1, 1, 1]] {
                for size in [0usize, 600] {
                    for order in 0..4u32 {
                        fc.push(FairSockCase { kind, backlog: backlog.clone(), size, order });
                    }
                }
            }
        }
        let r = run_cases(ctx, "fair_socket", &fc, fair_sock_outcome);
        report.exhaustive_parts.push(format!("real PULL/ROUTER/DEALER/SUB/XPUB sockets (sim) with 2..5 raw peers holding backlogs of 1..60 complete messages before the first recv, 2 message sizes, 4 arrival orders: {} cases", fc.len()));
        report.merge(r);
        let n = t.pick(3000, 60_000);
        let r = run_random(
            ctx,
            "fair_socket",
            n,
            8..=24,
            |s| {
                let k = s.range(2, 5);
                FairSockCase {
                    kind: s.pick(&[Kind::Pull, Kind::Router, Kind::Dealer, Kind::Sub, Kind::XPub, Kind::Rep]),
                    backlog: (0..k).map(|_| s.pick(&[1usize, 1, 2, 5, 20, 45])).collect(),
                    size: s.pick(&[0usize, 3, 300, 9000]),
                    order: s.next() as u32,
                }
            },
            fair_sock_outcome,
        );
        report.sections.push(json!({"part": "random backlogs on real sockets", "cases": n}));
        report.merge(r);
    }
    if t == Tier::Thorough {
        crate::fuzzing::campaign(ctx, &mut report, "fq", 240);
    }
    // real transports: a receive loop in the block_on body of a multi-thread runtime (the body
    // of #[tokio::main]) fed by fast senders - where the cooperative-budget spin showed
    {
        use crate::stress::sc;
        let n = t.pick(3000, 40_000);
        let cases = vec![sc("pull", "block_on", 2, n, 20_000), sc("pull", "block_on", 1, n * 2, 9000), sc("router", "block_on", 2, n, 20_000), sc("rep", "block_on", 3, n / 3, 20_000), sc("pull", "spawned", 2, n, 20_000)];
        crate::stress::run_all(ctx, &mut report, "C06", &cases, 45);
    }
    let total = report.evaluations;
    health(&mut report, "wake-or-insert-inside-window", total, 50);
    health(&mut report, "two-busy-streams", total, 50);
    health_abs(&mut report, "fairness-on-a-real-socket", 1000);
    health_abs(&mut report, "receiver-moved-to-another-task", 2000);
    health_abs(&mut report, "stream-replaced-under-a-live-key", 2000);
    let observed = report.measures.get("max_bypass_observed").copied().unwrap_or(0);
    report.notes.push(format!("largest number of other-stream deliveries that went ahead of a ready stream in the exhaustive part: {} (bound asserted: 2n)", observed));

    let meta = PropertyMeta {
        level: "exploration",
        rule: "the library's real fair queue driven by schedule strings over {Push i, Burst i, Close i, Insert i, Remove i, Recv, Settle, Exhaust (streams yield), Migrate (the receiver is moved to another task: new waker, wakes to the old one reach nobody), Replace i (a new stream inserted under a key that is still registered - a peer coming back under its identity)}; tokens inside a stream poll run while the queue lock is released (before the stream decides and after it decided but before it is put back). ALL valid strings to the stated depth for 2 and 3 streams, proptest strings (generic, fairness-focused with several busy streams, and with stale wakes) for up to 6 streams. Oracles: (no lost wake-up) the receiver is re-polled only when an executor would (its waker fired since it last returned Pending); whenever it is parked with no wake pending - at every Settle token and after the schedule - no connected stream may hold an undelivered item; end-of-stream only with no streams and block_on_no_clients=false. (bounded bypass) from the moment a stream holds an item until it is served, at most 2n deliveries from other streams (n = streams ever inserted; bursts of 14 items make any monopolising order exceed the bound). The same bypass bound is observed through real sockets in the sim: PULL/ROUTER/DEALER/SUB/XPUB/REP with 2..5 raw peers whose backlogs of 1..60 complete messages are all on the wire before the first recv; every peer that still has messages queued is served within 2n deliveries, and recv never stays pending while messages remain. Non-trivial = a wake or insert lands inside a window, or two streams each hold >= 2 items at some point; distinct by schedule".into(),
        assumptions: vec![
            "a correct executor re-polls a task that was woken while running; waker registration once per poll call is therefore not flagged".into(),
            "fairness is not asserted on schedules containing stale wakes (an old waker clone legitimately re-queues its stream with an old ticket)".into(),
        ],
        exhaustive: false,
    };
    (report, meta)
}

pub fn replay(_ctx: &Ctx, kind: &str, case: &Value) -> Vec<Failure> {
    match kind {
        "schedule06" | "schedule" => parse_case::<SchedCase>(case).map(|c| sched_outcome(&c, true).failures),
        "stress" => Ok(crate::stress::replay(_ctx, "C06", case)),
        "fair_socket" => parse_case::<FairSockCase>(case).map(|c| fair_sock_outcome(&c).failures),
        "schedule_subtree" => {
            let first: Result<SchedCase, _> = parse_case(&case["first"]);
            first.map(|c| {
                let depth = case["depth"].as_u64().unwrap_or(5) as usize;
                let alpha = fq::alphabet_m(c.n_keys, false);
                let mut fails = vec![];
                let mut visit = |_t: &[Tok], r: &fq::RunResult| {
                    fails.extend(r.c06.clone());
                };
                let (_, panics) = capture_panics(|| fq::enumerate(&alpha, c.n_keys, depth, c.block, &c.toks, &mut visit));
                for p in panics {
                    fails.push(Failure::new(format!("C06/panic/{}", panic_sig(&p)), p));
                }
                fails
            })
        }
        _ => Err(vec![Failure::new("replay/unknown-kind", kind.to_string())]),
    }
    .unwrap_or_else(|e| e)
}
