#!/bin/sh
# usage: tools/mutant.sh <patch-file> <ID> [<ID>...]
# Applies a patch to /repo, runs the quick checks, reverts. For sensitivity self-tests only.
P="$1"; shift
cd /repo || exit 2
if ! git diff --quiet; then echo "/repo has uncommitted changes; refusing"; exit 2; fi
git apply "$P" || { echo "patch does not apply"; exit 2; }
for id in "$@"; do
  echo "=== $id under $(basename "$P")"
  /verif/check "$id" quick > /tmp/mutant_$id.log 2>&1
  echo "exit=$?"
  grep -E "^(VIOLATION|  signature|  message|INFRA)" /tmp/mutant_$id.log | head -12
done
git -C /repo checkout -- . 
