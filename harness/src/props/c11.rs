//! C11 — PUB/XPUB deliver a message to a subscriber iff a subscription is a prefix.

use crate::core::*;
use crate::fail;
use crate::props::parse_case;
use crate::sim::{run_sim, Frames, Kind, Link, Out, Sim};
use crate::simx;

use serde::{Deserialize, Serialize};
use serde_json::{json, Value};

pub const TOPICS: [&str; 4] = ["", "a", "ab", "b"];

/// topic #i as bytes: the four of the exhaustive part, then (random part only) long and binary
/// ones: 300 bytes equal to the long publish's first frame, 301 bytes (longer than anything
/// published), topics containing 0x00 / 0x01 (the subscribe / unsubscribe marker values), 255
/// and 256 bytes
pub fn topic(i: u8) -> Vec<u8> {
    let long = |n: usize| {
        let mut v = b"ab".to_vec();
        v.extend(std::iter::repeat(b'z').take(n - 2));
        v
    };
    match i {
        0..=3 => TOPICS[i as usize].as_bytes().to_vec(),
        4 => long(300),
        5 => long(301),
        6 => vec![0u8],
        7 => vec![1u8, 0u8],
        8 => long(255),
        _ => long(256),
    }
}
pub const N_TOPICS: u8 = 10;

#[derive(Debug, Clone, Copy, Serialize, Deserialize, PartialEq, Eq, Hash)]
pub enum Tok {
    Sub(u8),
    Unsub(u8),
    /// garbage: 0 = empty frame, 1 = first byte 2, 2 = two-frame message starting with a
    /// subscribe byte, 3 = unsubscribe of a topic sent as two frames
    Garbage(u8),
}

pub const ALL_TOKS: [Tok; 12] = [
    Tok::Sub(0),
    Tok::Sub(1),
    Tok::Sub(2),
    Tok::Sub(3),
    Tok::Unsub(0),
    Tok::Unsub(1),
    Tok::Unsub(2),
    Tok::Unsub(3),
    Tok::Garbage(0),
    Tok::Garbage(1),
    Tok::Garbage(2),
    Tok::Garbage(3),
];

impl Tok {
    pub fn wire(&self) -> Frames {
        match self {
            Tok::Sub(t) => {
                let mut f = vec![1u8];
                f.extend_from_slice(&topic(*t));
                vec![f]
            }
            Tok::Unsub(t) => {
                let mut f = vec![0u8];
                f.extend_from_slice(&topic(*t));
                vec![f]
            }
            Tok::Garbage(0) => vec![vec![]],
            Tok::Garbage(1) => vec![vec![2u8, b'a']],
            Tok::Garbage(2) => vec![vec![1u8, b'a'], vec![b'x']],
            Tok::Garbage(_) => vec![vec![0u8], vec![b'a']],
        }
    }
}

/// reference multiset-prefix model of one connection's subscriptions
#[derive(Default, Clone)]
pub struct Model {
    pub subs: Vec<Vec<u8>>,
}

impl Model {
    pub fn apply(&mut self, t: &Tok) {
        match t {
            Tok::Sub(i) => self.subs.push(topic(*i)),
            Tok::Unsub(i) => {
                let topic = topic(*i);
                if let Some(p) = self.subs.iter().position(|s| *s == topic) {
                    self.subs.remove(p);
                }
            }
            Tok::Garbage(_) => {}
        }
    }
    pub fn matches(&self, first_frame: &[u8]) -> bool {
        self.subs.iter().any(|s| first_frame.starts_with(s))
    }
}

pub fn publishes() -> Vec<Frames> {
    let long = {
        let mut v = b"ab".to_vec();
        v.extend(std::iter::repeat(b'z').take(298));
        v
    };
    vec![
        vec![b"".to_vec()],
        vec![b"a".to_vec(), b"body".to_vec()],
        vec![b"ab".to_vec()],
        vec![b"abc".to_vec(), b"".to_vec(), b"x".to_vec()],
        vec![b"b".to_vec(), b"1".to_vec()],
        vec![b"c".to_vec()],
        vec![long, b"tail".to_vec()],
        // (random part only) first frames made of the marker byte values
        vec![vec![0u8, 1u8], b"z".to_vec()],
        vec![vec![1u8, 0u8, 5u8]],
    ]
}

#[derive(Debug, Clone, Serialize, Deserialize, PartialEq, Eq, Hash)]
pub enum Step {
    /// subscriber j sends a subscription message
    Peer(usize, Tok),
    /// application publishes publishes()[k] (after the subscriptions sent so far were processed)
    Publish(usize),
    /// subscriber j comes back on a fresh connection (after the subscriptions sent so far were
    /// processed). With `idents == 2` it announces the same identity again while its old
    /// connection is still open and idle (false) or has just been closed without the socket
    /// having looked (true); otherwise the old connection is closed and an anonymous one
    /// joins. Subscriptions are counted per connection: the fresh one starts with none.
    Rejoin(usize, bool),
}

#[derive(Debug, Clone, Serialize, Deserialize, PartialEq, Eq, Hash)]
pub struct FilterCase {
    pub xpub: bool,
    pub subscribers: usize,
    pub steps: Vec<Step>,
    /// what the subscribers announce as Identity: 0 nothing, 1 an empty one (libzmq's
    /// default; each must still get a registration of its own), 2 distinct ones of 1 / 255 bytes
    #[serde(default)]
    pub idents: u8,
}

/// quiescence: every subscription message sent so far has been processed. For XPUB the
/// application is PARKED in recv while the bytes arrive (the previous recv of this helper
/// was abandoned pending, as a timeout would leave it): it must be woken by the arrival.
async fn process_subscriptions(sim: &mut Sim, s: usize, xpub: bool, links: &[Link], got: &mut Vec<Frames>, expected_total: usize) -> Result<(), String> {
    let parked = if xpub {
        let r = sim.recv(s);
        sim.poll(r);
        Some(r)
    } else {
        None
    };
    for l in links {
        l.to_lib.deliver_all();
    }
    sim.settle().await.map_err(|e| format!("{:?}", e))?;
    if let Some(r) = parked {
        if sim.done(r) {
            match sim.take(r) {
                Some(Out::Recv(Ok(m))) => got.push(m),
                Some(Out::Recv(Err(e))) => return Err(format!("XPUB recv error: {}", e.text)),
                _ => {}
            }
        } else {
            sim.cancel(r);
            if expected_total > got.len() {
                return Err(format!("a recv that was waiting while {} subscription message(s) arrived was never woken (lost wake-up)", expected_total - got.len()));
            }
        }
        let res = simx::recv_until_pending(sim, s, 200).await?;
        for r in res {
            match r {
                Ok(m) => got.push(m),
                Err(e) => return Err(format!("XPUB recv error: {}", e)),
            }
        }
    }
    Ok(())
}

pub fn filter_outcome(c: &FilterCase) -> Outcome {
    let mut o = Outcome::new(hash_of(c));
    // non-trivial: duplicate, overlap (a & ab), unsubscribe, or topic length >= first frame
    if c.idents == 1 && c.subscribers >= 2 {
        o.class("several-subscribers-announce-empty-identity");
    }
    if c.idents == 2 && c.steps.iter().any(|s| matches!(s, Step::Rejoin(..))) {
        o.class("subscriber-comes-back-under-its-identity");
    }
    let toks: Vec<&Tok> = c.steps.iter().filter_map(|s| if let Step::Peer(_, t) = s { Some(t) } else { None }).collect();
    let has_unsub = toks.iter().any(|t| matches!(t, Tok::Unsub(_)));
    let mut dup = false;
    let mut overlap = false;
    for j in 0..c.subscribers {
        let mine: Vec<u8> = c.steps.iter().filter_map(|s| if let Step::Peer(p, Tok::Sub(t)) = s { if *p == j { Some(*t) } else { None } } else { None }).collect();
        for (i, a) in mine.iter().enumerate() {
            if mine[..i].contains(a) {
                dup = true;
            }
        }
        if (mine.contains(&1) && mine.contains(&2)) || (mine.contains(&0) && mine.len() > 1) {
            overlap = true;
        }
    }
    let exact_len = toks.iter().any(|t| matches!(t, Tok::Sub(2)));
    o.nontrivial = has_unsub || dup || overlap || exact_len;
    if dup {
        o.class("duplicate-subscription");
    }
    if overlap {
        o.class("overlapping-prefixes");
    }
    if has_unsub {
        o.class("unsubscribe");
    }
    if toks.iter().any(|t| matches!(t, Tok::Garbage(_))) {
        o.class("garbage-subscription-message");
    }
    let c2 = c.clone();
    let (r, panics) = capture_panics(|| {
        run_sim(async move {
            let c = c2;
            let who = if c.xpub { "XPUB" } else { "PUB" };
            let mut f: Vec<Failure> = vec![];
            let mut sim = Sim::new();
            let s = sim.socket(if c.xpub { Kind::XPub } else { Kind::Pub }, None);
            let mut links = vec![];
            let mut ids = vec![];
            for j in 0..c.subscribers {
                let ident: Option<Vec<u8>> = match c.idents {
                    0 => None,
                    1 => Some(vec![]),
                    _ => Some(vec![b'a' + j as u8; if j % 2 == 0 { 1 } else { 255 }]),
                };
                match simx::attach_raw(&mut sim, s, ident.as_deref()).await {
                    Ok((l, id)) => {
                        links.push(l);
                        ids.push(id);
                    }
                    Err(e) => {
                        fail!(f, format!("C11/{}/setup", who), "{}", e);
                        return f;
                    }
                }
            }
            let pubs = publishes();
            let mut models = vec![Model::default(); c.subscribers];
            let mut expect: Vec<Vec<Frames>> = vec![vec![]; c.subscribers];
            let mut sent_subs: Vec<Frames> = vec![]; // in global send order (for XPUB recv)
            let mut sent_subs_by: Vec<Vec<Frames>> = vec![vec![]; c.subscribers];
            let mut xpub_got: Vec<Frames> = vec![];
            let mut old_links: Vec<Link> = vec![];
            for st in &c.steps {
                match st {
                    Step::Rejoin(j, close_old) => {
                        let j = *j % c.subscribers;
                        if let Err(e) = process_subscriptions(&mut sim, s, c.xpub, &links, &mut xpub_got, sent_subs.len()).await {
                            fail!(f, format!("C11/{}/processing", who), "{}", e);
                            return f;
                        }
                        // what the old connection received is settled here
                        match links[j].lib_messages() {
                            Ok(m) if m == expect[j] => {}
                            Ok(m) => {
                                fail!(f, format!("C11/{}/wrong-messages-delivered", who), "subscriber {} before it came back: received {} messages, the prefix model expects {}", j, m.len(), expect[j].len());
                                return f;
                            }
                            Err(e) => {
                                fail!(f, format!("C11/{}/wire-malformed", who), "subscriber {}: {}", j, e);
                                return f;
                            }
                        }
                        let ident: Option<Vec<u8>> = match c.idents {
                            2 => Some(vec![b'a' + j as u8; if j % 2 == 0 { 1 } else { 255 }]),
                            1 => Some(vec![]),
                            _ => None,
                        };
                        if *close_old || c.idents != 2 {
                            links[j].to_lib.end_after_all(crate::pipe::ReadEnd::Eof);
                        }
                        match simx::attach_raw(&mut sim, s, ident.as_deref()).await {
                            Ok((l, _)) => {
                                let old = std::mem::replace(&mut links[j], l);
                                old_links.push(old);
                            }
                            Err(e) => {
                                fail!(f, format!("C11/{}/returning-subscriber-not-admitted", who), "{}", e);
                                return f;
                            }
                        }
                        models[j] = Model::default();
                        expect[j] = vec![];
                    }
                    Step::Peer(j, t) => {
                        let j = *j % c.subscribers;
                        let w = t.wire();
                        links[j].raw_send(&w);
                        models[j].apply(t);
                        sent_subs.push(w.clone());
                        sent_subs_by[j].push(w);
                    }
                    Step::Publish(k) => {
                        if let Err(e) = process_subscriptions(&mut sim, s, c.xpub, &links, &mut xpub_got, sent_subs.len()).await {
                            fail!(f, format!("C11/{}/processing", who), "{}", e);
                            return f;
                        }
                        let m = pubs[*k % pubs.len()].clone();
                        for j in 0..c.subscribers {
                            if models[j].matches(&m[0]) {
                                expect[j].push(m.clone());
                            }
                        }
                        let a = sim.send(s, &m);
                        match sim.run(a).await {
                            Ok(Some(Out::Send(Ok(())))) => {}
                            other => {
                                fail!(f, format!("C11/{}/publish-failed", who), "{:?}", other);
                                return f;
                            }
                        }
                    }
                }
            }
            if let Err(e) = process_subscriptions(&mut sim, s, c.xpub, &links, &mut xpub_got, sent_subs.len()).await {
                fail!(f, format!("C11/{}/processing", who), "{}", e);
                return f;
            }
            for j in 0..c.subscribers {
                match links[j].lib_messages() {
                    Ok(m) => {
                        if m != expect[j] {
                            // classify
                            let show = |v: &Vec<Frames>| v.iter().map(|m| String::from_utf8_lossy(&m[0]).chars().take(6).collect::<String>()).collect::<Vec<_>>();
                            let sig = if m.len() > expect[j].len() {
                                let mut dupd = false;
                                for w in m.windows(2) {
                                    if w[0] == w[1] {
                                        dupd = true;
                                    }
                                }
                                if dupd && m.iter().filter(|x| expect[j].contains(x)).count() == m.len() {
                                    "delivered-more-than-once-or-unmatched"
                                } else {
                                    "delivered-without-matching-subscription"
                                }
                            } else if m.len() < expect[j].len() {
                                "matching-message-not-delivered"
                            } else {
                                "wrong-messages-delivered"
                            };
                            fail!(
                                f,
                                format!("C11/{}/{}", who, sig),
                                "subscriber {} (active subscriptions {:?}) received first frames {:?}, the prefix model expects {:?}",
                                j,
                                models[j].subs.iter().map(|s| String::from_utf8_lossy(s).to_string()).collect::<Vec<_>>(),
                                show(&m),
                                show(&expect[j])
                            );
                        }
                    }
                    Err(e) => fail!(f, format!("C11/{}/wire-malformed", who), "subscriber {}: {}", j, e),
                }
            }
            if c.xpub {
                // every subscription message handed to the application verbatim, per-peer order.
                // Attribute by content is impossible across peers (same bytes), so compare the
                // multiset and, per peer, order via a greedy subsequence check.
                let mut want_sorted = sent_subs.clone();
                let mut got_sorted = xpub_got.clone();
                want_sorted.sort();
                got_sorted.sort();
                if want_sorted != got_sorted {
                    fail!(
                        f,
                        "C11/XPUB/subscription-messages-not-handed-over-verbatim",
                        "peers sent {} subscription messages, recv returned {} (as multisets they differ)",
                        sent_subs.len(),
                        xpub_got.len()
                    );
                } else if c.subscribers == 1 && xpub_got != sent_subs_by[0] {
                    fail!(f, "C11/XPUB/subscription-messages-reordered", "single peer sent {:?}, recv returned {:?}", sent_subs_by[0], xpub_got);
                } else {
                    for j in 0..c.subscribers {
                        // per-peer order: sent_subs_by[j] must be a subsequence of xpub_got
                        let mut it = xpub_got.iter();
                        let ok = sent_subs_by[j].iter().all(|w| it.any(|g| g == w));
                        if !ok {
                            fail!(f, "C11/XPUB/subscription-messages-reordered", "peer {}'s messages do not appear in order in the recv results", j);
                        }
                    }
                }
            }
            f
        })
    });
    if let Some(f) = r {
        o.failures = f;
    }
    for p in panics {
        o.fail(format!("C11/panic/{}", panic_sig(&p)), p);
    }
    o
}

/// a subscriber subscribes, sees publishes, comes back on a fresh connection, subscribes to
/// something else (or nothing): every (topic, topic-or-none) pair x identity mode x old
/// connection open / closed, with a bystander that keeps its own subscription throughout
fn rejoin_histories() -> Vec<FilterCase> {
    let mut v = vec![];
    for xpub in [false, true] {
        for idents in 0..3u8 {
            for close_old in [false, true] {
                for t1 in 0..4u8 {
                    for t2 in 0..5u8 {
                        let mut steps = vec![Step::Peer(0, Tok::Sub(t1)), Step::Peer(1, Tok::Sub(3))];
                        steps.extend((0..7).map(Step::Publish));
                        steps.push(Step::Rejoin(0, close_old));
                        if t2 < 4 {
                            steps.push(Step::Peer(0, Tok::Sub(t2)));
                        }
                        steps.extend((0..7).map(Step::Publish));
                        v.push(FilterCase { xpub, subscribers: 2, steps, idents });
                    }
                }
            }
        }
    }
    v
}

/// every history of length <= max_len for one subscriber, followed by all publishes
fn exhaustive_histories(xpub: bool, max_len: usize) -> Vec<FilterCase> {
    let mut v = vec![];
    // the exhaustive part keeps to the first 7 publishes (9 would add 30 % for the marker-byte
    // topics, which only the random part subscribes to)
    let np = 7;
    for len in 0..=max_len {
        let total = ALL_TOKS.len().pow(len as u32);
        for mut code in 0..total {
            let mut steps = vec![];
            for _ in 0..len {
                steps.push(Step::Peer(0, ALL_TOKS[code % ALL_TOKS.len()]));
                code /= ALL_TOKS.len();
            }
            for k in 0..np {
                steps.push(Step::Publish(k));
            }
            v.push(FilterCase { xpub, subscribers: 1, steps, idents: 0 });
        }
    }
    v
}

fn gen_filter(s: &mut Src<'_>) -> FilterCase {
    let xpub = s.bool();
    let subscribers = s.range(1, 4);
    // one history in five is long (behaviour that depends on how many subscriptions went before)
    let n = if s.chance(1, 5) { s.range(40, 150) } else { s.range(3, 30) };
    let np = publishes().len();
    let steps = (0..n)
        .map(|_| {
            if s.chance(1, 3) {
                Step::Publish(s.below(np))
            } else if s.chance(1, 12) {
                Step::Rejoin(s.below(subscribers), s.bool())
            } else {
                // mostly the small alphabet; one token in four uses a long / binary topic
                let tok = if s.chance(1, 4) {
                    let t = s.range(4, N_TOPICS as usize - 1) as u8;
                    if s.chance(2, 3) {
                        Tok::Sub(t)
                    } else {
                        Tok::Unsub(t)
                    }
                } else {
                    s.pick(&ALL_TOKS)
                };
                Step::Peer(s.below(subscribers), tok)
            }
        })
        .chain((0..np).map(Step::Publish))
        .collect();
    let idents = s.weighted(&[2, 1, 1]) as u8;
    FilterCase { xpub, subscribers, steps, idents }
}

pub fn run(ctx: &Ctx) -> (Report, PropertyMeta) {
    let mut report = Report::default();
    let t = ctx.tier;
    let l = t.pick(4, 5);
    for xpub in [false, true] {
        let cases = exhaustive_histories(xpub, l);
        let r = run_cases(ctx, "filter", &cases, filter_outcome);
        report.exhaustive_parts.push(format!(
            "{}: every subscriber history of length <= {} over 12 tokens (subscribe/unsubscribe of {:?}, 4 kinds of garbage), each followed by 7 publishes: {} histories",
            if xpub { "XPUB" } else { "PUB" },
            l,
            TOPICS,
            cases.len()
        ));
        report.merge(r);
    }
    let cases = rejoin_histories();
    let r = run_cases(ctx, "filter", &cases, filter_outcome);
    report.exhaustive_parts.push(format!("a subscriber that comes back on a fresh connection (PUB / XPUB x anonymous / empty / announced identity x old connection open / closed x 4 topics before x 4 topics or none after), next to a bystander: {} histories", cases.len()));
    report.merge(r);
    let n = t.pick(30_000, 600_000);
    let r = run_random(ctx, "filter", n, 60..=200, gen_filter, filter_outcome);
    report.sections.push(json!({"part": "random histories of length <= 30 for 1..4 subscribers with interleaved publishes (PUB and XPUB)", "cases": n}));
    report.merge(r);

    if t == Tier::Thorough {
        crate::fuzzing::campaign(ctx, &mut report, "sim", 180);
    }
    let total = report.evaluations;
    health_abs(&mut report, "subscriber-comes-back-under-its-identity", 300);
    health(&mut report, "duplicate-subscription", total, 100);
    health(&mut report, "overlapping-prefixes", total, 100);
    health(&mut report, "unsubscribe", total, 300);
    health(&mut report, "garbage-subscription-message", total, 100);
    health_abs(&mut report, "several-subscribers-announce-empty-identity", 100);

    let meta = PropertyMeta {
        level: "exploration",
        rule: format!("real PUB and XPUB sockets with raw SUB peers over in-memory pipes. ALL per-subscriber histories of length <= {} over {{subscribe t, unsubscribe t for t in \"\", a, ab, b; empty frame; first byte 2; two two-frame messages}} each followed by publishes with first frames {{\"\", a, ab, abc, b, c, 300-byte ab..}} (1..3 frames); proptest histories of length <= 30 (one in five: 40..150) for 1..4 subscribers with interleaved publishes, one token in four using long or binary topics (255 / 256 / 300 / 301 bytes, topics made of the marker bytes 0x00 / 0x01) and publishes whose first frame consists of marker bytes. Oracle: reference multiset-prefix model per connection (subscribe = push, unsubscribe = remove one equal, garbage = no-op) compared at quiescent points (PUB: tokio yields until its reader tasks are idle; XPUB: the application recvs until nothing is deliverable): each subscriber's wire decodes to exactly the published messages the model matches, once each, in publish order; XPUB: recv returns every subscription message verbatim and in per-peer order. Non-trivial = history has a duplicate, an overlap, an unsubscribe, or a topic as long as a first frame; distinct by history", l),
        assumptions: vec!["comparison only at quiescent points (subscription processing is asynchronous by design)".into()],
        exhaustive: false,
    };
    (report, meta)
}

pub fn replay(_ctx: &Ctx, kind: &str, case: &Value) -> Vec<Failure> {
    match kind {
        "filter" => parse_case::<FilterCase>(case).map(|c| filter_outcome(&c).failures),
        _ => Err(vec![Failure::new("replay/unknown-kind", kind.to_string())]),
    }
    .unwrap_or_else(|e| e)
}

pub fn gen_filter_pub(s: &mut Src<'_>) -> FilterCase {
    gen_filter(s)
}
