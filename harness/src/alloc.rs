//! Counting allocator (per-thread counters; simulations are single threaded).

use std::alloc::{GlobalAlloc, Layout, System};
use std::cell::Cell;
use std::sync::atomic::{AtomicUsize, Ordering};

pub struct Counting;

thread_local! {
    static CUR: Cell<isize> = const { Cell::new(0) };
    static PEAK: Cell<isize> = const { Cell::new(0) };
    static MAXREQ: Cell<usize> = const { Cell::new(0) };
}

/// A single request above this many bytes ends the process with exit code 77 (0 = no limit).
pub static SINGLE_REQUEST_LIMIT: AtomicUsize = AtomicUsize::new(0);

fn note_alloc(size: usize) {
    let _ = CUR.try_with(|c| {
        let v = c.get() + size as isize;
        c.set(v);
        let _ = PEAK.try_with(|p| {
            if v > p.get() {
                p.set(v)
            }
        });
    });
    let _ = MAXREQ.try_with(|m| {
        if size > m.get() {
            m.set(size)
        }
    });
    let lim = SINGLE_REQUEST_LIMIT.load(Ordering::Relaxed);
    if lim != 0 && size > lim {
        let msg = format!("ALLOC_BOMB {}\n", size);
        unsafe {
            libc::write(2, msg.as_ptr() as *const libc::c_void, msg.len());
            libc::_exit(77);
        }
    }
}

fn note_free(size: usize) {
    let _ = CUR.try_with(|c| c.set(c.get() - size as isize));
}

unsafe impl GlobalAlloc for Counting {
    unsafe fn alloc(&self, l: Layout) -> *mut u8 {
        note_alloc(l.size());
        System.alloc(l)
    }
    unsafe fn dealloc(&self, p: *mut u8, l: Layout) {
        note_free(l.size());
        System.dealloc(p, l)
    }
    unsafe fn alloc_zeroed(&self, l: Layout) -> *mut u8 {
        note_alloc(l.size());
        System.alloc_zeroed(l)
    }
    unsafe fn realloc(&self, p: *mut u8, l: Layout, new_size: usize) -> *mut u8 {
        if new_size > l.size() {
            note_alloc(new_size - l.size());
        } else {
            note_free(l.size() - new_size);
        }
        System.realloc(p, l, new_size)
    }
}

/// Start a measurement window on this thread: peak := current, max request := 0.
pub fn reset() -> isize {
    let cur = CUR.with(|c| c.get());
    PEAK.with(|p| p.set(cur));
    MAXREQ.with(|m| m.set(0));
    cur
}
pub fn current() -> isize {
    CUR.with(|c| c.get())
}
pub fn peak() -> isize {
    PEAK.with(|c| c.get())
}
pub fn max_request() -> usize {
    MAXREQ.with(|c| c.get())
}
