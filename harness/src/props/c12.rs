//! C12 — a slow subscriber never blocks the publisher or corrupts its own stream.

use crate::alloc;
use crate::core::*;
use crate::fail;
use crate::pipe::Window;
use crate::props::parse_case;
use crate::refcodec;
use crate::sim::{run_sim, Frames, Kind, Link, Out, Sim};
use crate::simx;

use serde::{Deserialize, Serialize};
use serde_json::{json, Value};

pub const HWM: usize = 131_072;
pub const SIZES: [usize; 10] = [1, 1_000, 65_536, 131_071, 131_072, 131_073, 200_000, 254, 255, 256];

#[derive(Debug, Clone, Serialize, Deserialize, PartialEq, Eq, Hash)]
pub enum WinEv {
    /// accept this many more bytes, then stall
    Stall(usize),
    /// partial writes of k bytes per call (never stalls)
    Partial(usize),
    Open,
    /// the connection breaks (BrokenPipe on write)
    Break,
}

#[derive(Debug, Clone, Serialize, Deserialize, PartialEq, Eq, Hash)]
pub struct SlowCase {
    pub xpub: bool,
    /// one always-open subscriber in addition to the slow ones
    pub with_healthy: bool,
    /// per slow subscriber: (before publish #k, event)
    pub slow: Vec<Vec<(usize, WinEv)>>,
    /// publish sizes (index into SIZES) — second frame length; first frame is the tag
    pub publishes: Vec<u8>,
    /// false: everybody subscribes to "" (every publish matches). true: everybody subscribes
    /// to "tt" and only half of the publishes match (first frames "tt<n>"); the others have a
    /// first frame that is a proper prefix of the subscription ("t"), empty, or unrelated -
    /// what reaches a subscriber must be a subsequence of the MATCHING publishes
    #[serde(default)]
    pub filtered: bool,
}

fn message(seq: usize, size: usize) -> Frames {
    let body = fill(seq as u32, size);
    match seq % 7 {
        // repeated frames / empty frames: what reaches a subscriber must still be WHOLE messages
        3 => vec![format!("t{:06}", seq).into_bytes(), body.clone(), body],
        5 => vec![format!("t{:06}", seq).into_bytes(), vec![], body, vec![]],
        // a first frame of exactly 255 bytes (the last size with a one-byte length)
        6 => vec![format!("t{:06}{}", seq, ".".repeat(248)).into_bytes(), body],
        _ => vec![format!("t{:06}", seq).into_bytes(), body],
    }
}

/// the publish numbered `seq` when subscribers filter on "tt" (see SlowCase::filtered)
fn message_f(seq: usize, size: usize, filtered: bool, force_match: bool) -> Frames {
    let mut m = message(seq, size);
    if filtered {
        m[0] = match seq % 8 {
            _ if force_match => format!("tt{:06}", seq).into_bytes(),
            1 => b"t".to_vec(),
            3 => vec![],
            5 => format!("u{:06}", seq).into_bytes(),
            7 => format!("t{:06}", seq).into_bytes(),
            _ => format!("tt{:06}", seq).into_bytes(),
        };
    }
    m
}

fn matches_filter(m: &Frames, filtered: bool) -> bool {
    !filtered || m.first().map(|f| f.starts_with(b"tt")).unwrap_or(false)
}

fn seq_of(m: &Frames) -> Option<usize> {
    let t = std::str::from_utf8(m.first()?).ok()?;
    let t = t.strip_prefix('t')?;
    let t = t.strip_prefix('t').unwrap_or(t);
    let digits: String = t.chars().take_while(|c| c.is_ascii_digit()).collect();
    digits.parse().ok()
}

pub fn slow_outcome(c: &SlowCase) -> Outcome {
    let mut o = Outcome::new(hash_of(c));
    let c2 = c.clone();
    let (r, panics) = capture_panics(|| {
        run_sim(async move {
            let c = c2;
            let who = if c.xpub { "XPUB" } else { "PUB" };
            let mut f: Vec<Failure> = vec![];
            let mut classes: Vec<String> = vec![];
            let mut sim = Sim::new();
            let s = sim.socket(if c.xpub { Kind::XPub } else { Kind::Pub }, None);
            let n_slow = c.slow.len();
            let mut links: Vec<Link> = vec![];
            let total_subs = n_slow + if c.with_healthy { 1 } else { 0 };
            for si in 0..total_subs {
                // every other case the subscribers announce an empty Identity (libzmq's default)
                match simx::attach_raw(&mut sim, s, if c.publishes.len() % 2 == 1 { Some(&[][..]) } else { None }).await {
                    Ok((l, _)) => {
                        // subscribe to everything / to "tt"
                        l.raw_send_now(&[if c.filtered { vec![1u8, b't', b't'] } else { vec![1u8] }]);
                        // every other subscriber holds a second, OVERLAPPING subscription ("tt0"
                        // inside "tt", "t" inside ""): the set of matching publishes is the
                        // same, and each must still arrive exactly once
                        if si % 2 == 1 {
                            l.raw_send_now(&[if c.filtered { vec![1u8, b't', b't', b'0'] } else { vec![1u8, b't'] }]);
                        }
                        links.push(l);
                    }
                    Err(e) => {
                        fail!(f, format!("C12/{}/setup", who), "{}", e);
                        return (f, classes);
                    }
                }
            }
            let _ = sim.settle().await;
            if c.xpub {
                let _ = simx::recv_until_pending(&mut sim, s, 16).await;
            }
            let healthy = if c.with_healthy { Some(n_slow) } else { None };
            // per slow subscriber state
            let mut broken = vec![false; n_slow];
            let mut stalled_since: Vec<Option<usize>> = vec![None; n_slow];
            // seqs published while subscriber j was stalled, per stall episode
            let mut stall_episodes: Vec<Vec<(usize, usize)>> = vec![vec![]; n_slow]; // (from seq, to seq exclusive)
            // publishes are regenerated from (seq, size) on demand: nothing is retained by the
            // harness while the heap is being measured
            let mut pub_sizes: Vec<usize> = vec![];
            let mut max_enc = 0usize;
            // bytes accepted by the pipe at stall start, per slow subscriber
            let mut traffic_at_stall: Vec<usize> = vec![0; n_slow];
            // per episode: bytes the pipe accepted while stalled (the budget actually used)
            let mut accepted_in_episode: Vec<Vec<usize>> = vec![vec![]; n_slow];
            let mut heap_base: Option<isize> = None;
            let mut heap_max_growth: isize = 0;
            for (k, szi) in c.publishes.iter().enumerate() {
                for j in 0..n_slow {
                    for (at, ev) in &c.slow[j] {
                        if *at == k && !broken[j] {
                            match ev {
                                WinEv::Stall(b) => {
                                    links[j].from_lib.set_window(Window::Budget(*b));
                                    if stalled_since[j].is_none() {
                                        stalled_since[j] = Some(k);
                                        traffic_at_stall[j] = links[j].lib_traffic_len();
                                    }
                                }
                                WinEv::Partial(p) => {
                                    links[j].from_lib.set_window(Window::PerCall((*p).max(1)));
                                    if let Some(from) = stalled_since[j].take() {
                                        stall_episodes[j].push((from, k));
                                        accepted_in_episode[j].push(links[j].lib_traffic_len() - traffic_at_stall[j]);
                                    }
                                }
                                WinEv::Open => {
                                    links[j].from_lib.set_window(Window::Open);
                                    if let Some(from) = stalled_since[j].take() {
                                        stall_episodes[j].push((from, k));
                                        accepted_in_episode[j].push(links[j].lib_traffic_len() - traffic_at_stall[j]);
                                    }
                                }
                                WinEv::Break => {
                                    links[j].from_lib.break_writer(std::io::ErrorKind::BrokenPipe);
                                    broken[j] = true;
                                    if let Some(from) = stalled_since[j].take() {
                                        stall_episodes[j].push((from, k));
                                        accepted_in_episode[j].push(links[j].lib_traffic_len() - traffic_at_stall[j]);
                                    }
                                }
                            }
                        }
                    }
                }
                let all_stalled_no_healthy = healthy.is_none() && (0..n_slow).all(|j| stalled_since[j].is_some() || broken[j]);
                let harness_held = |links: &Vec<Link>| -> isize { links.iter().map(|l| (l.from_lib.harness_bytes() + l.to_lib.harness_bytes()) as isize).sum() };
                if all_stalled_no_healthy && heap_base.is_none() {
                    heap_base = Some(alloc::current() - harness_held(&links));
                }
                if !all_stalled_no_healthy {
                    heap_base = None;
                }
                let size = SIZES[*szi as usize % SIZES.len()];
                let m = message_f(k, size, c.filtered, false);
                max_enc = max_enc.max(refcodec::encode_message(&m).len());
                // (1) non-blocking: the send completes without any window action
                let a = sim.send(s, &m);
                match sim.run(a).await {
                    Ok(Some(Out::Send(Ok(())))) => {}
                    Ok(None) => {
                        fail!(
                            f,
                            format!("C12/{}/publish-blocks-on-slow-subscriber", who),
                            "publish #{} ({} bytes) did not complete while subscriber windows were {:?}",
                            k,
                            SIZES[*szi as usize % SIZES.len()],
                            (0..n_slow).map(|j| stalled_since[j].is_some()).collect::<Vec<_>>()
                        );
                        return (f, classes);
                    }
                    other => {
                        fail!(f, format!("C12/{}/publish-fails", who), "publish #{}: {:?}", k, other.map(|o| o.map(|o| o.err_text().map(|s| s.to_string()))));
                        return (f, classes);
                    }
                }
                drop(m);
                pub_sizes.push(size);
                if let Some(base) = heap_base {
                    let held: isize = links.iter().map(|l| (l.from_lib.harness_bytes() + l.to_lib.harness_bytes()) as isize).sum();
                    heap_max_growth = heap_max_growth.max(alloc::current() - held - base);
                }
            }
            // (4b) heap retained for stalled subscribers
            let stalled_count = (0..n_slow).filter(|j| !c.slow[*j].is_empty()).count().max(1) as isize;
            let bound = stalled_count * (2 * (HWM + max_enc) as isize + (64 << 10));
            if heap_max_growth > bound {
                fail!(
                    f,
                    format!("C12/{}/memory-for-stalled-subscriber-unbounded", who),
                    "live heap grew by {} bytes while {} subscriber(s) were stalled (bound per subscriber: 2 x (HWM + largest message {}) + 64 KiB)",
                    heap_max_growth,
                    stalled_count,
                    max_enc
                );
            }
            if heap_max_growth > 0 {
                classes.push("heap-measured-during-stall".into());
            }
            // resume everything, flush with one final small publish
            for j in 0..n_slow {
                if !broken[j] {
                    links[j].from_lib.set_window(Window::Open);
                    if let Some(from) = stalled_since[j].take() {
                        stall_episodes[j].push((from, c.publishes.len()));
                        accepted_in_episode[j].push(links[j].lib_traffic_len() - traffic_at_stall[j]);
                    }
                }
            }
            let fin = message_f(c.publishes.len(), 3, c.filtered, true);
            let a = sim.send(s, &fin);
            if !matches!(sim.run(a).await, Ok(Some(Out::Send(Ok(()))))) {
                fail!(f, format!("C12/{}/publish-fails", who), "final publish failed");
            }
            pub_sizes.push(3);
            // second flush (a partial write may leave bytes buffered until the next publish)
            let fin2 = message_f(c.publishes.len() + 1, 3, c.filtered, true);
            let a = sim.send(s, &fin2);
            let _ = sim.run(a).await;
            pub_sizes.push(3);
            let n_app = c.publishes.len();
            let published: Vec<Frames> = pub_sizes.iter().enumerate().map(|(q, sz)| message_f(q, *sz, c.filtered, q >= n_app)).collect();
            // what a subscriber that accepts every write must have received
            let matching: Vec<Frames> = published.iter().filter(|m| matches_filter(m, c.filtered)).cloned().collect();
            if c.filtered {
                classes.push("subscribers-filter-on-a-topic".into());
            }

            // (2) healthy subscriber misses nothing
            if let Some(h) = healthy {
                match links[h].lib_messages() {
                    Ok(m) => {
                        if let Some(x) = m.iter().find(|x| !matches_filter(x, c.filtered)) {
                            fail!(f, format!("C12/{}/delivered-without-matching-subscription", who), "the healthy subscriber (subscribed to \"tt\") received a message whose first frame is {:?}", String::from_utf8_lossy(&x[0]));
                        } else if m != matching {
                            let got: Vec<Option<usize>> = m.iter().map(seq_of).collect();
                            fail!(
                                f,
                                format!("C12/{}/healthy-subscriber-affected", who),
                                "the subscriber that accepts every write received {} of {} messages (first numbers {:?})",
                                m.len(),
                                matching.len(),
                                &got[..got.len().min(12)]
                            );
                        }
                    }
                    Err(e) => fail!(f, format!("C12/{}/healthy-stream-corrupt", who), "{}", e),
                }
            }
            // (3) slow subscribers: well-formed, order-preserving subsequence
            for j in 0..n_slow {
                match links[j].lib_messages_prefix() {
                    Err(e) => fail!(f, format!("C12/{}/slow-stream-corrupt", who), "subscriber {}: {}", j, e),
                    Ok((msgs, residue)) => {
                        let mut last: Option<usize> = None;
                        let mut ok = true;
                        for m in &msgs {
                            if !matches_filter(m, c.filtered) {
                                fail!(f, format!("C12/{}/delivered-without-matching-subscription", who), "subscriber {} (subscribed to \"tt\") received a message whose first frame is {:?}", j, String::from_utf8_lossy(&m[0]));
                                ok = false;
                                break;
                            }
                            match seq_of(m) {
                                Some(q) if q < published.len() && &published[q] == m && last.map(|l| q > l).unwrap_or(true) => last = Some(q),
                                other => {
                                    fail!(
                                        f,
                                        format!("C12/{}/slow-stream-not-a-subsequence", who),
                                        "subscriber {}: message numbered {:?} after {:?} is not an unmodified later publish",
                                        j,
                                        other,
                                        last
                                    );
                                    ok = false;
                                    break;
                                }
                            }
                        }
                        if ok && residue > 0 {
                            if !broken[j] {
                                fail!(f, format!("C12/{}/slow-stream-truncated-message", who), "subscriber {} resumed and was flushed, yet its stream ends with a {}-byte fragment", j, residue);
                            } else {
                                // fragment must be a prefix of a later publish
                                let traffic = links[j].lib_traffic().unwrap_or_default();
                                let frag = &traffic[traffic.len() - residue..];
                                let from = last.map(|l| l + 1).unwrap_or(0);
                                if !published[from.min(published.len())..].iter().any(|p| refcodec::encode_message(p).starts_with(frag)) {
                                    fail!(f, format!("C12/{}/slow-stream-corrupt", who), "subscriber {}: trailing {}-byte fragment is not the beginning of any later publish", j, residue);
                                }
                            }
                        }
                        // (4a) how much of what was published during a stall arrived later
                        for (ei, (from, to)) in stall_episodes[j].iter().enumerate() {
                            let accepted = accepted_in_episode[j].get(ei).copied().unwrap_or(0);
                            let during: usize = msgs.iter().filter_map(seq_of).filter(|q| q >= from && q < to).map(|q| refcodec::encode_message(&published[q]).len()).sum();
                            let total_during: usize = (*from..*to).map(|q| refcodec::encode_message(&published[q]).len()).sum();
                            if total_during >= HWM {
                                classes.push("stall>=HWM-then-resume".into());
                            }
                            // what the pipe accepted while the window still had budget was never
                            // buffered; the rest waited in the library
                            if during.saturating_sub(accepted) > HWM + max_enc {
                                fail!(
                                    f,
                                    format!("C12/{}/buffered-more-than-hwm-plus-one-message", who),
                                    "subscriber {} was stalled during publishes {}..{}; {} bytes published in that period reached it although its connection accepted only {} meanwhile (HWM {} + largest message {})",
                                    j,
                                    from,
                                    to,
                                    during,
                                    accepted,
                                    HWM,
                                    max_enc
                                );
                            }
                        }
                        // (5) a subscriber with an open window all along misses nothing
                        // (also one whose connection takes only k bytes per write call: every
                        // write makes progress, so nothing is ever "full")
                        if c.slow[j].iter().all(|e| matches!(e.1, WinEv::Partial(_) | WinEv::Open)) && msgs != matching {
                            fail!(f, format!("C12/{}/healthy-subscriber-affected", who), "subscriber {} never stalled (events {:?}) but received {} of {} messages", j, c.slow[j], msgs.len(), matching.len());
                        }
                    }
                }
            }
            (f, classes)
        })
    });
    if let Some((f, classes)) = r {
        o.failures = f;
        let mut cl = classes;
        cl.sort();
        cl.dedup();
        o.nontrivial = cl.iter().any(|c| c == "stall>=HWM-then-resume");
        o.classes.extend(cl);
    }
    if c.slow.iter().any(|s| s.iter().any(|e| matches!(e.1, WinEv::Break))) {
        o.class("broken-subscriber");
    }
    if c.slow.iter().any(|s| s.iter().any(|e| matches!(e.1, WinEv::Partial(_)))) {
        o.class("partial-writes");
    }
    for p in panics {
        o.fail(format!("C12/panic/{}", panic_sig(&p)), p);
    }
    o
}

// --------------------------------------------------------------------------------------------
// a subscriber comes back under its announced identity while its old connection still exists

#[derive(Debug, Clone, Serialize, Deserialize, PartialEq, Eq, Hash)]
pub struct ComebackCase {
    pub xpub: bool,
    /// state of the old connection when the new one joins: 0 = open and idle, 1 = stalled (its
    /// write window is closed and messages are queued for it), 2 = its writes fail, 3 = it has
    /// just closed (end-of-stream delivered before the new one joins), 4 = it closes right
    /// after the new one has joined
    pub old_state: u8,
    pub others: usize,
    pub before: usize,
    pub after: usize,
}

pub fn comeback_outcome(c: &ComebackCase) -> Outcome {
    let mut o = Outcome::new(hash_of(c));
    o.nontrivial = true;
    o.class("subscriber-comes-back-under-its-identity");
    let c2 = c.clone();
    let (r, panics) = capture_panics(|| {
        run_sim(async move {
            let c = c2;
            let who = if c.xpub { "XPUB" } else { "PUB" };
            let kind = if c.xpub { Kind::XPub } else { Kind::Pub };
            let mut f: Vec<Failure> = vec![];
            let mut sim = Sim::new();
            let s = sim.socket(kind, None);
            let mut others = vec![];
            let subscribe = |l: &Link| l.raw_send_now(&[vec![1u8]]);
            let old = match simx::attach_raw(&mut sim, s, Some(b"sub-A")).await {
                Ok((l, _)) => l,
                Err(e) => {
                    fail!(f, format!("C12/{}/setup", who), "{}", e);
                    return f;
                }
            };
            subscribe(&old);
            for _ in 0..c.others {
                match simx::attach_raw(&mut sim, s, None).await {
                    Ok((l, _)) => {
                        subscribe(&l);
                        others.push(l);
                    }
                    Err(e) => {
                        fail!(f, format!("C12/{}/setup", who), "{}", e);
                        return f;
                    }
                }
            }
            let _ = sim.settle().await;
            if c.xpub {
                let _ = simx::recv_until_pending(&mut sim, s, 16).await;
            }
            match c.old_state {
                1 => old.from_lib.set_window(Window::Budget(0)),
                2 => old.from_lib.break_writer(std::io::ErrorKind::ConnectionReset),
                _ => {}
            }
            let eof_before = c.old_state == 3;
            let mut published: Vec<Frames> = vec![];
            let mut publish = |sim: &mut Sim, f: &mut Vec<Failure>, published: &mut Vec<Frames>| {
                let m = message(published.len(), 40);
                let a = sim.send(s, &m);
                published.push(m);
                a
            };
            for _ in 0..c.before {
                let a = publish(&mut sim, &mut f, &mut published);
                if !matches!(sim.run(a).await, Ok(Some(Out::Send(Ok(()))))) {
                    fail!(f, format!("C12/{}/publish-fails", who), "before the come-back");
                    return f;
                }
            }
            if eof_before {
                old.to_lib.end_after_all(crate::pipe::ReadEnd::Eof);
            }
            // the subscriber comes back on a fresh, healthy connection
            let fresh = match simx::attach_raw(&mut sim, s, Some(b"sub-A")).await {
                Ok((l, _)) => l,
                Err(e) => {
                    fail!(f, format!("C12/{}/subscriber-cannot-come-back-under-its-identity", who), "{}", e);
                    return f;
                }
            };
            subscribe(&fresh);
            if c.old_state == 4 {
                old.to_lib.end_after_all(crate::pipe::ReadEnd::Eof);
            }
            let _ = sim.settle().await;
            if c.xpub {
                let _ = simx::recv_until_pending(&mut sim, s, 16).await;
            }
            let from = published.len();
            for _ in 0..c.after {
                let a = publish(&mut sim, &mut f, &mut published);
                if !matches!(sim.run(a).await, Ok(Some(Out::Send(Ok(()))))) {
                    fail!(f, format!("C12/{}/publish-fails", who), "after the come-back");
                    return f;
                }
            }
            let _ = sim.settle().await;
            match fresh.lib_messages() {
                Ok(m) if m == published[from..] => {}
                Ok(m) => fail!(
                    f,
                    format!("C12/{}/fresh-connection-of-a-returning-subscriber-misses-messages", who),
                    "a subscriber came back under its identity on a connection that accepts every write (old connection: {}); it received {} of the {} messages published after it subscribed",
                    ["open and idle", "stalled", "failing", "just closed", "closing right after"][c.old_state as usize % 5],
                    m.len(),
                    published.len() - from
                ),
                Err(e) => fail!(f, format!("C12/{}/wire-malformed", who), "fresh connection: {}", e),
            }
            for (i, l) in others.iter().enumerate() {
                match l.lib_messages() {
                    Ok(m) if m == published => {}
                    Ok(m) => fail!(f, format!("C12/{}/healthy-subscriber-affected", who), "bystander {} received {} of {} messages while another subscriber came back", i, m.len(), published.len()),
                    Err(e) => fail!(f, format!("C12/{}/wire-malformed", who), "bystander {}: {}", i, e),
                }
            }
            f
        })
    });
    if let Some(f) = r {
        o.failures = f;
    }
    for p in panics {
        o.fail(format!("C12/panic/{}", panic_sig(&p)), p);
    }
    o
}

pub fn gen_slow(s: &mut Src<'_>, budget_bytes: usize) -> SlowCase {
    let xpub = s.bool();
    let with_healthy = s.chance(2, 3);
    // publishes: bounded total size
    let mut publishes = vec![];
    let mut total = 0usize;
    let n = s.range(20, 400);
    let small_only = n > 80;
    for _ in 0..n {
        let i = if small_only { s.pick(&[0u8, 0, 1, 1, 2]) } else { s.below(SIZES.len()) as u8 };
        total += SIZES[i as usize] + 20;
        publishes.push(i);
        if total > budget_bytes {
            break;
        }
    }
    let np = publishes.len();
    let k = s.range(1, 3);
    let slow = (0..k)
        .map(|_| {
            let ne = s.range(0, 4);
            let mut evs: Vec<(usize, WinEv)> = (0..ne)
                .map(|_| {
                    let at = s.below(np);
                    let ev = match s.weighted(&[5, 2, 3, 1]) {
                        0 => WinEv::Stall(s.pick(&[0usize, 0, 1, 9, 10, 1000, 131_072, 200_000])),
                        1 => WinEv::Partial(s.pick(&[1usize, 7, 4096, 100_000])),
                        2 => WinEv::Open,
                        _ => WinEv::Break,
                    };
                    (at, ev)
                })
                .collect();
            evs.sort_by_key(|e| e.0);
            evs
        })
        .collect();
    let filtered = s.chance(1, 3);
    SlowCase { xpub, with_healthy, slow, publishes, filtered }
}

pub fn run(ctx: &Ctx) -> (Report, PropertyMeta) {
    let mut report = Report::default();
    let t = ctx.tier;
    // a subscriber that comes back under its identity while its old connection still exists
    {
        let mut cc = vec![];
        for xpub in [false, true] {
            for old_state in 0..5u8 {
                for others in 0..=2usize {
                    for (before, after) in [(0usize, 3usize), (3, 5), (40, 40)] {
                        cc.push(ComebackCase { xpub, old_state, others, before, after });
                    }
                    // which of two simultaneously ready events a task takes first is the
                    // library's (random) choice: the close-around-the-come-back cases are
                    // repeated in several shapes so that both orders occur
                    if old_state >= 3 {
                        for (before, after) in [(1usize, 1usize), (1, 2), (2, 1), (2, 2), (5, 3), (7, 4), (9, 2), (11, 6)] {
                            cc.push(ComebackCase { xpub, old_state, others, before, after });
                        }
                    }
                }
            }
        }
        let r = run_cases(ctx, "comeback", &cc, comeback_outcome);
        report.exhaustive_parts.push(format!("PUB/XPUB x a subscriber with an announced identity coming back on a fresh connection while its old one is idle / stalled / failing / just closed / closing right after x 0..2 bystanders x 3 publish counts: {} cases", cc.len()));
        report.merge(r);
    }
    // enumerated: stall at publish 2 with every budget class, sizes around the HWM, resume later
    let mut cases = vec![];
    for xpub in [false, true] {
        for with_healthy in [false, true] {
            for budget in [0usize, 1, 10, 131_071, 131_072, 131_073] {
                for szi in 0..SIZES.len() as u8 {
                    let mut publishes = vec![1u8, 1];
                    publishes.extend(std::iter::repeat(szi).take(if SIZES[szi as usize] < 2000 { 300 } else { 8 }));
                    publishes.extend([1u8, 1]);
                    let np = publishes.len();
                    cases.push(SlowCase {
                        xpub,
                        with_healthy,
                        slow: vec![vec![(2, WinEv::Stall(budget)), (np - 2, WinEv::Open)]],
                        publishes: publishes.clone(),
                        filtered: false,
                    });
                    cases.push(SlowCase {
                        xpub,
                        with_healthy,
                        slow: vec![vec![(2, WinEv::Stall(budget)), (np - 2, WinEv::Open)]],
                        publishes: publishes.clone(),
                        filtered: true,
                    });
                    cases.push(SlowCase {
                        xpub,
                        with_healthy,
                        slow: vec![vec![(2, WinEv::Stall(budget))], vec![(3, WinEv::Break)]],
                        publishes,
                        filtered: false,
                    });
                }
            }
        }
    }
    let r = run_cases(ctx, "slow", &cases, slow_outcome);
    report.exhaustive_parts.push(format!("PUB/XPUB x with/without a healthy subscriber x 6 stall budgets x 10 message sizes (the 255-byte frame boundary, the 128 KiB high-water mark) x (stall-then-resume, never-drain + broken peer): {} cases", cases.len()));
    report.merge(r);
    let n = t.pick(2500, 100_000);
    let budget = t.pick(3 << 20, 8 << 20);
    let r = run_random(ctx, "slow", n, 60..=500, |s| gen_slow(s, budget), slow_outcome);
    report.sections.push(json!({"part": "random back-pressure patterns (stall after k bytes, partial writes, resume, break) for 1..3 slow subscribers, 20..400 publishes", "cases": n}));
    report.merge(r);

    {
        // real transports, one thread (see C17 / C03): the limit case of a slow subscriber is one
        // that never gets past its handshake. It must not keep other subscribers of the same
        // endpoint from joining and being published to (scenario machinery: C20's).
        use crate::props::c20::{StallCase, Staller, Then};
        use crate::realnet::Transport;
        let mut netctx = ctx.clone();
        netctx.threads = 1;
        let mut nc = vec![];
        for kind in [Kind::Pub, Kind::XPub] {
            for transport in [Transport::TcpV4, Transport::Ipc] {
                for offset in [0usize, 11, 64, 70] {
                    nc.push(StallCase { kind, transport, stallers: vec![Staller { offset, then: Then::Hold }] });
                }
                nc.push(StallCase { kind, transport, stallers: vec![Staller { offset: 10, then: Then::Hold }, Staller { offset: 64, then: Then::Hold }, Staller { offset: 2, then: Then::Huge }] });
            }
        }
        let r = run_cases(&netctx, "net", &nc, net_outcome);
        report.exhaustive_parts.push(format!("real TCP and IPC endpoints of PUB/XPUB: 1..3 subscribers stalled inside their handshake (before the greeting, inside it, before / inside READY, inside an announced huge frame) while other subscribers join and are published to: {} cases", nc.len()));
        report.merge(r);
        crate::realnet::cleanup_scratch();
    }

    let total = report.evaluations;
    health_abs(&mut report, "subscriber-stalled-in-handshake-on-a-real-transport", 16);
    health(&mut report, "stall>=HWM-then-resume", total, 200);
    health_abs(&mut report, "heap-measured-during-stall", 100);
    health_abs(&mut report, "broken-subscriber", 100);
    health_abs(&mut report, "subscribers-filter-on-a-topic", 300);

    let meta = PropertyMeta {
        level: "fault_enumeration",
        rule: "real PUB and XPUB sockets with raw subscribers whose write side follows a generated back-pressure pattern (accept k bytes then stall, k-byte partial writes, resume, never drain, BrokenPipe) while 20..400 tagged messages with sizes from {1, 254, 255, 256, 1000, 65536, 131071, 131072, 131073, 200000} are published. Oracles: (1) every publish completes with no window action in between; (2) a subscriber that accepts every write receives every publish, in order; (3) a slow subscriber's wire is a well-formed ZMTP stream whose complete messages are an unmodified, order-preserving subsequence of the MATCHING publishes (in a third of the cases everybody subscribes to 'tt' and half of the publishes have a first frame that is a proper prefix of it, empty or unrelated; a trailing fragment only on a broken connection and then a prefix of a later publish); (4) of the bytes published while a subscriber was stalled at most HWM + one message reach it later, and live heap (counting allocator) grows by at most 2 x (HWM + largest message) + 64 KiB per stalled subscriber while all subscribers are stalled; (5) a broken subscriber does not make publish fail; every other subscriber holds a second, overlapping subscription and must still get each matching publish exactly once; (6) on real TCP and IPC endpoints subscribers stalled inside their handshake do not keep other subscribers from joining and receiving every publish. Non-trivial = a subscriber stalls while >= HWM bytes are published and later resumes; distinct by case".into(),
        assumptions: vec!["the high-water mark is asynchronous-codec's default send HWM (131072 bytes), which the library does not change".into()],
        exhaustive: false,
    };
    (report, meta)
}

/// A subscriber that stalls inside its handshake on a REAL endpoint (C20's scenario machinery; a
/// failure is this property's because the staller is the slowest possible subscriber).
pub fn net_outcome(c: &crate::props::c20::StallCase) -> Outcome {
    let mut o = crate::props::c20::stall_outcome(c);
    for f in o.failures.iter_mut() {
        f.sig = format!("C12/real-transport/{}", f.sig.trim_start_matches("C20/"));
    }
    o.classes = vec!["subscriber-stalled-in-handshake-on-a-real-transport".into()];
    o
}

pub fn replay(_ctx: &Ctx, kind: &str, case: &Value) -> Vec<Failure> {
    match kind {
        "net" => parse_case::<crate::props::c20::StallCase>(case).map(|c| net_outcome(&c).failures),
        "slow" => parse_case::<SlowCase>(case).map(|c| slow_outcome(&c).failures),
        "comeback" => parse_case::<ComebackCase>(case).map(|c| comeback_outcome(&c).failures),
        _ => Err(vec![Failure::new("replay/unknown-kind", kind.to_string())]),
    }
    .unwrap_or_else(|e| e)
}
