//! Real-transport harness (DESIGN §2.5): real TCP / IPC listeners and raw clients that speak the
//! reference codec, on a current-thread tokio runtime.

use crate::refcodec::{self, RefItem, Strictness};
use crate::sim::{AnySocket, Frames, Kind};

use tokio::io::{AsyncReadExt, AsyncWriteExt};
use tokio::net::{TcpStream, UnixStream};

use std::path::PathBuf;
use std::sync::atomic::{AtomicU64, Ordering};
use std::time::Duration;

pub fn run_net<T>(f: impl std::future::Future<Output = T>) -> T {
    let rt = tokio::runtime::Builder::new_current_thread().enable_all().build().expect("runtime");
    let r = rt.block_on(f);
    // let blocking file removals and aborted tasks finish
    rt.shutdown_timeout(Duration::from_secs(2));
    r
}

static NEXT_PATH: AtomicU64 = AtomicU64::new(0);

/// Per-process scratch directory for IPC socket files (removed by `cleanup_scratch`).
pub fn scratch_dir() -> PathBuf {
    let d = std::env::temp_dir().join(format!("vc{}", std::process::id()));
    let _ = std::fs::create_dir_all(&d);
    d
}

pub fn fresh_ipc_path() -> PathBuf {
    let n = NEXT_PATH.fetch_add(1, Ordering::SeqCst);
    scratch_dir().join(format!("s{}", n))
}

pub fn cleanup_scratch() {
    let _ = std::fs::remove_dir_all(scratch_dir());
}

pub fn fd_count() -> usize {
    std::fs::read_dir("/proc/self/fd").map(|d| d.count()).unwrap_or(0)
}

pub fn alive_tasks() -> usize {
    tokio::runtime::Handle::current().metrics().num_alive_tasks()
}

/// Wait until `cond` holds, checking every millisecond; the limit is a watchdog only.
pub async fn eventually(limit: Duration, mut cond: impl FnMut() -> bool) -> bool {
    let start = std::time::Instant::now();
    loop {
        for _ in 0..4 {
            tokio::task::yield_now().await;
        }
        if cond() {
            return true;
        }
        if start.elapsed() > limit {
            return false;
        }
        tokio::time::sleep(Duration::from_millis(1)).await;
    }
}

pub const LIMIT: Duration = Duration::from_secs(5);

#[derive(Debug, Clone, Copy, PartialEq, Eq, Hash, serde::Serialize, serde::Deserialize)]
pub enum Transport {
    TcpV4,
    TcpV6,
    TcpLocalhost,
    Ipc,
}

impl Transport {
    /// endpoint text to bind (wildcard port / fresh path)
    pub fn bind_text(self) -> String {
        match self {
            Transport::TcpV4 => "tcp://127.0.0.1:0".into(),
            Transport::TcpV6 => "tcp://[::1]:0".into(),
            Transport::TcpLocalhost => "tcp://localhost:0".into(),
            Transport::Ipc => format!("ipc://{}", fresh_ipc_path().display()),
        }
    }
}

pub enum RawStream {
    Tcp(TcpStream),
    Unix(UnixStream),
}

pub struct RawConn {
    pub stream: RawStream,
    pub inbuf: Vec<u8>,
    /// offset in inbuf after the library's greeting+READY
    pub traffic_from: Option<usize>,
}

/// A raw LISTENER (for the library's connect side): returns the listener and its endpoint text.
pub async fn raw_listen() -> std::io::Result<(tokio::net::TcpListener, String)> {
    let l = tokio::net::TcpListener::bind(("127.0.0.1", 0)).await?;
    let port = l.local_addr()?.port();
    Ok((l, format!("tcp://127.0.0.1:{}", port)))
}

pub async fn raw_accept(l: &tokio::net::TcpListener) -> std::io::Result<RawConn> {
    let (s, _) = l.accept().await?;
    let _ = s.set_nodelay(true);
    Ok(RawConn {
        stream: RawStream::Tcp(s),
        inbuf: vec![],
        traffic_from: None,
    })
}

/// Connect a raw client to the text form of an endpoint returned by bind().
pub async fn raw_connect(endpoint_text: &str) -> std::io::Result<RawConn> {
    let stream = if let Some(rest) = endpoint_text.strip_prefix("tcp://") {
        let (host, port) = rest.rsplit_once(':').ok_or_else(|| std::io::Error::new(std::io::ErrorKind::InvalidInput, "no port"))?;
        let host = host.trim_start_matches('[').trim_end_matches(']');
        let port: u16 = port.parse().map_err(|_| std::io::Error::new(std::io::ErrorKind::InvalidInput, "bad port"))?;
        let s = TcpStream::connect((host, port)).await?;
        let _ = s.set_nodelay(true);
        RawStream::Tcp(s)
    } else if let Some(path) = endpoint_text.strip_prefix("ipc://") {
        RawStream::Unix(UnixStream::connect(path).await?)
    } else {
        return Err(std::io::Error::new(std::io::ErrorKind::InvalidInput, "unknown scheme"));
    };
    Ok(RawConn {
        stream,
        inbuf: vec![],
        traffic_from: None,
    })
}

/// A client that is gone before the listener has taken it from the backlog: connects and
/// closes SYNCHRONOUSLY (no await in between, so on the single-threaded runtime the accept task
/// cannot run in the meantime). TCP: closes with SO_LINGER 0, i.e. an RST that reaches the
/// connection while it still waits in the accept queue (then `accept()` hands out a socket on
/// which e.g. `peer_addr()` fails with ENOTCONN and reads fail with ECONNRESET); with
/// `reset == false`, and always on IPC, an orderly close.
pub fn abort_connect(endpoint_text: &str, reset: bool) -> std::io::Result<()> {
    if let Some(rest) = endpoint_text.strip_prefix("tcp://") {
        let (host, port) = rest.rsplit_once(':').ok_or_else(|| std::io::Error::new(std::io::ErrorKind::InvalidInput, "no port"))?;
        let host = host.trim_start_matches('[').trim_end_matches(']');
        let port: u16 = port.parse().map_err(|_| std::io::Error::new(std::io::ErrorKind::InvalidInput, "bad port"))?;
        let s = std::net::TcpStream::connect((host, port))?;
        if reset {
            use std::os::unix::io::AsRawFd;
            let l = libc::linger { l_onoff: 1, l_linger: 0 };
            let r = unsafe { libc::setsockopt(s.as_raw_fd(), libc::SOL_SOCKET, libc::SO_LINGER, &l as *const _ as *const libc::c_void, std::mem::size_of::<libc::linger>() as libc::socklen_t) };
            if r != 0 {
                return Err(std::io::Error::last_os_error());
            }
        }
        drop(s);
        Ok(())
    } else if let Some(path) = endpoint_text.strip_prefix("ipc://") {
        let s = std::os::unix::net::UnixStream::connect(path)?;
        drop(s);
        Ok(())
    } else {
        Err(std::io::Error::new(std::io::ErrorKind::InvalidInput, "unknown scheme"))
    }
}

impl RawConn {
    pub async fn write(&mut self, data: &[u8]) -> std::io::Result<()> {
        match &mut self.stream {
            RawStream::Tcp(s) => s.write_all(data).await,
            RawStream::Unix(s) => s.write_all(data).await,
        }
    }
    /// one read with a time limit. Ok(0) = EOF, Err = reset etc., None = nothing within limit
    pub async fn read_some(&mut self, limit: Duration) -> Option<std::io::Result<usize>> {
        let mut buf = [0u8; 8192];
        let r = match &mut self.stream {
            RawStream::Tcp(s) => tokio::time::timeout(limit, s.read(&mut buf)).await,
            RawStream::Unix(s) => tokio::time::timeout(limit, s.read(&mut buf)).await,
        };
        match r {
            Err(_) => None,
            Ok(Ok(n)) => {
                self.inbuf.extend_from_slice(&buf[..n]);
                Some(Ok(n))
            }
            Ok(Err(e)) => Some(Err(e)),
        }
    }
    /// Full well-behaved handshake: send greeting+READY, read the library's greeting+READY.
    pub async fn handshake(&mut self, socket_type: &str, identity: Option<&[u8]>) -> Result<(), String> {
        self.write(&refcodec::handshake_bytes(socket_type, identity)).await.map_err(|e| format!("write: {}", e))?;
        self.await_lib_handshake().await
    }
    pub async fn await_lib_handshake(&mut self) -> Result<(), String> {
        let start = std::time::Instant::now();
        loop {
            let p = refcodec::parse_stream(&self.inbuf, Strictness::EMITTED_WITH_GREETING);
            if p.items.len() >= 2 {
                if let (RefItem::Greeting(_), RefItem::Command { .. }) = (&p.items[0], &p.items[1]) {
                    self.traffic_from = Some(p.item_ends[1]);
                    return Ok(());
                }
                return Err("library handshake malformed".into());
            }
            if start.elapsed() > LIMIT {
                return Err(format!("library handshake not received within {:?} ({} bytes so far)", LIMIT, self.inbuf.len()));
            }
            match self.read_some(Duration::from_millis(200)).await {
                Some(Ok(0)) => return Err("connection closed during handshake".into()),
                Some(Err(e)) => return Err(format!("connection error during handshake: {}", e)),
                _ => {}
            }
        }
    }
    pub async fn send_msg(&mut self, frames: &[Vec<u8>]) -> std::io::Result<()> {
        self.write(&refcodec::encode_message(frames)).await
    }
    /// complete messages received after the handshake
    pub fn messages(&self) -> Vec<Frames> {
        let Some(from) = self.traffic_from else { return vec![] };
        let p = refcodec::parse_stream(&self.inbuf[from..], Strictness::EMITTED);
        p.items.into_iter().filter_map(|i| if let RefItem::Message(m) = i { Some(m) } else { None }).collect()
    }
    /// wait until at least n messages have arrived
    pub async fn await_messages(&mut self, n: usize, limit: Duration) -> bool {
        let start = std::time::Instant::now();
        loop {
            if self.messages().len() >= n {
                return true;
            }
            if start.elapsed() > limit {
                return false;
            }
            let left = limit.saturating_sub(start.elapsed()).min(Duration::from_millis(100)).max(Duration::from_millis(1));
            match self.read_some(left).await {
                Some(Ok(0)) | Some(Err(_)) => return self.messages().len() >= n,
                _ => {}
            }
        }
    }
    /// does the peer see the end of the connection (EOF or reset) within the limit?
    pub async fn await_end(&mut self, limit: Duration) -> bool {
        let start = std::time::Instant::now();
        loop {
            match self.read_some(Duration::from_millis(100)).await {
                Some(Ok(0)) | Some(Err(_)) => return true,
                _ => {}
            }
            if start.elapsed() > limit {
                return false;
            }
        }
    }
}

/// Is a fresh connection to the endpoint refused (TCP: connection refused; IPC: path gone or refused)?
pub async fn connect_refused(endpoint_text: &str) -> bool {
    // an unrelated process may be handed the just-released port for a moment: a connection
    // that succeeds is re-tried a few times before it counts
    for attempt in 0..4 {
        match tokio::time::timeout(Duration::from_secs(5), raw_connect(endpoint_text)).await {
            Ok(Ok(_)) => {}
            Ok(Err(_)) => return true,
            Err(_) => {}
        }
        if attempt < 3 {
            tokio::time::sleep(Duration::from_millis(30)).await;
        }
    }
    false
}

/// single attempt (for polling loops)
pub async fn connect_refused_once(endpoint_text: &str) -> bool {
    matches!(tokio::time::timeout(Duration::from_secs(5), raw_connect(endpoint_text)).await, Ok(Err(_)))
}

pub fn ipc_path_of(endpoint_text: &str) -> Option<PathBuf> {
    endpoint_text.strip_prefix("ipc://").map(PathBuf::from)
}

// ------------------------------------------------------------------------------------------
// socket helpers

use zeromq::{Endpoint, Socket, SocketEvent, ZmqError};

macro_rules! each_socket {
    ($s:expr, $x:ident => $body:expr) => {
        match $s {
            AnySocket::Pub($x) => $body,
            AnySocket::Sub($x) => $body,
            AnySocket::Req($x) => $body,
            AnySocket::Rep($x) => $body,
            AnySocket::Dealer($x) => $body,
            AnySocket::Router($x) => $body,
            AnySocket::Pull($x) => $body,
            AnySocket::Push($x) => $body,
            AnySocket::XPub($x) => $body,
        }
    };
}

pub async fn sock_bind(s: &mut AnySocket, text: &str) -> Result<Endpoint, ZmqError> {
    each_socket!(s, x => x.bind(text).await)
}
pub async fn sock_unbind(s: &mut AnySocket, e: Endpoint) -> Result<(), ZmqError> {
    each_socket!(s, x => x.unbind(e).await)
}
pub async fn sock_connect(s: &mut AnySocket, text: &str) -> Result<(), ZmqError> {
    each_socket!(s, x => x.connect(text).await)
}
pub async fn sock_close(s: AnySocket) -> Vec<ZmqError> {
    each_socket!(s, x => x.close().await)
}
pub fn sock_binds(s: &mut AnySocket) -> Vec<Endpoint> {
    each_socket!(s, x => x.binds().keys().cloned().collect())
}
pub fn sock_monitor(s: &mut AnySocket) -> futures::channel::mpsc::Receiver<SocketEvent> {
    each_socket!(s, x => x.monitor())
}

/// One message exchange between the socket and an established raw client, in the direction(s)
/// the socket type supports. `tag` must be unique per call.
pub async fn exchange(s: &mut AnySocket, kind: Kind, c: &mut RawConn, tag: &str) -> Result<(), String> {
    use zeromq::{SocketRecv, SocketSend};
    let t = tag.as_bytes().to_vec();
    let lim = LIMIT;
    // inbound
    if kind.fair_queue_recv() {
        let wire: Frames = match kind {
            Kind::Rep => vec![vec![], t.clone()],
            Kind::XPub => {
                let mut f = vec![1u8];
                f.extend_from_slice(&t);
                vec![f]
            }
            _ => vec![t.clone()],
        };
        c.send_msg(&wire).await.map_err(|e| format!("client write: {}", e))?;
        // other peers' traffic may come first: receive until ours shows up
        let mut seen = 0;
        loop {
            let m = tokio::time::timeout(lim, s.recv()).await.map_err(|_| format!("recv did not return the message of an established connection within {:?}", lim))?;
            match m {
                Ok(m) => {
                    let fr: Frames = m.into_vec().into_iter().map(|b| b.to_vec()).collect();
                    let body = if kind == Kind::Router { fr[1..].to_vec() } else { fr.clone() };
                    let want = match kind {
                        Kind::Rep => vec![t.clone()],
                        _ => wire.clone(),
                    };
                    if body == want {
                        if kind == Kind::Router {
                            // route an answer back
                            let id = fr[0].clone();
                            s.send(crate::sim::to_msg(&[id, b"back".to_vec()])).await.map_err(|e| format!("ROUTER send back: {:?}", e))?;
                            let n = c.messages().len();
                            if !c.await_messages(n + 1, lim).await {
                                return Err("ROUTER's routed answer did not arrive".into());
                            }
                        }
                        if kind == Kind::Rep {
                            s.send(crate::sim::to_msg(&[b"reply".to_vec()])).await.map_err(|e| format!("REP reply: {:?}", e))?;
                            let n = c.messages().len();
                            if !c.await_messages(n + 1, lim).await {
                                return Err("REP's reply did not arrive".into());
                            }
                        }
                        break;
                    }
                }
                Err(_) => {}
            }
            seen += 1;
            if seen > 50 {
                return Err("50 recv results without the expected message".into());
            }
        }
    }
    // outbound for send-only / pub-sub kinds
    match kind {
        Kind::Pub | Kind::XPub => {
            if kind == Kind::Pub {
                c.send_msg(&[vec![1u8]]).await.map_err(|e| format!("client write: {}", e))?;
            }
            // subscription processing is asynchronous: publish until one copy arrives
            let n = c.messages().len();
            let start = std::time::Instant::now();
            loop {
                s.send(crate::sim::to_msg(&[t.clone(), b"pub".to_vec()])).await.map_err(|e| format!("publish: {:?}", e))?;
                if c.await_messages(n + 1, Duration::from_millis(20)).await {
                    break;
                }
                if start.elapsed() > lim {
                    return Err("no publish reached an established subscriber".into());
                }
            }
        }
        Kind::Push | Kind::Dealer => {
            // round robin: keep sending until this client got one
            let n = c.messages().len();
            for _ in 0..64 {
                // a send that fails because the rotation reached a connection that has gone is
                // how these sockets notice the departure: not an error of this exchange
                let _ = s.send(crate::sim::to_msg(&[t.clone()])).await;
                if c.await_messages(n + 1, Duration::from_millis(5)).await {
                    return Ok(());
                }
            }
            if !c.await_messages(n + 1, lim).await {
                return Err("no message reached an established peer within 64 sends".into());
            }
        }
        _ => {}
    }
    Ok(())
}
