#!/usr/bin/env python3
"""tools/mkreplay.py <ID> <name> <kind> '<case json>' <signature> <message> -> replays/<ID>/<name>.json"""
import json, sys, os
pid, name, kind, case, sig, msg = sys.argv[1:7]
d = os.path.join(os.path.dirname(os.path.dirname(os.path.abspath(__file__))), "replays", pid)
os.makedirs(d, exist_ok=True)
v = {"property": pid, "kind": kind, "signature": sig, "message": msg, "case": json.loads(case)}
json.dump(v, open(os.path.join(d, name + ".json"), "w"), indent=1)
print("wrote", os.path.join(d, name + ".json"))
