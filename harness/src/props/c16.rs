//! C16 — a failed or closed peer is isolated, forgotten, and its connection released.

use crate::core::*;
use crate::fail;
use crate::pipe::ReadEnd;
use crate::props::c05::wire_and_expect;
use crate::props::parse_case;
use crate::refcodec;
use crate::sim::{run_sim, Frames, Kind, Link, Out, Sim, ALL_KINDS};
use crate::simx;

use serde::{Deserialize, Serialize};
use serde_json::{json, Value};

#[derive(Debug, Clone, Copy, Serialize, Deserialize, PartialEq, Eq, Hash)]
pub enum CutKind {
    /// orderly close: end-of-stream on read, writes fail afterwards
    Close,
    /// reset: read error, writes fail
    Reset,
    /// only the write direction fails (reads stay open and silent)
    WriteError,
    /// orderly close as a TCP peer's FIN looks at first: end-of-stream on read while writes
    /// towards it still succeed, so only the socket's own bookkeeping can keep it out
    CloseStillWritable,
    /// the peer stays connected but, at a frame boundary, sends bytes that are not ZMTP (a
    /// command frame whose name length points past the frame): the connection ends by a
    /// protocol error found by the socket itself
    ProtocolError,
}

impl CutKind {
    pub fn name(self) -> &'static str {
        match self {
            CutKind::Close => "orderly-close",
            CutKind::Reset => "reset",
            CutKind::WriteError => "write-error",
            CutKind::CloseStillWritable => "orderly-close-still-writable",
            CutKind::ProtocolError => "protocol-error",
        }
    }
}

#[derive(Debug, Clone, Serialize, Deserialize, PartialEq, Eq, Hash)]
pub struct CutCase {
    pub kind: Kind,
    pub healthy: usize,
    pub cut: CutKind,
    /// byte position in the victim's stream (handshake + traffic) at which it ends; clamped
    pub pos: usize,
    /// victim's traffic: messages (frame lengths)
    pub victim_msgs: Vec<Vec<usize>>,
    /// deliver the victim's bytes in two portions, the first of this many bytes (0 = at once)
    pub split: usize,
    /// the application's tail: how many extra rounds of healthy traffic + calls after the cut
    pub rounds: usize,
    /// error kind writes to the victim fail with: 0 = BrokenPipe (EPIPE), 1 = ConnectionReset
    /// (after an RST), 2 = TimedOut, 3 = ConnectionAborted
    #[serde(default)]
    pub write_err: u8,
    /// extra messages each healthy peer sends per round (so that the victim's end is met in
    /// the same poll of the receive queue as other peers' pending messages)
    #[serde(default)]
    pub burst: usize,
    /// after the tail a NEW connection announcing the victim's identity joins (a peer that
    /// restarts): it must be admitted and work like any healthy peer, whether or not the socket
    /// has noticed the end of the old connection
    #[serde(default)]
    pub comeback: bool,
    /// further peers whose connections end with an ERROR inside a frame at the same time as the
    /// victim's (several dead peers' left-over queue events between two deliveries)
    #[serde(default)]
    pub extra_failing: usize,
}

pub const VICTIM_ID: &[u8] = b"victim-identity";

pub fn victim_stream(kind: Kind, msgs: &[Vec<usize>]) -> (Vec<u8>, usize, Vec<usize>, Vec<Option<Frames>>) {
    // the victim announces a fixed identity, so that it can come back under it
    let mut s = refcodec::handshake_bytes(kind.a_compatible_peer(), Some(VICTIM_ID));
    let hs = s.len();
    let mut ends = vec![];
    let mut expect = vec![];
    if kind.can_recv() && kind != Kind::Req || kind == Kind::Pub {
        for (seq, lens) in msgs.iter().enumerate() {
            let (w, e) = if kind == Kind::Pub {
                // a subscriber's traffic towards a PUB: subscription messages; every one of
                // them is a prefix of the tail's "vvvv-<n>" publishes
                let mut t = vec![1u8];
                t.extend_from_slice(&vec![b'v'; lens.first().copied().unwrap_or(0).min(3)]);
                (vec![t], None)
            } else {
                wire_and_expect(kind, 99, seq, lens, false)
            };
            s.extend_from_slice(&refcodec::encode_message(&w));
            ends.push(s.len());
            expect.push(e);
        }
    }
    (s, hs, ends, expect)
}

/// byte-position classes of a victim stream: (label, position)
pub fn position_classes(kind: Kind, msgs: &[Vec<usize>]) -> Vec<(String, usize)> {
    let (s, hs, ends, _) = victim_stream(kind, msgs);
    let mut v: Vec<(String, usize)> = vec![
        ("before-any-byte".into(), 0),
        ("inside-greeting".into(), 10),
        ("between-greeting-and-READY".into(), 64),
        ("inside-READY-header".into(), 65),
        ("inside-READY-body".into(), 64 + 12),
        ("after-handshake".into(), hs),
    ];
    if s.len() > hs {
        v.push(("inside-frame-flags-size".into(), hs + 1));
        if ends[0] > hs + 3 {
            v.push(("inside-frame-body".into(), hs + 3));
        }
        // between frames of the first (multipart) message: after its first frame
        let first_frame_len = {
            let body = &s[hs..];
            let fl = body[0];
            if fl & 2 != 0 { 9 + u64::from_be_bytes([body[1], body[2], body[3], body[4], body[5], body[6], body[7], body[8]]) as usize } else { 2 + body[1] as usize }
        };
        if hs + first_frame_len < ends[0] {
            v.push(("between-frames-of-a-multipart-message".into(), hs + first_frame_len));
        }
        v.push(("between-messages".into(), ends[0]));
        if ends.len() > 1 {
            v.push(("inside-second-message".into(), ends[0] + 2));
            v.push(("after-all-traffic".into(), *ends.last().unwrap()));
        }
    }
    v
}

pub fn cut_outcome(c: &CutCase) -> Outcome {
    let mut o = Outcome::new(hash_of(c));
    let c2 = c.clone();
    let (r, panics) = capture_panics(|| {
        run_sim(async move {
            let c = c2;
            let kind = c.kind;
            let who = kind.name();
            let ck = c.cut.name();
            let mut f: Vec<Failure> = vec![];
            let mut classes: Vec<String> = vec![];
            let mut sim = Sim::new();
            let s = sim.socket(kind, None);
            // healthy peers
            let mut healthy: Vec<(Link, Vec<u8>)> = vec![];
            for _ in 0..c.healthy.max(1) {
                match simx::attach_raw(&mut sim, s, None).await {
                    Ok(x) => healthy.push(x),
                    Err(e) => {
                        fail!(f, format!("C16/{}/setup", who), "{}", e);
                        return (f, classes);
                    }
                }
            }
            if matches!(kind, Kind::Pub | Kind::XPub) {
                for (l, _) in &healthy {
                    l.raw_send_now(&[vec![1u8]]);
                }
                let _ = sim.settle().await;
                if kind == Kind::XPub {
                    let _ = simx::recv_until_pending(&mut sim, s, 8).await;
                }
            }
            // victim
            let (stream, hs, ends, vexpect) = victim_stream(kind, &c.victim_msgs);
            let pos = match c.cut {
                CutKind::WriteError => stream.len(),
                // at a message boundary after the handshake
                CutKind::ProtocolError => std::iter::once(hs).chain(ends.iter().copied()).filter(|e| *e <= c.pos.max(hs)).last().unwrap_or(hs),
                _ => c.pos.min(stream.len()),
            };
            let victim = sim.link();
            victim.to_lib.deposit(&stream[..pos]);
            match c.cut {
                CutKind::Close | CutKind::CloseStillWritable => victim.to_lib.end_after_all(ReadEnd::Eof),
                CutKind::Reset => victim.to_lib.end_after_all(ReadEnd::Err(std::io::ErrorKind::ConnectionReset)),
                CutKind::WriteError => {}
                CutKind::ProtocolError => {
                    // command frame: name length 5, one byte of name; then a well-formed message
                    // that must never surface
                    victim.to_lib.deposit(&[0x04, 0x02, 0x05, b'A']);
                    victim.to_lib.deposit(&refcodec::encode_message(&wire_and_expect(kind, 98, 0, &[4], false).0));
                }
            }
            let va = sim.attach(s, &victim);
            if c.split > 0 && c.split < pos {
                victim.to_lib.deliver(c.split);
                let _ = sim.settle().await;
            }
            // the library's own handshake is written before the write side breaks
            victim.to_lib.deliver_all();
            if sim.settle().await.is_err() {
                fail!(f, format!("C16/{}/{}/spin", who, ck), "socket does not settle while the victim connects");
                return (f, classes);
            }
            let admitted = matches!(sim.out(va), Some(Out::Attach(Ok(_))));
            let vid: Option<Vec<u8>> = if let Some(Out::Attach(Ok(id))) = sim.out(va) { Some(id.clone()) } else { None };
            if !matches!(c.cut, CutKind::CloseStillWritable | CutKind::ProtocolError) {
                let kind = match c.write_err % 4 {
                    0 => std::io::ErrorKind::BrokenPipe,
                    1 => std::io::ErrorKind::ConnectionReset,
                    2 => std::io::ErrorKind::TimedOut,
                    _ => std::io::ErrorKind::ConnectionAborted,
                };
                if c.write_err % 4 != 0 {
                    classes.push("write-error-other-than-EPIPE".into());
                }
                victim.from_lib.break_writer(kind);
            }
            let mid_msg = pos > hs && !ends.contains(&pos);
            if pos < hs {
                classes.push("cut-inside-handshake".into());
            } else if mid_msg {
                classes.push("cut-inside-message".into());
            } else {
                classes.push("cut-between-messages".into());
            }
            if !admitted {
                // a connection that ended during the handshake: released, never a peer
                if pos >= hs {
                    fail!(f, format!("C16/{}/{}/complete-handshake-not-admitted", who, ck), "{:?}", sim.out(va));
                }
                if !sim.done(va) {
                    fail!(f, format!("C16/{}/{}/handshake-cut-hangs", who, ck), "the connection ended at byte {} of the handshake but the handshake neither failed nor completed", pos);
                } else if !victim.to_lib.reader_dropped() || !victim.from_lib.writer_dropped() {
                    fail!(f, format!("C16/{}/{}/handshake-cut-not-released", who, ck), "connection that ended at byte {} of the handshake is still held (read half dropped: {}, write half dropped: {})", pos, victim.to_lib.reader_dropped(), victim.from_lib.writer_dropped());
                }
            }
            // further failing peers: handshake, the start of a frame, then a reset
            let mut extras: Vec<Link> = vec![];
            if kind != Kind::Req {
                for _ in 0..c.extra_failing.min(4) {
                    let l = sim.link();
                    let mut st = refcodec::handshake_bytes(kind.a_compatible_peer(), None);
                    st.extend_from_slice(&[0x00, 0x0a, b'a', b'b', b'c']);
                    l.to_lib.deposit(&st);
                    l.to_lib.end_after_all(ReadEnd::Err(std::io::ErrorKind::ConnectionReset));
                    let a = sim.attach(s, &l);
                    l.to_lib.deliver_all();
                    let _ = sim.settle().await;
                    if !matches!(sim.out(a), Some(Out::Attach(Ok(_)))) {
                        continue;
                    }
                    // (the library's own handshake is written before the write side breaks)
                    l.from_lib.break_writer(std::io::ErrorKind::ConnectionReset);
                    extras.push(l);
                }
                if !extras.is_empty() {
                    classes.push("several-peers-fail-at-once".into());
                }
            }
            let victim_complete = ends.iter().filter(|e| **e <= pos).count();
            // ---- tail: rounds of healthy traffic and application calls
            let mut oks: Vec<Frames> = vec![];
            let mut errs: Vec<String> = vec![];
            let mut healthy_sent: Vec<Vec<Frames>> = vec![vec![]; healthy.len()]; // expected recv results
            let mut sent_ok: Vec<Frames> = vec![]; // wire form of every message whose send returned Ok
            let mut failed_sends = 0usize;
            let mut failed_sends_after_observed = 0usize;
            let mut landed_on_victim = 0usize;
            let mut landed_on_victim_after_observed = 0usize;
            let mut ok_sends = 0usize;
            let mut req_answered: Vec<usize> = vec![0; healthy.len()];
            let mut published = 0usize;
            let protocol_error = c.cut == CutKind::ProtocolError;
            // a protocol error has been observed once recv has reported it or the reading side let
            // go of the connection (the bad bytes may sit unread in the framed reader's buffer
            // long before that: reading them is not yet decoding them). A PUSH never reads from
            // its peers, so it cannot observe one.
            let observed = |victim: &Link, nerr: usize| victim.to_lib.end_reported() > 0 || victim.from_lib.failed_writes() > 0 || (protocol_error && kind != Kind::Push && (nerr > 0 || victim.to_lib.reader_dropped()));
            for round in 0..(c.rounds + 2) {
                // healthy peers talk
                if kind.fair_queue_recv() {
                    for (hi, (l, _)) in healthy.iter().enumerate() {
                        // a REP's requesters are lock-step: one request at a time
                        let n = if kind == Kind::Rep { 1 } else { 1 + c.burst.min(6) };
                        for _ in 0..n {
                            let seq = healthy_sent[hi].len();
                            let (w, e) = wire_and_expect(kind, hi, seq, &[3, 0, 40], false);
                            l.raw_send_now(&w);
                            healthy_sent[hi].push(e.unwrap());
                        }
                    }
                    // recv until pending; a REP answers each request before asking for the next
                    for _ in 0..40 {
                        let r = sim.recv(s);
                        match sim.run(r).await {
                            Ok(Some(Out::Recv(Ok(m)))) => {
                                oks.push(m);
                                if kind == Kind::Rep {
                                    // a reply to a healthy requester must arrive there (and only there)
                                    let from = oks.last().and_then(|m| m.first()).and_then(|t| t.iter().position(|c| *c == b'-').and_then(|d| t.get(1..d)).and_then(|x| std::str::from_utf8(x).ok()).and_then(|x| x.parse::<usize>().ok()));
                                    let before: Vec<usize> = healthy.iter().map(|(l, _)| l.lib_messages_prefix().map(|x| x.0.len()).unwrap_or(0)).collect();
                                    let reply = vec![format!("rep-{}", oks.len()).into_bytes(), vec![], b"r".to_vec()];
                                    let a = sim.send(s, &reply);
                                    let res = sim.run(a).await;
                                    if let Some(hi) = from.filter(|h| *h < healthy.len()) {
                                        let mut want = vec![vec![]];
                                        want.extend(reply.clone());
                                        let got = healthy[hi].0.lib_messages_prefix().map(|x| x.0).unwrap_or_default();
                                        let grew: Vec<usize> = healthy.iter().enumerate().filter(|(i, (l, _))| l.lib_messages_prefix().map(|x| x.0.len()).unwrap_or(0) != before[*i]).map(|x| x.0).collect();
                                        if !matches!(res, Ok(Some(Out::Send(Ok(()))))) || grew != vec![hi] || got.last() != Some(&want) {
                                            fail!(f, format!("C16/REP/{}/healthy-traffic-disturbed", ck), "reply to healthy requester {}: send returned {:?}, connections that received a message: {:?}", hi, res.as_ref().map(|o| o.as_ref().map(|o| o.err_text().map(|s| s.to_string()))), grew);
                                        }
                                    }
                                }
                            }
                            Ok(Some(Out::Recv(Err(e)))) => errs.push(e.text),
                            Ok(Some(_)) => unreachable!(),
                            Ok(None) => {
                                // recv waits: then nothing a healthy peer has sent may be
                                // outstanding (all of it has been delivered to the socket)
                                let sent_total: usize = healthy_sent.iter().map(|v| v.len()).sum();
                                let got_healthy = oks.iter().filter(|m| m.iter().any(|fr| { let t = if kind == Kind::XPub { fr.get(1..).unwrap_or(&[]) } else { &fr[..] }; t.starts_with(b"p") && !t.starts_with(b"p99-") && !t.starts_with(b"p98-") && t.contains(&b'|') })).count();
                                if got_healthy < sent_total {
                                    fail!(
                                        f,
                                        format!("C16/{}/{}/recv-waits-although-a-healthy-peers-message-is-available", who, ck),
                                        "healthy peers have put {} complete messages on the wire, recv has returned {} of them and now waits with nothing waking it ({} connection(s) ended)",
                                        sent_total,
                                        got_healthy,
                                        1 + extras.len()
                                    );
                                    sim.cancel(r);
                                    return (f, classes);
                                }
                                sim.cancel(r);
                                break;
                            }
                            Err(e) => {
                                fail!(f, format!("C16/{}/{}/spin", who, ck), "recv does not settle after the cut: {:?}", e);
                                return (f, classes);
                            }
                        }
                    }
                }
                // application sends
                match kind {
                    Kind::Push | Kind::Dealer => {
                        let n = healthy.len() + 1;
                        for i in 0..n + 1 {
                            let was_observed = observed(&victim, errs.len());
                            let vbefore = victim.lib_traffic_len();
                            let m: Frames = vec![format!("s{}-{}", round, i).into_bytes(), vec![], b"x".to_vec()];
                            let a = sim.send(s, &m);
                            match sim.run(a).await {
                                Ok(Some(Out::Send(Ok(())))) => {
                                    if victim.lib_traffic_len() != vbefore {
                                        // a still-writable victim swallowed it
                                        landed_on_victim += 1;
                                        if was_observed {
                                            landed_on_victim_after_observed += 1;
                                        }
                                    } else {
                                        ok_sends += 1;
                                        sent_ok.push(m);
                                    }
                                }
                                Ok(Some(Out::Send(Err(_)))) => {
                                    failed_sends += 1;
                                    if was_observed {
                                        failed_sends_after_observed += 1;
                                    }
                                }
                                other => {
                                    fail!(f, format!("C16/{}/{}/send-hangs", who, ck), "{:?}", other);
                                    return (f, classes);
                                }
                            }
                        }
                    }
                    Kind::Req => {
                        let n = healthy.len() + 1;
                        for i in 0..n + 1 {
                            let was_observed = observed(&victim, errs.len());
                            let vbefore = victim.lib_traffic_len();
                            let m: Frames = vec![format!("q{}-{}", round, i).into_bytes(), vec![], b"x".to_vec()];
                            let a = sim.send(s, &m);
                            match sim.run(a).await {
                                Ok(Some(Out::Send(Ok(())))) => {
                                    if victim.lib_traffic_len() != vbefore {
                                        landed_on_victim += 1;
                                        if was_observed {
                                            landed_on_victim_after_observed += 1;
                                        }
                                    } else {
                                        ok_sends += 1;
                                        let mut w = vec![vec![]];
                                        w.extend(m);
                                        sent_ok.push(w);
                                    }
                                    // whoever got it answers
                                    let mut answered = false;
                                    for (hi, (l, _)) in healthy.iter().enumerate() {
                                        let got = l.lib_messages_prefix().map(|x| x.0.len()).unwrap_or(0);
                                        if got > req_answered[hi] {
                                            req_answered[hi] = got;
                                            l.raw_send_now(&[vec![], b"ans".to_vec()]);
                                            answered = true;
                                        }
                                    }
                                    let r = sim.recv(s);
                                    match sim.run(r).await {
                                        Ok(Some(Out::Recv(Ok(_)))) if answered => {}
                                        Ok(Some(Out::Recv(Err(_)))) if !answered => {
                                            // the request went to the victim; its end surfaced as one error
                                            errs.push("req-recv-from-victim".into());
                                        }
                                        Ok(None) => {
                                            sim.cancel(r);
                                            fail!(f, format!("C16/REQ/{}/request-routed-to-dead-peer-hangs", ck), "a request was written to the victim after its connection ended and recv waits forever");
                                            return (f, classes);
                                        }
                                        other => {
                                            fail!(f, format!("C16/REQ/{}/recv", ck), "answered={} {:?}", answered, other.map(|o| o.map(|o| o.err_text().map(|s| s.to_string()))));
                                        }
                                    }
                                }
                                Ok(Some(Out::Send(Err(_)))) => {
                                    failed_sends += 1;
                                    if was_observed {
                                        failed_sends_after_observed += 1;
                                    }
                                }
                                other => {
                                    fail!(f, format!("C16/{}/{}/send-hangs", who, ck), "{:?}", other);
                                    return (f, classes);
                                }
                            }
                        }
                    }
                    Kind::Router => {
                        for (hi, (l, id)) in healthy.iter().enumerate() {
                            let before = l.lib_messages_prefix().map(|x| x.0.len()).unwrap_or(0);
                            let a = sim.send(s, &[id.clone(), format!("r{}", round).into_bytes()]);
                            match sim.run(a).await {
                                Ok(Some(Out::Send(Ok(())))) if l.lib_messages_prefix().map(|x| x.0.len()).unwrap_or(0) == before + 1 => {}
                                other => fail!(f, format!("C16/ROUTER/{}/healthy-traffic-disturbed", ck), "send to healthy peer {}: {:?}", hi, other),
                            }
                        }
                        if let Some(id) = &vid {
                            if !observed(&victim, errs.len()) && c.cut == CutKind::WriteError {
                                // the failed write is how the socket observes this end
                                let a = sim.send(s, &[id.clone(), b"probe".to_vec()]);
                                let _ = sim.run(a).await;
                            }
                            if observed(&victim, errs.len()) {
                                let a = sim.send(s, &[id.clone(), b"to-the-dead".to_vec()]);
                                match sim.run(a).await {
                                    Ok(Some(Out::Send(Err(_)))) => {}
                                    other => fail!(f, format!("C16/ROUTER/{}/send-to-departed-identity-succeeds", ck), "{:?}", other),
                                }
                            }
                        }
                    }
                    Kind::Pub | Kind::XPub => {
                        // one publish only the healthy subscribers want, and one that also matches
                        // the victim's first subscription (if it got that far)
                        let vtopic: Option<Vec<u8>> = if admitted && ends.first().map(|e| *e <= pos).unwrap_or(false) {
                            let lens = &c.victim_msgs[0];
                            Some(if kind == Kind::Pub { vec![b'v'; lens.first().copied().unwrap_or(0).min(3)] } else { wire_and_expect(kind, 99, 0, lens, false).0[0][1..].to_vec() })
                        } else {
                            None
                        };
                        let mut ms = vec![vec![format!("pub-{}", published).into_bytes(), b"x".to_vec()]];
                        if let Some(t) = vtopic {
                            let mut first = t;
                            first.extend_from_slice(format!("vvvv-{}", published).as_bytes());
                            ms.push(vec![first, b"y".to_vec()]);
                            classes.push("publish-matching-the-victims-subscription".into());
                        }
                        for m in ms {
                            let was_observed = observed(&victim, errs.len());
                            let vbefore = victim.lib_traffic_len();
                            let a = sim.send(s, &m);
                            match sim.run(a).await {
                                Ok(Some(Out::Send(Ok(())))) => published += 1,
                                other => fail!(f, format!("C16/{}/{}/publish-fails", who, ck), "{:?}", other.map(|o| o.map(|o| o.err_text().map(|s| s.to_string())))),
                            }
                            if victim.lib_traffic_len() != vbefore {
                                landed_on_victim += 1;
                                if was_observed {
                                    landed_on_victim_after_observed += 1;
                                }
                            }
                        }
                    }
                    Kind::Sub => {
                        // a subscription change is written to every peer: that is how a SUB
                        // notices a peer whose writes fail
                        let a = sim.subscribe(s, &format!("t{}", round), true);
                        let _ = sim.run(a).await;
                    }
                    _ => {}
                }
                if sim.settle().await.is_err() {
                    fail!(f, format!("C16/{}/{}/spin", who, ck), "socket does not settle");
                    return (f, classes);
                }
            }
            // ---- (a) healthy traffic
            if kind.fair_queue_recv() {
                let mut rest: Vec<Frames> = oks.iter().map(|m| if kind == Kind::Router { m[1..].to_vec() } else { m.clone() }).collect();
                for (hi, sent) in healthy_sent.iter().enumerate() {
                    let mut idx = 0;
                    for want in sent {
                        match rest[idx..].iter().position(|m| m == want) {
                            Some(p) => {
                                rest.remove(idx + p);
                                idx += p;
                            }
                            None => {
                                fail!(f, format!("C16/{}/{}/healthy-traffic-disturbed", who, ck), "a message of healthy peer {} was not delivered (in order) after the victim's connection ended", hi);
                                break;
                            }
                        }
                    }
                }
                // what is left must be the victim's complete messages, in order
                let want_v: Vec<Frames> = if admitted { vexpect[..victim_complete].iter().filter_map(|e| e.clone()).collect() } else { vec![] };
                // once a WRITE to the victim has failed the socket lets go of the connection, and
                // with it of complete messages it had not read yet: then a prefix is enough
                let prefix_ok = victim.from_lib.failed_writes() > 0 && rest.len() <= want_v.len() && rest[..] == want_v[..rest.len()];
                if prefix_ok && rest.len() < want_v.len() {
                    classes.push("victims-unread-messages-dropped-after-a-failed-write".into());
                }
                if rest != want_v && !prefix_ok {
                    let sig = if rest.len() > want_v.len() { "incomplete-or-extra-message-surfaced" } else { "victims-complete-message-lost" };
                    fail!(
                        f,
                        format!("C16/{}/{}/{}", who, ck, sig),
                        "besides the healthy peers' traffic recv returned {} messages; the victim had put {} complete messages on the wire before byte {}",
                        rest.len(),
                        want_v.len(),
                        pos
                    );
                }
            }
            if matches!(kind, Kind::Pub | Kind::XPub) {
                for (hi, (l, _)) in healthy.iter().enumerate() {
                    let n = l.lib_messages().map(|m| m.len()).unwrap_or(usize::MAX);
                    if n != published {
                        fail!(f, format!("C16/{}/{}/healthy-traffic-disturbed", who, ck), "healthy subscriber {} received {} of {} publishes", hi, n, published);
                    }
                }
            }
            if kind == Kind::Sub {
                // every subscription change of the tail reached every healthy publisher, in
                // order, whatever happened to the write towards the victim
                let want: Vec<Frames> = (0..(c.rounds + 2)).map(|r| vec![{
                    let mut v = vec![1u8];
                    v.extend_from_slice(format!("t{}", r).as_bytes());
                    v
                }]).collect();
                for (hi, (l, _)) in healthy.iter().enumerate() {
                    let got = l.lib_messages_prefix().map(|x| x.0).unwrap_or_default();
                    let mut it = got.iter();
                    if !want.iter().all(|w| it.any(|g| g == w)) {
                        fail!(f, format!("C16/SUB/{}/healthy-traffic-disturbed", ck), "healthy publisher {} was told {} of the {} subscription changes made after the victim's connection ended", hi, got.iter().filter(|g| want.contains(g)).count(), want.len());
                        break;
                    }
                }
            }
            if matches!(kind, Kind::Push | Kind::Dealer | Kind::Req) {
                let on_healthy: usize = healthy.iter().map(|(l, _)| l.lib_messages_prefix().map(|x| x.0.len()).unwrap_or(0)).sum();
                if on_healthy != ok_sends {
                    fail!(f, format!("C16/{}/{}/healthy-traffic-disturbed", who, ck), "{} sends succeeded, {} messages reached healthy peers", ok_sends, on_healthy);
                } else {
                    // and they arrived unmodified
                    let mut got: Vec<Frames> = healthy.iter().flat_map(|(l, _)| l.lib_messages_prefix().map(|x| x.0).unwrap_or_default()).collect();
                    let mut want = sent_ok.clone();
                    got.sort();
                    want.sort();
                    if got != want {
                        let bad = got.iter().find(|m| !want.contains(m));
                        fail!(
                            f,
                            format!("C16/{}/{}/healthy-traffic-modified", who, ck),
                            "after a peer's connection ended, a message reached a healthy peer modified: frame lengths {:?} (sent messages have frame lengths {:?})",
                            bad.map(|m| m.iter().map(|x| x.len()).collect::<Vec<_>>()),
                            want.first().map(|m| m.iter().map(|x| x.len()).collect::<Vec<_>>())
                        );
                    }
                }
            }
            // ---- (b) at most one error for the event
            let allowed = if admitted { 1 } else { 0 } + extras.len();
            if errs.len() > allowed {
                let repeated = errs.windows(2).filter(|w| w[0] == w[1]).count();
                fail!(
                    f,
                    format!("C16/{}/{}/error-reported-more-than-once", who, ck),
                    "one connection ended (at byte {}, {}); recv reported {} errors ({} of them repeats of the previous one): {:?}",
                    pos,
                    if mid_msg { "inside a message" } else { "between messages" },
                    errs.len(),
                    repeated,
                    errs.iter().take(3).map(|e| e.chars().take(70).collect::<String>()).collect::<Vec<_>>()
                );
            }
            // ---- (c) sends after the end was observed
            if landed_on_victim > 0 {
                classes.push("send-swallowed-by-a-closed-but-writable-peer".into());
            }
            if landed_on_victim_after_observed > 0 {
                fail!(
                    f,
                    format!("C16/{}/{}/send-routed-to-dead-peer-after-its-end-was-observed", who, ck),
                    "{} sends were written to the connection whose end the socket had already observed (of {} written to it in total)",
                    landed_on_victim_after_observed,
                    landed_on_victim
                );
            }
            // (each further failing peer accounts for at most one failed send: that failure is
            // how a sender notices it)
            if failed_sends_after_observed > extras.len() {
                fail!(
                    f,
                    format!("C16/{}/{}/send-routed-to-dead-peer-after-its-end-was-observed", who, ck),
                    "{} sends failed although the socket had already observed the end of that connection and {} healthy peer(s) are connected ({} sends failed in total)",
                    failed_sends_after_observed,
                    healthy.len(),
                    failed_sends
                );
            }
            // ---- (d) released
            if admitted && observed(&victim, errs.len()) {
                classes.push("end-observed".into());
                if !victim.from_lib.writer_dropped() {
                    fail!(
                        f,
                        format!("C16/{}/{}/write-half-retained", who, ck),
                        "the socket observed the end of the connection (end-of-stream reads: {}, failed writes: {}) but still holds its write half (peer-table entry)",
                        victim.to_lib.end_reported(),
                        victim.from_lib.failed_writes()
                    );
                }
                if !victim.to_lib.reader_dropped() {
                    fail!(
                        f,
                        format!("C16/{}/{}/read-half-retained", who, ck),
                        "the socket observed the end of the connection (end-of-stream reads: {}, failed writes: {}) but still holds its read half",
                        victim.to_lib.end_reported(),
                        victim.from_lib.failed_writes()
                    );
                }
            } else if admitted {
                classes.push("end-never-observed".into());
            }
            // ---- the victim comes back under its identity
            let mut comeback_err: Option<String> = None;
            if c.comeback && kind != Kind::Req {
                classes.push("victim-comes-back-under-its-identity".into());
                match simx::attach_raw(&mut sim, s, Some(VICTIM_ID)).await {
                    Ok((nl, nid)) => {
                        if admitted && vid.as_deref() != Some(&nid[..]) {
                            comeback_err = Some(format!("registered under {} instead of the identity it announced", refcodec::brief(&nid)));
                        } else if let Err(e) = simx::roundtrip_on(&mut sim, s, &nl, &nid, b"comeback", false).await {
                            comeback_err = Some(e);
                        }
                    }
                    Err(e) => comeback_err = Some(format!("not admitted: {}", e)),
                }
            }
            if let Some(e) = comeback_err {
                fail!(f, format!("C16/{}/{}/peer-cannot-come-back-under-its-identity", who, ck), "after its connection ended at byte {} (end observed: {}), a new connection announcing the same identity: {}", pos, observed(&victim, errs.len()), e);
            }
            (f, classes)
        })
    });
    if let Some((f, classes)) = r {
        o.failures = f;
        o.nontrivial = classes.iter().any(|c| c == "cut-inside-message" || c == "cut-inside-handshake");
        o.classes.extend(classes);
    }
    o.class(format!("cut-{}", c.cut.name()));
    for p in panics {
        o.fail(format!("C16/panic/{}", panic_sig(&p)), format!("{} {:?}: {}", c.kind.name(), c.cut, p));
    }
    o
}

// --------------------------------------------------------------------------------------------
// real transports: connect / talk / disconnect cycles against a long-lived socket

#[derive(Debug, Clone, Serialize, Deserialize, PartialEq, Eq, Hash)]
pub struct CycleCase {
    pub kind: Kind,
    pub transport: crate::realnet::Transport,
    pub cycles: usize,
    /// the client resets (SO_LINGER 0 is not available here: it simply drops mid-message)
    pub mid_message: bool,
    /// `monitor()` is called before the bind (some back ends do extra per-peer work only
    /// then); its receiver is kept, or - with `mid_message` - dropped at once
    #[serde(default)]
    pub monitor: bool,
}

pub fn cycle_outcome(c: &CycleCase) -> Outcome {
    use crate::realnet;
    use std::time::Duration;
    let mut o = Outcome::new(hash_of(c));
    o.nontrivial = true;
    o.class("real-transport-cycles");
    let c2 = c.clone();
    let (r, panics) = capture_panics(|| {
        realnet::run_net(async move {
            let c = c2;
            let kind = c.kind;
            let who = kind.name();
            let mut f: Vec<Failure> = vec![];
            let mut s = crate::sim::AnySocket::new(kind, None);
            // with `mid_message` the monitor's receiver is dropped at once (events can no longer
            // be delivered), otherwise it is kept
            let _monitor_rx = if c.monitor {
                let rx = realnet::sock_monitor(&mut s);
                if c.mid_message {
                    drop(rx);
                    None
                } else {
                    Some(rx)
                }
            } else {
                None
            };
            let ep = match realnet::sock_bind(&mut s, &c.transport.bind_text()).await {
                Ok(e) => e.to_string(),
                Err(e) => {
                    fail!(f, format!("C16/{}/cycles/setup-bind", who), "{:?}", e);
                    return f;
                }
            };
            // one permanent healthy peer so that round-robin senders always have somebody
            let mut perm = match realnet::raw_connect(&ep).await {
                Ok(mut rc) => {
                    if let Err(e) = rc.handshake(kind.a_compatible_peer(), None).await {
                        fail!(f, format!("C16/{}/cycles/setup", who), "{}", e);
                        return f;
                    }
                    rc
                }
                Err(e) => {
                    fail!(f, format!("C16/{}/cycles/setup", who), "{}", e);
                    return f;
                }
            };
            let mut tagn = 0usize;
            let mut fd_ref = 0usize;
            let mut task_ref = 0usize;
            let warm = 10usize;
            for cycle in 0..(warm + c.cycles) {
                tagn += 1;
                match realnet::raw_connect(&ep).await {
                    Ok(mut rc) => {
                        if let Err(e) = rc.handshake(kind.a_compatible_peer(), None).await {
                            fail!(f, format!("C16/{}/cycles/handshake-fails-after-many-cycles", who), "cycle {}: {}", cycle, e);
                            break;
                        }
                        if kind != Kind::Req {
                            if let Err(e) = realnet::exchange(&mut s, kind, &mut rc, &format!("c{}", tagn)).await {
                                fail!(f, format!("C16/{}/cycles/exchange-fails-after-many-cycles", who), "cycle {}: {}", cycle, e);
                                break;
                            }
                        }
                        if c.mid_message {
                            // leave in the middle of a message
                            let _ = rc.write(&[0x01, 0x05, b'a', b'b']).await;
                        }
                        drop(rc);
                    }
                    Err(e) => {
                        fail!(f, format!("C16/{}/cycles/connect-fails-after-many-cycles", who), "cycle {}: {}", cycle, e);
                        break;
                    }
                }
                // the permanent peer reads what it is sent (a peer that never reads would, after
                // enough cycles, fill its socket buffer and legitimately block a DEALER's send)
                while let Some(Ok(n)) = perm.read_some(Duration::from_millis(0)).await {
                    if n == 0 {
                        break;
                    }
                }
                if perm.inbuf.len() > (1 << 20) {
                    if let Some(from) = perm.traffic_from {
                        let p = refcodec::parse_stream(&perm.inbuf[from..], refcodec::Strictness::EMITTED);
                        let keep_from = from + p.consumed;
                        perm.inbuf.drain(from..keep_from);
                    }
                }
                // the application keeps using the socket: a receive loop / a send now and then
                if kind.fair_queue_recv() {
                    use zeromq::SocketRecv;
                    for _ in 0..3 {
                        let _ = tokio::time::timeout(Duration::from_millis(2), s.recv()).await;
                    }
                } else if kind != Kind::Req {
                    let _ = realnet::exchange(&mut s, kind, &mut perm, &format!("p{}", tagn)).await;
                    let _ = realnet::exchange(&mut s, kind, &mut perm, &format!("q{}", tagn)).await;
                } else {
                    // REQ: a few requests; whoever receives one answers (the permanent peer),
                    // a request that went to a departed peer ends in an error from recv
                    use zeromq::{SocketRecv, SocketSend};
                    for _ in 0..3 {
                        let n = perm.messages().len();
                        if s.send(crate::sim::to_msg(&[b"q".to_vec()])).await.is_ok() {
                            if perm.await_messages(n + 1, Duration::from_millis(5)).await {
                                let _ = perm.send_msg(&[vec![], b"a".to_vec()]).await;
                            }
                            let _ = tokio::time::timeout(Duration::from_millis(300), s.recv()).await;
                        }
                    }
                }
                if cycle + 1 == warm {
                    // reference point after the warm-up
                    let mut last = (0usize, 0usize);
                    let _ = realnet::eventually(Duration::from_millis(300), || {
                        let now = (realnet::fd_count(), realnet::alive_tasks());
                        let stable = now == last;
                        last = now;
                        stable
                    })
                    .await;
                    fd_ref = realnet::fd_count();
                    task_ref = realnet::alive_tasks();
                }
            }
            if f.is_empty() {
                let ok = realnet::eventually(Duration::from_secs(3), || realnet::fd_count() <= fd_ref + 3).await;
                if !ok {
                    fail!(
                        f,
                        format!("C16/{}/cycles/descriptors-accumulate", who),
                        "{} open descriptors after {} connect/disconnect cycles, {} after {} more cycles ({:?}, clients leave {})",
                        fd_ref,
                        warm,
                        realnet::fd_count(),
                        c.cycles,
                        c.transport,
                        if c.mid_message { "in the middle of a message" } else { "between messages" }
                    );
                }
                let ok = realnet::eventually(Duration::from_secs(3), || realnet::alive_tasks() <= task_ref + 2).await;
                if !ok {
                    fail!(f, format!("C16/{}/cycles/tasks-accumulate", who), "{} runtime tasks alive after {} cycles, {} after {} more", task_ref, warm, realnet::alive_tasks(), c.cycles);
                }
            }
            drop(perm);
            let _ = realnet::sock_close(s).await;
            f
        })
    });
    if let Some(f) = r {
        o.failures = f;
    }
    for p in panics {
        o.fail(format!("C16/panic/{}", panic_sig(&p)), format!("{:?}: {}", c, p));
    }
    o
}

// --------------------------------------------------------------------------------------------
// a send is IN FLIGHT on the victim's connection (its write window is closed) when it dies

#[derive(Debug, Clone, Serialize, Deserialize, PartialEq, Eq, Hash)]
pub struct InflightCase {
    pub kind: Kind,
    pub healthy: usize,
    /// bytes of the pending message the victim's connection still accepts before it stalls
    pub budget: usize,
    /// second-frame length of the message that gets stuck
    pub size: usize,
    pub write_err: u8,
}

pub const INFLIGHT_KINDS: [Kind; 5] = [Kind::Push, Kind::Dealer, Kind::Req, Kind::Router, Kind::Rep];

pub fn inflight_outcome(c: &InflightCase) -> Outcome {
    use crate::pipe::Window;
    let mut o = Outcome::new(hash_of(c));
    o.nontrivial = true;
    let c2 = c.clone();
    let (r, panics) = capture_panics(|| {
        run_sim(async move {
            let c = c2;
            let kind = c.kind;
            let who = kind.name();
            let mut f: Vec<Failure> = vec![];
            let reached = std::cell::Cell::new(false);
            let mut sim = Sim::new();
            let s = sim.socket(kind, None);
            let mut healthy: Vec<(Link, Vec<u8>)> = vec![];
            for _ in 0..c.healthy.max(1) {
                match simx::attach_raw(&mut sim, s, None).await {
                    Ok(x) => healthy.push(x),
                    Err(e) => {
                        fail!(f, format!("C16/{}/setup", who), "{}", e);
                        return (f, reached.get());
                    }
                }
            }
            let (victim, vid) = match simx::attach_raw(&mut sim, s, None).await {
                Ok(x) => x,
                Err(e) => {
                    fail!(f, format!("C16/{}/setup", who), "{}", e);
                    return (f, reached.get());
                }
            };
            victim.from_lib.set_window(Window::Budget(c.budget));
            let big = fill(7, c.size);
            // get a send pending on the victim
            let mut pending: Option<usize> = None;
            match kind {
                Kind::Router => {
                    pending = Some(sim.send(s, &[vid.clone(), big.clone()]));
                }
                Kind::Rep => {
                    victim.raw_send_now(&[vec![], b"request-from-the-victim".to_vec()]);
                    let r = sim.recv(s);
                    match sim.run(r).await {
                        Ok(Some(Out::Recv(Ok(_)))) => pending = Some(sim.send(s, &[big.clone()])),
                        other => {
                            fail!(f, "C16/REP/setup", "{:?}", other.map(|o| o.map(|o| o.err_text().map(|s| s.to_string()))));
                            return (f, reached.get());
                        }
                    }
                }
                _ => {
                    // rotation: keep sending until one send stays pending (the victim's turn)
                    for i in 0..(healthy.len() + 2) {
                        let a = sim.send(s, &[format!("m{}", i).into_bytes(), big.clone()]);
                        match sim.run(a).await {
                            Ok(None) => {
                                pending = Some(a);
                                break;
                            }
                            Ok(Some(Out::Send(Ok(())))) => {
                                if kind == Kind::Req {
                                    // whoever got it answers, so that the next request is in turn
                                    for (l, _) in &healthy {
                                        l.raw_send_now(&[vec![], b"ans".to_vec()]);
                                    }
                                    let r = sim.recv(s);
                                    if let Ok(None) = sim.run(r).await {
                                        // the request fitted into the victim's budget: nothing
                                        // is in flight on the write side
                                        sim.cancel(r);
                                        return (f, reached.get());
                                    }
                                }
                            }
                            other => {
                                fail!(f, format!("C16/{}/setup", who), "send #{}: {:?}", i, other.map(|o| o.map(|o| o.err_text().map(|s| s.to_string()))));
                                return (f, reached.get());
                            }
                        }
                    }
                }
            }
            let Some(p) = pending else { return (f, false) };
            let _ = sim.settle().await;
            if sim.done(p) {
                // the message fitted into the library's own buffer: nothing is in flight
                return (f, reached.get());
            }
            reached.set(true);
            // the connection dies
            let ek = match c.write_err % 4 {
                0 => std::io::ErrorKind::BrokenPipe,
                1 => std::io::ErrorKind::ConnectionReset,
                2 => std::io::ErrorKind::TimedOut,
                _ => std::io::ErrorKind::ConnectionAborted,
            };
            victim.from_lib.break_writer(ek);
            victim.to_lib.end_after_all(ReadEnd::Err(std::io::ErrorKind::ConnectionReset));
            if sim.settle().await.is_err() {
                fail!(f, format!("C16/{}/reset/spin", who), "socket does not settle after the connection with a send in flight died");
                return (f, reached.get());
            }
            match sim.out(p) {
                None => {
                    fail!(f, format!("C16/{}/reset/send-in-flight-hangs", who), "a send was waiting on a connection's closed write window when that connection was reset: the send never returned ({} polls)", sim.polls(p));
                    sim.cancel(p);
                    return (f, reached.get());
                }
                Some(Out::Send(Ok(()))) => {
                    fail!(f, format!("C16/{}/reset/send-in-flight-reports-success", who), "the send that was in flight on the connection that died returned Ok although at most {} of its bytes had been accepted", c.budget);
                }
                Some(_) => {}
            }
            // the socket goes on working with the healthy peers and has let go of the victim
            let before: usize = healthy.iter().map(|(l, _)| l.lib_messages_prefix().map(|x| x.0.len()).unwrap_or(0)).sum();
            match kind {
                Kind::Router => {
                    let a = sim.send(s, &[healthy[0].1.clone(), b"after".to_vec()]);
                    let _ = sim.run(a).await;
                }
                Kind::Rep => {
                    healthy[0].0.raw_send_now(&[vec![], b"request-after".to_vec()]);
                    let r = sim.recv(s);
                    if let Ok(Some(Out::Recv(Ok(_)))) = sim.run(r).await {
                        let a = sim.send(s, &[b"after".to_vec()]);
                        let _ = sim.run(a).await;
                    }
                }
                _ => {
                    for i in 0..2 {
                        let a = sim.send(s, &[format!("after{}", i).into_bytes()]);
                        if let Ok(None) = sim.run(a).await {
                            fail!(f, format!("C16/{}/reset/send-hangs", who), "a later send stays pending although only healthy peers are left");
                            sim.cancel(a);
                            return (f, reached.get());
                        }
                        if kind == Kind::Req {
                            break;
                        }
                    }
                }
            }
            let after: usize = healthy.iter().map(|(l, _)| l.lib_messages_prefix().map(|x| x.0.len()).unwrap_or(0)).sum();
            if after == before {
                fail!(f, format!("C16/{}/reset/healthy-traffic-disturbed", who), "after the connection with a send in flight died no further message reached a healthy peer");
            }
            if !victim.from_lib.writer_dropped() {
                fail!(f, format!("C16/{}/reset/write-half-retained", who), "the write on the dead connection failed ({} failed writes) but the socket still holds its write half", victim.from_lib.failed_writes());
            }
            if kind.fair_queue_recv() || kind == Kind::Req {
                // the read half goes with it (REQ/fair-queue sockets hold one)
                if !victim.to_lib.reader_dropped() {
                    fail!(f, format!("C16/{}/reset/read-half-retained", who), "the socket still holds the read half of the dead connection");
                }
            }
            (f, reached.get())
        })
    });
    if let Some((f, reached)) = r {
        o.failures = f;
        if reached {
            o.class("send-in-flight-when-the-peer-dies");
        } else {
            o.nontrivial = false;
        }
    }
    for p in panics {
        o.fail(format!("C16/panic/{}", panic_sig(&p)), format!("{} in-flight: {}", c.kind.name(), p));
    }
    o
}

pub fn enumerated() -> Vec<CutCase> {
    let msgs = vec![vec![6usize, 0, 300], vec![2]];
    let mut v = vec![];
    for kind in ALL_KINDS {
        for healthy in [1usize, 2] {
            for cut in [CutKind::Close, CutKind::Reset, CutKind::CloseStillWritable, CutKind::ProtocolError] {
                for (_, pos) in position_classes(kind, &msgs) {
                    if cut == CutKind::ProtocolError && pos < victim_stream(kind, &msgs).1 {
                        continue;
                    }
                    for (split, burst, comeback) in [(0usize, 0usize, false), (64, 0, false), (0, 2, false), (0, 0, true)] {
                        v.push(CutCase {
                            kind,
                            healthy,
                            cut,
                            pos,
                            victim_msgs: msgs.clone(),
                            split,
                            rounds: 1,
                            write_err: if cut == CutKind::Reset { 1 } else { 0 },
                            burst,
                            comeback,
                            extra_failing: if burst > 0 { 2 } else { 0 },
                        });
                    }
                }
            }
            for write_err in 0..4u8 {
                v.push(CutCase {
                    kind,
                    healthy,
                    cut: CutKind::WriteError,
                    pos: usize::MAX,
                    victim_msgs: msgs.clone(),
                    split: 0,
                    rounds: 1,
                    write_err,
                    burst: 0,
                    comeback: write_err % 2 == 1,
                    extra_failing: write_err as usize % 3,
                });
            }
        }
    }
    v
}

pub fn gen_cut(s: &mut Src<'_>) -> CutCase {
    let kind = s.pick(&ALL_KINDS);
    let nm = s.range(0, 3);
    let victim_msgs: Vec<Vec<usize>> = (0..nm)
        .map(|_| {
            let nf = if kind == Kind::XPub { 1 } else { s.range(1, 4) };
            (0..nf)
                .map(|_| match s.weighted(&[3, 3, 1]) {
                    0 => s.range(0, 10),
                    1 => s.range(10, 300),
                    _ => s.range(300, 9000),
                })
                .collect()
        })
        .collect();
    let total = victim_stream(kind, &victim_msgs).0.len();
    CutCase {
        kind,
        healthy: s.range(1, 3),
        cut: s.pick(&[CutKind::Close, CutKind::Close, CutKind::Reset, CutKind::Reset, CutKind::WriteError, CutKind::CloseStillWritable, CutKind::CloseStillWritable, CutKind::ProtocolError]),
        pos: s.below(total + 1),
        victim_msgs,
        split: s.pick(&[0usize, 0, 1, 30, 64, 90, 100]),
        rounds: s.range(0, 3),
        write_err: s.pick(&[0u8, 0, 1, 1, 2, 3]),
        burst: s.pick(&[0usize, 0, 1, 2, 5]),
        comeback: s.chance(1, 3),
        extra_failing: s.pick(&[0usize, 0, 0, 1, 2, 3]),
    }
}

pub fn run(ctx: &Ctx) -> (Report, PropertyMeta) {
    let mut report = Report::default();
    let t = ctx.tier;
    let cases = enumerated();
    let r = run_cases(ctx, "cut", &cases, cut_outcome);
    report.exhaustive_parts.push(format!(
        "9 socket types x 1..2 healthy peers x {{orderly close, reset}} x every byte-position class of the victim's stream (each handshake stage, inside flags/size, inside a body, between frames of a multipart message, between messages, after all traffic) x delivered at once / in two portions, plus a write-only failure: {} cases",
        cases.len()
    ));
    report.merge(r);
    let n = t.pick(40_000, 1_000_000);
    let r = run_random(ctx, "cut", n, 16..=60, gen_cut, cut_outcome);
    report.sections.push(json!({"part": "random cut positions / kinds / victim traffic / healthy peer counts / tails", "cases": n}));
    report.merge(r);

    // a send in flight on the victim when it dies
    let mut ic = vec![];
    for kind in INFLIGHT_KINDS {
        for healthy in [1usize, 2] {
            for budget in [0usize, 1, 9, 300] {
                for size in [10usize, 5000, 300_000] {
                    for write_err in [0u8, 1] {
                        ic.push(InflightCase { kind, healthy, budget, size, write_err });
                    }
                }
            }
        }
    }
    let r = run_cases(ctx, "inflight", &ic, inflight_outcome);
    report.exhaustive_parts.push(format!("PUSH/DEALER/REQ/ROUTER/REP x 1..2 healthy peers x a send pending on the victim's closed write window (4 budgets x 3 sizes) when its connection is reset (2 error kinds): {} cases", ic.len()));
    report.merge(r);
    if t == Tier::Thorough {
        crate::fuzzing::campaign(ctx, &mut report, "sim", 180);
    }
    // real transports (one thread: see C17)
    let mut ctx1 = ctx.clone();
    ctx1.threads = 1;
    let cycles = t.pick(40, 2000);
    let mut cc = vec![];
    for kind in ALL_KINDS {
        for transport in [crate::realnet::Transport::TcpV4, crate::realnet::Transport::Ipc] {
            for mid_message in [false, true] {
                if t == Tier::Quick && mid_message && transport == crate::realnet::Transport::Ipc {
                    continue;
                }
                cc.push(CycleCase { kind, transport, cycles, mid_message, monitor: (transport == crate::realnet::Transport::Ipc) != mid_message });
            }
        }
    }
    let r = run_cases(&ctx1, "cycles", &cc, cycle_outcome);
    report.exhaustive_parts.push(format!("real transports: 9 socket types x {{TCP, IPC}} x clients leaving between / inside messages, {} connect-handshake-talk-disconnect cycles each against one long-lived socket: {} cases", cycles, cc.len()));
    report.merge(r);
    crate::realnet::cleanup_scratch();

    let total = report.evaluations;
    health(&mut report, "cut-inside-message", total, 150);
    health(&mut report, "cut-inside-handshake", total, 100);
    health(&mut report, "end-observed", total, 300);
    health_abs(&mut report, "write-error-other-than-EPIPE", 300);
    health_abs(&mut report, "publish-matching-the-victims-subscription", 300);
    health_abs(&mut report, "cut-protocol-error", 300);
    health_abs(&mut report, "send-in-flight-when-the-peer-dies", 100);
    health_abs(&mut report, "victim-comes-back-under-its-identity", 300);
    health_abs(&mut report, "several-peers-fail-at-once", 300);

    let meta = PropertyMeta {
        level: "fault_enumeration",
        rule: "every socket type with 1..3 healthy raw peers and one victim whose connection ends at an enumerated / generated byte position of its stream (inside the greeting, between greeting and READY, inside READY, between messages, inside flags / size / body, between frames of a multipart message) by orderly close (EOF; writes fail afterwards, or - as with a TCP FIN - still succeed), reset (read error, writes fail), protocol error (the peer stays connected and sends a malformed command at a message boundary) or write-only failure (writes fail with EPIPE, ECONNRESET, ETIMEDOUT or ECONNABORTED), followed by rounds of healthy-peer traffic and application calls (recv until pending; sends that rotate onto / address the victim; REP replies; publishes, including ones matching the victim's subscription; SUB subscription changes). Oracle: (a) every healthy peer's message is still delivered exactly once in order, publishes reach healthy subscribers, successful sends land on healthy peers, and only the victim's COMPLETE messages surface; (b) recv reports at most one error for the event and the socket always reaches quiescence; (c) once the socket has observed the end (a read returned EOF/error or a write failed) no send fails because it was routed to that peer, and ROUTER send to its identity fails; (d) after observation both connection halves the library held are dropped; a connection that ends during the handshake is never admitted and is released. In half of the random cases 1..3 further peers fail with an error inside a frame at the same time as the victim (one error each is allowed). Come-back: in a third of the cases a new connection announcing the victim's identity joins after the tail and must be admitted and exchange traffic like a healthy peer, whether or not the end of the old connection was noticed. In-flight sends: with a send pending on the victim's closed write window (PUSH/DEALER/REQ/ROUTER/REP) the connection is reset - the send must return (an error), later sends reach healthy peers and both halves are dropped. Real transports: after N connect-handshake-talk-disconnect cycles over TCP and IPC against a long-lived socket of every type the process's open-descriptor count and the runtime's alive-task count are within a constant of their values after 10 cycles. Non-trivial = cut strictly inside a message or inside the handshake; distinct by case".into(),
        assumptions: vec![
            "a closed connection is modelled as EOF on reads plus BrokenPipe on writes (a fully closed TCP peer); half-close is not generated".into(),
            "'observed' is measured at the pipe: a read returned the end marker or a write returned the injected error".into(),
        ],
        exhaustive: false,
    };
    (report, meta)
}

pub fn replay(_ctx: &Ctx, kind: &str, case: &Value) -> Vec<Failure> {
    match kind {
        "cut" => parse_case::<CutCase>(case).map(|c| cut_outcome(&c).failures),
        "inflight" => parse_case::<InflightCase>(case).map(|c| inflight_outcome(&c).failures),
        "cycles" => parse_case::<CycleCase>(case).map(|c| {
            let r = cycle_outcome(&c).failures;
            crate::realnet::cleanup_scratch();
            r
        }),
        _ => Err(vec![Failure::new("replay/unknown-kind", kind.to_string())]),
    }
    .unwrap_or_else(|e| e)
}
