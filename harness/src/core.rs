//! Shared machinery: choice source, reports, known findings, proptest driver, evidence.

use proptest::collection::vec as pvec;
use proptest::prelude::any;
use proptest::test_runner::{Config, RngAlgorithm, TestCaseError, TestError, TestRng, TestRunner};
use serde::de::DeserializeOwned;
use serde::{Deserialize, Serialize};
use serde_json::{json, Value};

use std::cell::RefCell;
use std::collections::{BTreeMap, HashSet};
use std::hash::{Hash, Hasher};
use std::path::{Path, PathBuf};
use std::sync::Mutex;
use std::time::Instant;

#[derive(Debug, Clone, Copy, PartialEq, Eq)]
pub enum Tier {
    Quick,
    Thorough,
}

impl Tier {
    pub fn name(self) -> &'static str {
        match self {
            Tier::Quick => "quick",
            Tier::Thorough => "thorough",
        }
    }
    /// pick by tier
    pub fn pick<T>(self, quick: T, thorough: T) -> T {
        match self {
            Tier::Quick => quick,
            Tier::Thorough => thorough,
        }
    }
}

// ---------------------------------------------------------------------------------------------
// Choice source: every generated case is a pure function of a Vec<u16> produced by proptest.

pub struct Src<'a> {
    data: &'a [u16],
    pos: usize,
}

impl<'a> Src<'a> {
    pub fn new(data: &'a [u16]) -> Self {
        Src { data, pos: 0 }
    }
    pub fn next(&mut self) -> u16 {
        let v = self.data.get(self.pos).copied().unwrap_or(0);
        self.pos += 1;
        v
    }
    pub fn exhausted(&self) -> bool {
        self.pos >= self.data.len()
    }
    pub fn used(&self) -> usize {
        self.pos.min(self.data.len())
    }
    /// uniform in 0..n, monotone in the underlying choice (0 stays 0) so shrinking converges
    pub fn below(&mut self, n: usize) -> usize {
        if n <= 1 {
            return 0;
        }
        ((self.next() as usize) * n) >> 16
    }
    /// inclusive range
    pub fn range(&mut self, lo: usize, hi: usize) -> usize {
        debug_assert!(hi >= lo);
        lo + self.below(hi - lo + 1)
    }
    pub fn bool(&mut self) -> bool {
        self.below(2) == 1
    }
    /// true with probability num/den (false on exhausted input)
    pub fn chance(&mut self, num: usize, den: usize) -> bool {
        self.below(den) >= den - num
    }
    pub fn pick<T: Clone>(&mut self, xs: &[T]) -> T {
        xs[self.below(xs.len())].clone()
    }
    pub fn weighted(&mut self, weights: &[usize]) -> usize {
        let total: usize = weights.iter().sum();
        let mut x = self.below(total);
        for (i, w) in weights.iter().enumerate() {
            if x < *w {
                return i;
            }
            x -= *w;
        }
        weights.len() - 1
    }
    pub fn u32(&mut self) -> u32 {
        ((self.next() as u32) << 16) | self.next() as u32
    }
}

/// Deterministic body fill (xorshift) so that large payloads cost two choices, not N.
pub fn fill(seed: u32, len: usize) -> Vec<u8> {
    let mut v = Vec::with_capacity(len);
    let mut x: u32 = seed.wrapping_mul(2654435761).wrapping_add(0x9E3779B9) | 1;
    while v.len() < len {
        x ^= x << 13;
        x ^= x >> 17;
        x ^= x << 5;
        let b = x.to_le_bytes();
        let take = (len - v.len()).min(4);
        v.extend_from_slice(&b[..take]);
    }
    v
}

pub fn hash_of<T: Hash>(t: &T) -> u64 {
    let mut h = std::collections::hash_map::DefaultHasher::new();
    t.hash(&mut h);
    h.finish()
}

// ---------------------------------------------------------------------------------------------
// Failures, known findings

#[derive(Debug, Clone, Serialize, Deserialize)]
pub struct Failure {
    /// what failed where (input independent)
    pub sig: String,
    pub msg: String,
}

impl Failure {
    pub fn new(sig: impl Into<String>, msg: impl Into<String>) -> Self {
        Failure {
            sig: sig.into(),
            msg: msg.into(),
        }
    }
}

#[macro_export]
macro_rules! fail {
    ($v:expr, $sig:expr, $($arg:tt)*) => {
        $v.push($crate::core::Failure::new($sig, format!($($arg)*)))
    };
}

#[derive(Debug, Clone, Deserialize)]
pub struct KnownEntry {
    pub property: String,
    pub signature: String,
    pub status: String, // "open" | "fixed"
    pub what: String,
    #[serde(default)]
    pub commit: Option<String>,
}

#[derive(Debug, Clone, Default, Deserialize)]
pub struct KnownFile {
    pub findings: Vec<KnownEntry>,
}

#[derive(Debug, Clone, Default)]
pub struct Known {
    pub open: BTreeMap<String, String>, // signature -> what
}

impl Known {
    pub fn load(verif_dir: &Path, property: &str) -> Known {
        let p = verif_dir.join("known_findings.json");
        let mut k = Known::default();
        if let Ok(s) = std::fs::read_to_string(&p) {
            let f: KnownFile = serde_json::from_str(&s).expect("known_findings.json must parse");
            for e in f.findings {
                if e.property == property && e.status == "open" {
                    k.open.insert(e.signature, e.what);
                }
            }
        }
        k
    }
    pub fn is_known(&self, sig: &str) -> bool {
        self.open.contains_key(sig)
    }
}

// ---------------------------------------------------------------------------------------------
// Context and report

#[derive(Clone)]
pub struct Ctx {
    pub id: String,
    pub tier: Tier,
    pub seed: u64,
    pub verif_dir: PathBuf,
    pub known: Known,
    pub threads: usize,
    /// stack size of the worker threads cases run on
    pub stack: usize,
}

#[derive(Debug, Clone, Serialize, Deserialize)]
pub struct Violation {
    pub property: String,
    /// sub-check name; selects the replay function
    pub kind: String,
    pub signature: String,
    pub message: String,
    pub case: Value,
}

#[derive(Default)]
pub struct Outcome {
    pub failures: Vec<Failure>,
    pub nontrivial: bool,
    /// distinctness key (hash of a canonical encoding of the case)
    pub key: u64,
    pub classes: Vec<String>,
}

impl Outcome {
    pub fn new(key: u64) -> Self {
        Outcome {
            key,
            ..Default::default()
        }
    }
    pub fn class(&mut self, c: impl Into<String>) {
        self.classes.push(c.into());
    }
    pub fn fail(&mut self, sig: impl Into<String>, msg: impl Into<String>) {
        self.failures.push(Failure::new(sig, msg));
    }
}

#[derive(Default)]
pub struct Report {
    pub evaluations: u64,
    pub nontrivial: HashSet<u64>,
    pub classes: BTreeMap<String, u64>,
    pub samples: Vec<Value>,
    pub violations: Vec<Violation>,
    pub known_hits: BTreeMap<String, u64>,
    pub sections: Vec<Value>,
    pub exhaustive_parts: Vec<String>,
    pub notes: Vec<String>,
    pub infra_errors: Vec<String>,
    pub measures: BTreeMap<String, i64>,
    /// panics that escaped a case's capture (shard died); classified in finish()
    pub uncaptured_panics: Vec<String>,
}

pub const MAX_SAMPLES: usize = 12;

impl Report {
    pub fn merge(&mut self, other: Report) {
        self.evaluations += other.evaluations;
        self.nontrivial.extend(other.nontrivial);
        for (k, v) in other.classes {
            *self.classes.entry(k).or_default() += v;
        }
        for s in other.samples {
            self.sample(s);
        }
        for v in other.violations {
            if !self.violations.iter().any(|x| x.signature == v.signature) {
                self.violations.push(v);
            }
        }
        for (k, v) in other.known_hits {
            *self.known_hits.entry(k).or_default() += v;
        }
        self.sections.extend(other.sections);
        self.exhaustive_parts.extend(other.exhaustive_parts);
        self.notes.extend(other.notes);
        self.infra_errors.extend(other.infra_errors);
        self.uncaptured_panics.extend(other.uncaptured_panics);
        for (k, v) in other.measures {
            let e = self.measures.entry(k).or_insert(i64::MIN);
            *e = (*e).max(v);
        }
    }
    pub fn measure_max(&mut self, k: &str, v: i64) {
        let e = self.measures.entry(k.to_string()).or_insert(i64::MIN);
        *e = (*e).max(v);
    }
    pub fn class(&mut self, c: &str) {
        *self.classes.entry(c.to_string()).or_default() += 1;
    }
    /// at most 2 samples per sub-check kind, MAX_SAMPLES overall
    pub fn sample(&mut self, v: Value) {
        let kind = v.get("kind").cloned();
        let same = self.samples.iter().filter(|s| s.get("kind").cloned() == kind).count();
        if self.samples.len() < MAX_SAMPLES && same < 2 {
            self.samples.push(v);
        }
    }

    /// Record the outcome of one evaluated case. Returns the first failure that is not a
    /// known finding, if any.
    pub fn record(&mut self, ctx: &Ctx, out: &Outcome) -> Option<Failure> {
        self.evaluations += 1;
        if out.nontrivial {
            self.nontrivial.insert(out.key);
        }
        for c in &out.classes {
            *self.classes.entry(c.clone()).or_default() += 1;
        }
        let mut first = None;
        for f in &out.failures {
            if ctx.known.is_known(&f.sig) {
                *self.known_hits.entry(f.sig.clone()).or_default() += 1;
            } else if first.is_none() {
                first = Some(f.clone());
            }
        }
        if first.is_some() {
            FAILING_CASES.fetch_add(1, std::sync::atomic::Ordering::Relaxed);
        }
        first
    }

    pub fn violation(&mut self, ctx: &Ctx, kind: &str, f: &Failure, case: Value) {
        // one violation per signature is enough
        if self.violations.iter().any(|v| v.signature == f.sig) {
            return;
        }
        VIOLATIONS_SEEN.fetch_add(1, std::sync::atomic::Ordering::Relaxed);
        self.violations.push(Violation {
            property: ctx.id.clone(),
            kind: kind.to_string(),
            signature: f.sig.clone(),
            message: f.msg.clone(),
            case,
        });
    }
}

// ---------------------------------------------------------------------------------------------
// Panic capture (per thread)

thread_local! {
    static PANICS: RefCell<Vec<String>> = const { RefCell::new(Vec::new()) };
    static CAPTURE: RefCell<bool> = const { RefCell::new(false) };
    static LAST_PANIC: RefCell<Option<String>> = const { RefCell::new(None) };
}

/// The most recent panic record of this thread ("file:line :: message"), captured or not.
pub fn last_panic() -> Option<String> {
    LAST_PANIC.with(|p| p.borrow().clone())
}

/// Harness sources are compiled with relative paths ("src/.."); the library under test and its
/// dependencies with absolute ones. A panic located outside the harness is library behaviour.
pub fn panic_in_harness(rec: &str) -> bool {
    rec.starts_with("src/")
}

pub fn install_panic_hook() {
    let default = std::panic::take_hook();
    std::panic::set_hook(Box::new(move |info| {
        let capturing = CAPTURE.with(|c| *c.borrow());
        {
            let loc = info
                .location()
                .map(|l| {
                    let f = l.file();
                    // keep paths short and stable ("/repo/src/x.rs" -> "repo:src/x.rs",
                    // registry crates -> "dep:<crate>/src/..")
                    let f = if let Some(r) = f.split("/repo/").nth(1) {
                        format!("repo:{}", r)
                    } else if let Some(r) = f.split("/registry/src/").nth(1) {
                        format!("dep:{}", r.split_once('/').map(|x| x.1).unwrap_or(r))
                    } else {
                        f.to_string()
                    };
                    format!("{}:{}", f, l.line())
                })
                .unwrap_or_else(|| "?".into());
            let msg = if let Some(s) = info.payload().downcast_ref::<&str>() {
                s.to_string()
            } else if let Some(s) = info.payload().downcast_ref::<String>() {
                s.clone()
            } else {
                "?".to_string()
            };
            let rec = format!("{} :: {}", loc, msg);
            LAST_PANIC.with(|p| *p.borrow_mut() = Some(rec.clone()));
            if capturing {
                PANICS.with(|p| p.borrow_mut().push(rec));
            }
        }
        if !capturing {
            default(info);
        }
    }));
}

/// Runs `f`, capturing any panic on this thread (including panics inside tokio tasks that run
/// on this thread). Returns f's value (None if it unwound) and the captured panic records.
pub fn capture_panics<T>(f: impl FnOnce() -> T) -> (Option<T>, Vec<String>) {
    CAPTURE.with(|c| *c.borrow_mut() = true);
    PANICS.with(|p| p.borrow_mut().clear());
    let r = std::panic::catch_unwind(std::panic::AssertUnwindSafe(f));
    CAPTURE.with(|c| *c.borrow_mut() = false);
    let panics = PANICS.with(|p| std::mem::take(&mut *p.borrow_mut()));
    (r.ok(), panics)
}

/// location part of a captured panic record ("src/x.rs:12")
pub fn panic_location(rec: &str) -> &str {
    rec.split(" :: ").next().unwrap_or(rec)
}

/// File name (without line) of a captured panic record: line numbers move with unrelated edits,
/// so signatures use file + message class.
pub fn panic_sig(rec: &str) -> String {
    let loc = panic_location(rec);
    let file = loc.rsplit_once(':').map(|x| x.0).unwrap_or(loc);
    file.to_string()
}

// ---------------------------------------------------------------------------------------------
// Parallel helpers

/// Run `work(shard_index)` on `n` threads, merge reports.
pub fn par_shards(n: usize, stack: usize, work: impl Fn(usize) -> Report + Sync) -> Report {
    let out = Mutex::new(Report::default());
    std::thread::scope(|s| {
        for i in 0..n {
            let work = &work;
            let out = &out;
            std::thread::Builder::new()
                .stack_size(stack)
                .spawn_scoped(s, move || {
                    let r = match std::panic::catch_unwind(std::panic::AssertUnwindSafe(|| work(i))) {
                        Ok(r) => r,
                        Err(_) => {
                            let mut r = Report::default();
                            let rec = last_panic().unwrap_or_else(|| "? :: unknown panic".into());
                            r.uncaptured_panics.push(rec);
                            r
                        }
                    };
                    crate::crumb::clear();
                    out.lock().unwrap().merge(r);
                })
                .unwrap();
        }
    });
    out.into_inner().unwrap()
}

pub const DEFAULT_STACK: usize = 16 << 20;

/// Number of violations recorded so far in this process. Once a handful are known the
/// remaining enumerated cases are skipped: under a broken tree every further failing case can
/// cost a watchdog timeout, and the run already has what it needs to report.
pub static VIOLATIONS_SEEN: std::sync::atomic::AtomicUsize = std::sync::atomic::AtomicUsize::new(0);
pub const FAIL_FAST_AFTER: usize = 6;
/// Number of evaluated cases with a failure that is not a known finding.
pub static FAILING_CASES: std::sync::atomic::AtomicUsize = std::sync::atomic::AtomicUsize::new(0);
pub const FAIL_FAST_AFTER_CASES: usize = 12;

pub fn enough_violations() -> bool {
    VIOLATIONS_SEEN.load(std::sync::atomic::Ordering::Relaxed) >= FAIL_FAST_AFTER
        || FAILING_CASES.load(std::sync::atomic::Ordering::Relaxed) >= FAIL_FAST_AFTER_CASES
}

fn seed_bytes(seed: u64, label: &str, shard: usize) -> [u8; 32] {
    let mut b = [0u8; 32];
    let h1 = hash_of(&(seed, label, shard as u64, 1u8));
    let h2 = hash_of(&(seed, label, shard as u64, 2u8));
    let h3 = hash_of(&(seed, label, shard as u64, 3u8));
    let h4 = hash_of(&(seed, label, shard as u64, 4u8));
    b[0..8].copy_from_slice(&h1.to_le_bytes());
    b[8..16].copy_from_slice(&h2.to_le_bytes());
    b[16..24].copy_from_slice(&h3.to_le_bytes());
    b[24..32].copy_from_slice(&h4.to_le_bytes());
    b
}

/// Drive `cases` generated cases through `check`, sharded over ctx.threads. Cases are generated
/// by `gen` from a proptest-owned Vec<u16>; on failure proptest shrinks that vector.
pub fn run_random<C>(
    ctx: &Ctx,
    kind: &str,
    cases: u64,
    choices: std::ops::RangeInclusive<usize>,
    gen: impl Fn(&mut Src<'_>) -> C + Sync,
    check: impl Fn(&C) -> Outcome + Sync,
) -> Report
where
    C: Serialize + DeserializeOwned + std::fmt::Debug,
{
    if enough_violations() {
        return Report::default();
    }
    let shards = ctx.threads.max(1).min(cases.max(1) as usize);
    let per = cases.div_ceil(shards as u64);
    par_shards(shards, ctx.stack, |shard| {
        let mut report = Report::default();
        let config = Config {
            cases: per as u32,
            failure_persistence: None,
            max_shrink_iters: 4000,
            max_global_rejects: 1,
            ..Config::default()
        };
        let rng = TestRng::from_seed(RngAlgorithm::ChaCha, &seed_bytes(ctx.seed, kind, shard));
        let mut runner = TestRunner::new_with_rng(config, rng);
        let strategy = pvec(any::<u16>(), choices.clone());
        let rep = RefCell::new(&mut report);
        let target: RefCell<Option<String>> = RefCell::new(None);
        let shrink_started: RefCell<Option<Instant>> = RefCell::new(None);
        let res = runner.run(&strategy, |v| {
            // bound the time spent shrinking: afterwards every candidate "passes" unexamined
            if let Some(t0) = *shrink_started.borrow() {
                if t0.elapsed().as_secs() > 25 {
                    return Ok(());
                }
            }
            let mut src = Src::new(&v);
            let case = gen(&mut src);
            crate::crumb::case(kind, &case);
            let out = check(&case);
            let shrinking = target.borrow().is_some();
            if shrinking {
                let t = target.borrow().clone().unwrap();
                if out.failures.iter().any(|f| f.sig == t) {
                    return Err(TestCaseError::fail(t));
                }
                return Ok(());
            }
            let mut r = rep.borrow_mut();
            if r.samples.len() < 2 && out.nontrivial {
                let s = serde_json::to_value(&case).unwrap_or(Value::Null);
                r.sample(json!({"kind": kind, "case": truncate_json(s)}));
            }
            match r.record(ctx, &out) {
                None => Ok(()),
                Some(f) => {
                    *target.borrow_mut() = Some(f.sig.clone());
                    *shrink_started.borrow_mut() = Some(Instant::now());
                    Err(TestCaseError::fail(f.sig))
                }
            }
        });
        drop(rep);
        match res {
            Ok(()) => {}
            Err(TestError::Fail(_reason, v)) => {
                let mut src = Src::new(&v);
                let case = gen(&mut src);
                let out = check(&case);
                let t = target.borrow().clone().unwrap_or_default();
                let f = out
                    .failures
                    .iter()
                    .find(|f| f.sig == t)
                    .cloned()
                    .unwrap_or_else(|| Failure::new(t.clone(), "failure did not reproduce on the shrunk case (flaky?)"));
                let cj = serde_json::to_value(&case).unwrap_or(Value::Null);
                report.violation(ctx, kind, &f, cj);
            }
            Err(TestError::Abort(r)) => {
                report.infra_errors.push(format!("proptest aborted in {}: {}", kind, r));
            }
        }
        report
    })
}

/// Evaluate an explicit list of cases in parallel (exhaustive enumerations).
pub fn run_cases<C>(ctx: &Ctx, kind: &str, cases: &[C], check: impl Fn(&C) -> Outcome + Sync) -> Report
where
    C: Serialize + Sync,
{
    let shards = ctx.threads.max(1).min(cases.len().max(1));
    par_shards(shards, ctx.stack, |shard| {
        let mut report = Report::default();
        let mut i = shard;
        while i < cases.len() {
            if enough_violations() {
                report.notes.push(format!("{}: stopped early after {} violations ({} of {} cases evaluated in this shard)", kind, FAIL_FAST_AFTER, i / shards, cases.len() / shards));
                break;
            }
            let case = &cases[i];
            crate::crumb::case(kind, case);
            let out = check(case);
            if report.samples.is_empty() && out.nontrivial && shard == 0 {
                let s = serde_json::to_value(case).unwrap_or(Value::Null);
                report.sample(json!({"kind": kind, "case": truncate_json(s)}));
            }
            if let Some(f) = report.record(ctx, &out) {
                let cj = serde_json::to_value(case).unwrap_or(Value::Null);
                report.violation(ctx, kind, &f, cj);
            }
            i += shards;
        }
        report
    })
}

/// Keep evidence samples readable: long strings/arrays are cut.
pub fn truncate_json(v: Value) -> Value {
    match v {
        Value::String(s) if s.len() > 160 => Value::String(format!("{}..({} chars)", &s[..120], s.len())),
        Value::Array(a) => {
            let n = a.len();
            let mut out: Vec<Value> = a.into_iter().take(24).map(truncate_json).collect();
            if n > 24 {
                out.push(Value::String(format!("..({} items)", n)));
            }
            Value::Array(out)
        }
        Value::Object(m) => Value::Object(m.into_iter().map(|(k, v)| (k, truncate_json(v))).collect()),
        other => other,
    }
}

// ---------------------------------------------------------------------------------------------
// Evidence + exit

pub struct PropertyMeta {
    pub level: &'static str,
    pub rule: String,
    pub assumptions: Vec<String>,
    pub exhaustive: bool,
}

pub fn slug(s: &str) -> String {
    s.chars()
        .map(|c| if c.is_ascii_alphanumeric() { c } else { '-' })
        .collect::<String>()
        .trim_matches('-')
        .to_string()
}

/// Writes evidence, prints KNOWN-FINDING / VIOLATION lines, returns the process exit code.
pub fn finish(ctx: &Ctx, report: &Report, meta: &PropertyMeta, started: Instant) -> i32 {
    let wall = started.elapsed().as_secs_f64();
    let mut samples = report.samples.clone();
    if samples.is_empty() {
        samples.push(json!({"note": "no sample recorded"}));
    }
    let ev = json!({
        "property_id": ctx.id,
        "tier": ctx.tier.name(),
        "seed": ctx.seed,
        "level": meta.level,
        "coverage": {
            "evaluations": report.evaluations,
            "distinct_nontrivial": report.nontrivial.len(),
            "rule": meta.rule,
            "samples": samples,
            "exhaustive": meta.exhaustive,
            "exhaustive_parts": report.exhaustive_parts,
            "classes": report.classes,
            "measures": report.measures,
            "sections": report.sections,
            "known_finding_hits": report.known_hits,
            "notes": report.notes,
        },
        "assumptions": meta.assumptions,
        "wall_s": wall,
        "violations": report.violations.len(),
    });
    let evdir = ctx.verif_dir.join("evidence");
    let _ = std::fs::create_dir_all(&evdir);
    let evpath = evdir.join(format!("{}.json", ctx.id));
    std::fs::write(&evpath, serde_json::to_string_pretty(&ev).unwrap()).expect("write evidence");

    for (sig, what) in &ctx.known.open {
        // printed for each listed finding (whether or not this run's sample hit it)
        let hits = report.known_hits.get(sig).copied().unwrap_or(0);
        println!("KNOWN-FINDING: property={} {} {} (hits this run: {})", ctx.id, sig, what, hits);
    }
    let mut code = 0;
    let mut extra_violations = vec![];
    let mut infra = report.infra_errors.clone();
    for rec in &report.uncaptured_panics {
        if panic_in_harness(rec) {
            infra.push(format!("harness panic: {}", rec));
        } else {
            extra_violations.push(Violation {
                property: ctx.id.clone(),
                kind: "uncaptured-panic".into(),
                signature: format!("{}/panic/{}", ctx.id, panic_sig(rec)),
                message: format!("library code panicked outside a case capture: {}", rec),
                case: json!({"record": rec}),
            });
        }
    }
    for v in report.violations.iter().chain(extra_violations.iter()) {
        let dir = ctx.verif_dir.join("replays").join("found").join(&ctx.id);
        let _ = std::fs::create_dir_all(&dir);
        let name = format!("{}-{:08x}.json", slug(&v.signature), hash_of(&v.case.to_string()) as u32);
        let path = dir.join(name);
        std::fs::write(&path, serde_json::to_string_pretty(v).unwrap()).expect("write replay");
        println!("VIOLATION property={} replay={}", ctx.id, path.display());
        println!("  signature: {}", v.signature);
        println!("  message:   {}", v.message);
        code = 1;
    }
    if code == 0 && !infra.is_empty() {
        for e in &infra {
            println!("INFRA: {}", e);
        }
        code = 2;
    }
    println!(
        "{} {} seed={} evaluations={} distinct_nontrivial={} violations={} known_hits={} wall={:.1}s",
        ctx.id,
        ctx.tier.name(),
        ctx.seed,
        report.evaluations,
        report.nontrivial.len(),
        report.violations.len(),
        report.known_hits.values().sum::<u64>(),
        wall
    );
    code
}

/// Generator health gate: class `c` must make up at least `min_permille`/1000 of `of`.
pub fn health(report: &mut Report, class: &str, of: u64, min_permille: u64) {
    let n = report.classes.get(class).copied().unwrap_or(0);
    let of = of.saturating_sub(report.measures.get("fuzz_executions_unlabelled").copied().unwrap_or(0).max(0) as u64);
    if of > 0 && n * 1000 < of * min_permille {
        report.infra_errors.push(format!(
            "generator health: class '{}' is {} of {} cases (< {}‰)",
            class, n, of, min_permille
        ));
    }
}

/// Generator health gate on an absolute count.
pub fn health_abs(report: &mut Report, class: &str, min: u64) {
    let n = report.classes.get(class).copied().unwrap_or(0);
    if n < min {
        report
            .infra_errors
            .push(format!("generator health: class '{}' has only {} cases (< {})", class, n, min));
    }
}
