//! C04 — the handshake admits exactly the well-formed, RFC-compatible peers.

use crate::core::*;
use crate::fail;
use crate::props::c01::check_lib_handshake;
use crate::props::parse_case;
use crate::refcodec::{self, RefGreeting};
use crate::sim::{run_sim, Kind, Link, Out, Sim, ALL_KINDS};
use crate::simx;

use serde::{Deserialize, Serialize};
use serde_json::{json, Value};
use zeromq::SocketType;

pub const TYPE_NAMES: [&str; 12] = ["PAIR", "PUB", "SUB", "REQ", "REP", "DEALER", "ROUTER", "PULL", "PUSH", "XPUB", "XSUB", "STREAM"];

/// RFC 23 "socket types and their compatible peers" (typed in from the RFC, independent of
/// the library's matrix). STREAM does not speak ZMTP and is compatible with nothing.
pub fn rfc_compatible(a: &str, b: &str) -> bool {
    let peers: &[&str] = match a {
        "PAIR" => &["PAIR"],
        "PUB" => &["SUB", "XSUB"],
        "SUB" => &["PUB", "XPUB"],
        "XPUB" => &["SUB", "XSUB"],
        "XSUB" => &["PUB", "XPUB"],
        "REQ" => &["REP", "ROUTER"],
        "REP" => &["REQ", "DEALER"],
        "DEALER" => &["REP", "DEALER", "ROUTER"],
        "ROUTER" => &["REQ", "DEALER", "ROUTER"],
        "PUSH" => &["PULL"],
        "PULL" => &["PUSH"],
        _ => &[],
    };
    peers.contains(&b)
}

fn socket_type(name: &str) -> SocketType {
    match name {
        "PAIR" => SocketType::PAIR,
        "PUB" => SocketType::PUB,
        "SUB" => SocketType::SUB,
        "REQ" => SocketType::REQ,
        "REP" => SocketType::REP,
        "DEALER" => SocketType::DEALER,
        "ROUTER" => SocketType::ROUTER,
        "PULL" => SocketType::PULL,
        "PUSH" => SocketType::PUSH,
        "XPUB" => SocketType::XPUB,
        "XSUB" => SocketType::XSUB,
        "STREAM" => SocketType::STREAM,
        _ => unreachable!(),
    }
}

#[derive(Debug, Clone, Copy, Serialize, Deserialize, PartialEq, Eq, Hash)]
pub enum PeerType {
    Named(u8),
    Unknown,
    Missing,
}

#[derive(Debug, Clone, Copy, Serialize, Deserialize, PartialEq, Eq, Hash)]
pub enum Mech {
    Null,
    Plain,
    Curve,
    Unknown,
    /// the 20-octet mechanism field is all zero (an empty name)
    Empty,
    /// 20 name characters, no NUL padding at all
    Unpadded,
}

#[derive(Debug, Clone, Copy, Serialize, Deserialize, PartialEq, Eq, Hash)]
pub enum Sig {
    Ok,
    Byte0Wrong,
    Byte9Wrong,
}

#[derive(Debug, Clone, Copy, Serialize, Deserialize, PartialEq, Eq, Hash)]
pub enum Ident {
    Absent,
    Empty,
    Len(u16),
}

#[derive(Debug, Clone, Copy, Serialize, Deserialize, PartialEq, Eq, Hash)]
pub enum First {
    Ready,
    OtherCommand,
    Message,
    /// a READY frame whose property list is the cell's (Socket-Type first) followed, inside the
    /// declared frame, by 7 bytes 0xFF: not a READY command under the RFC grammar
    ReadyGarbageTail,
}

#[derive(Debug, Clone, Serialize, Deserialize, PartialEq, Eq, Hash)]
pub struct Cell {
    pub local: Kind,
    pub peer_type: PeerType,
    pub version: (u8, u8),
    pub mech: Mech,
    pub sig: Sig,
    pub ident: Ident,
    pub first: First,
    /// thorough-tier decoration: as-server byte, non-zero padding in the signature, extra
    /// READY properties
    pub as_server: u8,
    pub sig_pad: u8,
    pub extra_props: u8,
}

impl Cell {
    pub fn peer_type_name(&self) -> Option<String> {
        match self.peer_type {
            PeerType::Named(i) => Some(TYPE_NAMES[i as usize].to_string()),
            PeerType::Unknown => Some("BOGUS".to_string()),
            PeerType::Missing => None,
        }
    }
    pub fn identity(&self) -> Option<Vec<u8>> {
        match self.ident {
            Ident::Absent => None,
            Ident::Empty => Some(vec![]),
            Ident::Len(n) => Some((0..n as usize).map(|i| b'a' + (i % 23) as u8).collect()),
        }
    }
    /// The independent admission predicate.
    pub fn should_admit(&self) -> (bool, &'static str) {
        if self.sig != Sig::Ok {
            return (false, "bad signature");
        }
        if self.version.0 < 3 {
            return (false, "version below 3.0");
        }
        if matches!(self.mech, Mech::Unknown | Mech::Empty | Mech::Unpadded) {
            return (false, "unknown mechanism");
        }
        if self.first != First::Ready {
            return (false, "first item is not READY");
        }
        let Some(t) = self.peer_type_name() else { return (false, "Socket-Type missing") };
        if !TYPE_NAMES.contains(&t.as_str()) {
            return (false, "unknown Socket-Type");
        }
        if !rfc_compatible(self.local.name(), &t) {
            return (false, "incompatible socket types");
        }
        if let Ident::Len(n) = self.ident {
            if n > 255 {
                return (false, "identity longer than 255 bytes");
            }
        }
        (true, "well-formed and compatible")
    }
    pub fn peer_bytes(&self) -> Vec<u8> {
        let mut g = RefGreeting::valid_null();
        g.version = self.version;
        g.mechanism = match self.mech {
            Mech::Null => b"NULL".to_vec(),
            Mech::Plain => b"PLAIN".to_vec(),
            Mech::Curve => b"CURVE".to_vec(),
            Mech::Unknown => b"GSSAPI".to_vec(),
            Mech::Empty => vec![],
            Mech::Unpadded => b"NULLNULLNULLNULLNULL".to_vec(),
        };
        match self.sig {
            Sig::Ok => {}
            Sig::Byte0Wrong => g.sig_first = 0xFE,
            Sig::Byte9Wrong => g.sig_last = 0x7E,
        }
        g.as_server = self.as_server;
        g.sig_pad = [self.sig_pad; 8];
        let mut out = g.encode();
        match self.first {
            First::Ready => {
                let mut props: Vec<(Vec<u8>, Vec<u8>)> = vec![];
                if let Some(t) = self.peer_type_name() {
                    props.push((b"Socket-Type".to_vec(), t.into_bytes()));
                }
                if let Some(id) = self.identity() {
                    props.push((b"Identity".to_vec(), id));
                }
                for i in 0..self.extra_props {
                    props.push((format!("X-Extra-{}", i).into_bytes(), vec![b'x'; i as usize * 40]));
                }
                out.extend_from_slice(&refcodec::encode_command(b"READY", &props));
            }
            First::ReadyGarbageTail => {
                let mut body = vec![5u8];
                body.extend_from_slice(b"READY");
                if let Some(t) = self.peer_type_name() {
                    body.push(11);
                    body.extend_from_slice(b"Socket-Type");
                    body.extend_from_slice(&(t.len() as u32).to_be_bytes());
                    body.extend_from_slice(t.as_bytes());
                }
                if let Some(id) = self.identity() {
                    body.push(8);
                    body.extend_from_slice(b"Identity");
                    body.extend_from_slice(&(id.len() as u32).to_be_bytes());
                    body.extend_from_slice(&id);
                }
                body.extend_from_slice(&[0xFF; 7]);
                refcodec::encode_frame(&mut out, &body, false, true);
            }
            First::OtherCommand => {
                // ERROR command: name + reason (RFC 23)
                let mut body = vec![5u8];
                body.extend_from_slice(b"ERROR");
                body.push(2);
                body.extend_from_slice(b"no");
                refcodec::encode_frame(&mut out, &body, false, true);
            }
            First::Message => {
                out.extend_from_slice(&refcodec::encode_message(&[b"hello".to_vec()]));
            }
        }
        out
    }
}

pub fn cell_outcome(c: &Cell) -> Outcome {
    let mut o = Outcome::new(hash_of(c));
    let all_valid = c.sig == Sig::Ok && c.version == (3, 0) && c.mech == Mech::Null && c.first == First::Ready && c.ident == Ident::Absent && c.should_admit().0;
    o.nontrivial = !all_valid;
    let (admit, why) = c.should_admit();
    o.class(if admit { "expect-admit" } else { "expect-reject" });
    let c2 = c.clone();
    let (r, panics) = capture_panics(|| {
        run_sim(async move {
            let c = c2;
            let kind = c.local;
            let mut f = vec![];
            let mut sim = Sim::new();
            let s = sim.socket(kind, None);
            let link = sim.link();
            link.to_lib.deposit(&c.peer_bytes());
            link.to_lib.deliver_all();
            let a = sim.attach(s, &link);
            if let Err(e) = sim.settle().await {
                fail!(f, "C04/spin", "handshake does not settle: {:?}", e);
                return f;
            }
            let out = sim.out(a).cloned();
            let tap = link.from_lib.tap();
            // the library's own greeting must be well formed in every cell; its READY only if
            // it got past the peer's greeting
            if tap.len() >= 64 {
                let mut tmp = vec![];
                if tap.len() > 64 {
                    check_lib_handshake(&tap, kind, None, &mut tmp);
                } else {
                    let mut probe = tap.clone();
                    probe.extend_from_slice(&refcodec::encode_ready(kind.name(), None));
                    check_lib_handshake(&probe, kind, None, &mut tmp);
                }
                for t in tmp {
                    fail!(f, t.sig.replace("C01/", "C04/own-handshake/"), "{}", t.msg);
                }
            } else {
                fail!(f, "C04/own-handshake/greeting-missing", "library wrote {} bytes", tap.len());
            }
            match (admit, out) {
                (true, Some(Out::Attach(Ok(id)))) => {
                    // identity
                    match c.identity() {
                        Some(want) if !want.is_empty() => {
                            if id != want {
                                fail!(f, "C04/admitted/identity-not-the-announced-one", "announced {} registered as {}", refcodec::brief(&want), refcodec::brief(&id));
                            }
                        }
                        _ => {
                            if id.is_empty() {
                                fail!(f, "C04/admitted/empty-identity-assigned", "anonymous peer was registered under an empty identity");
                            }
                        }
                    }
                    // a second, anonymous healthy peer: fresh identities are distinct
                    match simx::attach_raw(&mut sim, s, None).await {
                        Ok((ol, oid)) => {
                            if oid == id {
                                fail!(f, "C04/admitted/identities-not-unique", "two connections registered under the same identity {}", refcodec::brief(&id));
                            }
                            // admitted peers announcing PLAIN/CURVE or version 3.1+ are still
                            // ordinary peers: registered exactly once
                            if let Err(e) = simx::registered_exactly_once(&mut sim, s, &link, &id, Some((&ol, &oid))).await {
                                fail!(f, format!("C04/admitted/{}/not-registered-exactly-once", kind.name()), "{}", e);
                            }
                        }
                        Err(e) => fail!(f, "C04/admitted/second-peer", "{}", e),
                    }
                }
                (true, other) => {
                    fail!(
                        f,
                        "C04/rejects-valid-peer",
                        "{} socket refused a peer that is {}: {:?}",
                        kind.name(),
                        why,
                        other.map(|o| o.err_text().map(|s| s.chars().take(100).collect::<String>()))
                    );
                }
                (false, Some(Out::Attach(Err(_)))) => {
                    // closed: both halves released
                    if !link.to_lib.reader_dropped() || !link.from_lib.writer_dropped() {
                        fail!(
                            f,
                            "C04/rejected/connection-not-closed",
                            "rejected connection still held (read half dropped: {}, write half dropped: {})",
                            link.to_lib.reader_dropped(),
                            link.from_lib.writer_dropped()
                        );
                    }
                    // never exchanges application messages
                    let before = link.from_lib.tap_len();
                    link.raw_send_now(&[b"after-reject".to_vec()]);
                    if kind.can_recv() && kind != Kind::Req {
                        match simx::recv_until_pending(&mut sim, s, 3).await {
                            Ok(res) => {
                                if !res.is_empty() {
                                    fail!(f, "C04/rejected/traffic-delivered", "recv returned {} results from a rejected connection", res.len());
                                }
                            }
                            Err(e) => fail!(f, "C04/spin", "{}", e),
                        }
                    }
                    if kind.can_send() {
                        let m = if kind == Kind::Router { vec![c.identity().filter(|i| !i.is_empty() && i.len() <= 255).unwrap_or(b"x".to_vec()), b"m".to_vec()] } else { vec![b"m".to_vec()] };
                        let a = sim.send(s, &m);
                        let r = sim.run(a).await;
                        match kind {
                            Kind::Push | Kind::Dealer | Kind::Req => {
                                let ok = matches!(&r, Ok(Some(Out::Send(Err(e)))) if e.returned.as_ref() == Some(&m));
                                if !ok {
                                    fail!(f, "C04/rejected/send-not-refused", "send with only a rejected connection: {:?}", r);
                                }
                            }
                            Kind::Router | Kind::Rep => {
                                if !matches!(&r, Ok(Some(Out::Send(Err(_))))) {
                                    fail!(f, "C04/rejected/send-not-refused", "send with only a rejected connection: {:?}", r);
                                }
                            }
                            _ => {}
                        }
                    }
                    if link.from_lib.tap_len() != before {
                        fail!(f, "C04/rejected/traffic-sent", "{} bytes were written to a rejected connection", link.from_lib.tap_len() - before);
                    }
                }
                (false, Some(Out::Attach(Ok(id)))) => {
                    fail!(f, "C04/admits-invalid-peer", "{} socket admitted (as {}) a peer with: {}", kind.name(), refcodec::brief(&id), why);
                }
                (false, None) => {
                    fail!(f, "C04/rejected/handshake-hangs", "complete but invalid handshake ({}) neither admitted nor rejected", why);
                }
                (_, Some(_)) => unreachable!(),
            }
            f
        })
    });
    if let Some(f) = r {
        o.failures = f;
    }
    for p in panics {
        o.fail(format!("C04/panic/{}", panic_sig(&p)), format!("{:?}: {}", c, p));
    }
    o
}

pub fn grid() -> Vec<Cell> {
    let mut v = vec![];
    let mut types: Vec<PeerType> = (0..12).map(PeerType::Named).collect();
    types.push(PeerType::Unknown);
    types.push(PeerType::Missing);
    for local in ALL_KINDS {
        for pt in &types {
            for version in [(1u8, 0u8), (2, 1), (3, 0), (3, 1), (4, 0)] {
                for mech in [Mech::Null, Mech::Plain, Mech::Curve, Mech::Unknown, Mech::Empty, Mech::Unpadded] {
                    for sig in [Sig::Ok, Sig::Byte0Wrong, Sig::Byte9Wrong] {
                        for ident in [Ident::Absent, Ident::Empty, Ident::Len(1), Ident::Len(255), Ident::Len(256)] {
                            for first in [First::Ready, First::OtherCommand, First::Message, First::ReadyGarbageTail] {
                                v.push(Cell {
                                    local,
                                    peer_type: *pt,
                                    version,
                                    mech,
                                    sig,
                                    ident,
                                    first,
                                    as_server: 0,
                                    sig_pad: 0,
                                    extra_props: 0,
                                });
                            }
                        }
                    }
                }
            }
        }
    }
    v
}

// --------------------------------------------------------------------------------------------
// the same cells over the REAL accept path: a bound socket with a monitor installed. On the
// bind side there is no caller, so the monitor is where a rejection is reported.

#[derive(Debug, Clone, Serialize, Deserialize, PartialEq, Eq, Hash)]
pub struct AcceptCase {
    pub cell: Cell,
    pub ipc: bool,
    /// the library socket CONNECTS to a raw listener playing the cell's peer: the verdict goes
    /// to the caller of connect()
    #[serde(default)]
    pub connect_side: bool,
    /// accept path only: before the tested connection another raw client has connected to the
    /// same endpoint and is still in the middle of ITS handshake (1 = has sent nothing, 2 = has
    /// sent the first 11 bytes of a greeting). The verdict on the tested connection is the same.
    #[serde(default)]
    pub bystander: u8,
}

pub fn accept_outcome(c: &AcceptCase) -> Outcome {
    use crate::realnet::{self, eventually, Transport, LIMIT};
    use zeromq::SocketEvent;
    let mut o = Outcome::new(hash_of(c));
    let (admit, why) = c.cell.should_admit();
    o.nontrivial = !admit;
    if c.bystander > 0 {
        o.class("another-connection-mid-handshake");
    }
    o.class(match (c.connect_side, admit) {
        (false, true) => "accept-path-admitted",
        (false, false) => "accept-path-rejected",
        (true, true) => "connect-path-admitted",
        (true, false) => "connect-path-rejected",
    });
    let c2 = c.clone();
    let (r, panics) = capture_panics(|| {
        realnet::run_net(async move {
            let c = c2;
            let kind = c.cell.local;
            let who = kind.name();
            let mut f: Vec<Failure> = vec![];
            let mut s = crate::sim::AnySocket::new(kind, None);
            if c.connect_side {
                let (l, ep) = match realnet::raw_listen().await {
                    Ok(x) => x,
                    Err(e) => {
                        fail!(f, format!("C04/connect/{}/setup-listen", who), "{}", e);
                        return f;
                    }
                };
                let bytes = c.cell.peer_bytes();
                let server = async {
                    let mut rc = realnet::raw_accept(&l).await.ok()?;
                    let _ = rc.write(&bytes).await;
                    // a refused connection must be closed by the library; an admitted one is
                    // simply kept open until the caller is done
                    let ended = if admit { false } else { rc.await_end(LIMIT).await };
                    Some((rc, ended))
                };
                let client = tokio::time::timeout(LIMIT, realnet::sock_connect(&mut s, &ep));
                let (srv, res) = tokio::join!(server, client);
                match res {
                    Err(_) => fail!(f, format!("C04/connect/{}/connect-hangs", who), "connect() to a peer ({}) did not return within {:?}", why, LIMIT),
                    Ok(Ok(())) if !admit => fail!(f, format!("C04/connect/{}/admits-invalid-peer", who), "{}: connect() returned Ok", why),
                    Ok(Err(e)) if admit => fail!(f, format!("C04/connect/{}/valid-peer-refused", who), "connect() to a well-formed, compatible peer failed: {:?}", e),
                    _ => {}
                }
                if !admit {
                    if let Some((_, ended)) = srv {
                        if !ended {
                            fail!(f, format!("C04/connect/{}/rejected-connection-not-closed", who), "{}: connect() failed but the connection is still open {:?} later", why, LIMIT);
                        }
                    }
                }
                let _ = tokio::time::timeout(LIMIT, realnet::sock_close(s)).await;
                return f;
            }
            let mut monitor = realnet::sock_monitor(&mut s);
            let transport = if c.ipc { Transport::Ipc } else { Transport::TcpV4 };
            let ep = match realnet::sock_bind(&mut s, &transport.bind_text()).await {
                Ok(e) => e.to_string(),
                Err(e) => {
                    fail!(f, format!("C04/accept/{}/setup-bind", who), "{:?}", e);
                    return f;
                }
            };
            let mut _bystander = None;
            if c.bystander > 0 {
                if let Ok(mut b) = realnet::raw_connect(&ep).await {
                    if c.bystander == 2 {
                        let g = crate::refcodec::RefGreeting::valid_null().encode();
                        let _ = b.write(&g[..11]).await;
                    }
                    tokio::time::sleep(std::time::Duration::from_millis(2)).await;
                    _bystander = Some(b);
                }
            }
            let mut rc = match realnet::raw_connect(&ep).await {
                Ok(rc) => rc,
                Err(e) => {
                    fail!(f, format!("C04/accept/{}/setup-connect", who), "{}", e);
                    return f;
                }
            };
            let _ = rc.write(&c.cell.peer_bytes()).await;
            let mut accepted = 0usize;
            let mut failed = 0usize;
            let mut drain = |accepted: &mut usize, failed: &mut usize| {
                while let Ok(Some(ev)) = monitor.try_next() {
                    match ev {
                        SocketEvent::Accepted(..) => *accepted += 1,
                        SocketEvent::AcceptFailed(_) => *failed += 1,
                        _ => {}
                    }
                }
            };
            let ok = eventually(LIMIT, || {
                drain(&mut accepted, &mut failed);
                accepted + failed >= 1
            })
            .await;
            tokio::time::sleep(std::time::Duration::from_millis(3)).await;
            drain(&mut accepted, &mut failed);
            if admit {
                if !ok || accepted != 1 || failed != 0 {
                    fail!(f, format!("C04/accept/{}/valid-peer-not-reported-as-accepted", who), "a well-formed, compatible peer: monitor reported {} Accepted and {} AcceptFailed events", accepted, failed);
                }
            } else {
                if accepted > 0 {
                    fail!(f, format!("C04/accept/{}/admits-invalid-peer", who), "{}: the monitor reported Accepted", why);
                }
                if failed != 1 {
                    fail!(f, format!("C04/accept/{}/rejection-not-reported-to-monitor", who), "{}: the connection must be refused and that reported once as AcceptFailed; the monitor reported {} such events within {:?}", why, failed, LIMIT);
                }
                if !rc.await_end(LIMIT).await {
                    fail!(f, format!("C04/accept/{}/rejected-connection-not-closed", who), "{}: the connection is still open {:?} later", why, LIMIT);
                }
            }
            drop(rc);
            let _ = tokio::time::timeout(LIMIT, realnet::sock_close(s)).await;
            f
        })
    });
    if let Some(f) = r {
        o.failures = f;
    }
    for p in panics {
        o.fail(format!("C04/panic/{}", panic_sig(&p)), p);
    }
    o
}

/// every cell that differs from the all-valid cell in at most one coordinate
pub fn accept_grid() -> Vec<AcceptCase> {
    let mut v = vec![];
    for local in ALL_KINDS {
        let compat = (0..12u8).find(|i| rfc_compatible(local.name(), TYPE_NAMES[*i as usize])).unwrap_or(0);
        let base = Cell { local, peer_type: PeerType::Named(compat), version: (3, 0), mech: Mech::Null, sig: Sig::Ok, ident: Ident::Absent, first: First::Ready, as_server: 0, sig_pad: 0, extra_props: 0 };
        let mut cells = vec![base.clone()];
        for i in 0..12u8 {
            cells.push(Cell { peer_type: PeerType::Named(i), ..base.clone() });
        }
        cells.push(Cell { peer_type: PeerType::Unknown, ..base.clone() });
        cells.push(Cell { peer_type: PeerType::Missing, ..base.clone() });
        for version in [(1u8, 0u8), (2, 1), (3, 1), (4, 0)] {
            cells.push(Cell { version, ..base.clone() });
        }
        for mech in [Mech::Plain, Mech::Curve, Mech::Unknown, Mech::Empty, Mech::Unpadded] {
            cells.push(Cell { mech, ..base.clone() });
        }
        for sig in [Sig::Byte0Wrong, Sig::Byte9Wrong] {
            cells.push(Cell { sig, ..base.clone() });
        }
        for ident in [Ident::Empty, Ident::Len(1), Ident::Len(255), Ident::Len(256)] {
            cells.push(Cell { ident, ..base.clone() });
        }
        for first in [First::OtherCommand, First::Message, First::ReadyGarbageTail] {
            cells.push(Cell { first, ..base.clone() });
        }
        for (i, cell) in cells.into_iter().enumerate() {
            v.push(AcceptCase { cell: cell.clone(), ipc: i % 3 == 2, connect_side: false, bystander: 0 });
            // the same verdict while another connection to the endpoint is mid-handshake
            if i % 4 == 0 {
                v.push(AcceptCase { cell: cell.clone(), ipc: i % 8 == 0, connect_side: false, bystander: 1 + (i as u8 / 4) % 2 });
            }
            v.push(AcceptCase { cell, ipc: false, connect_side: true, bystander: 0 });
        }
    }
    v
}

/// An ADAPTIVE peer: it looks at the identities the socket has generated for anonymous peers so
/// far and announces the ones a predictable generator (a counter, a timestamp) would hand out
/// next; anonymous peers admitted afterwards must still get identities nobody else holds ("a
/// fresh unique one").
#[derive(Debug, Clone, Serialize, Deserialize, PartialEq, Eq, Hash)]
pub struct GuessCase {
    pub local: Kind,
    /// anonymous peers attached first, whose generated identities the adversary sees
    pub observe: u8,
    /// 0 = the last identity read as a big-endian number + 1, + 2 ...; 1 = little-endian;
    /// 2 = continue the difference of the last two (big-endian); 3 = libzmq's shape
    /// `00 || be32(n)`, n = 1 ..
    pub predictor: u8,
    /// how many predicted identities are announced (one connection each)
    pub guesses: u8,
    /// anonymous peers admitted afterwards
    pub later: u8,
}

pub fn add_be(v: &[u8], k: u64) -> Vec<u8> {
    let mut out = v.to_vec();
    let mut carry = k as u128;
    for b in out.iter_mut().rev() {
        let t = *b as u128 + (carry & 0xFF);
        *b = t as u8;
        carry = (carry >> 8) + (t >> 8);
    }
    out
}

fn add_le(v: &[u8], k: u64) -> Vec<u8> {
    let mut r = v.to_vec();
    r.reverse();
    let mut r = add_be(&r, k);
    r.reverse();
    r
}

pub fn guess_outcome(c: &GuessCase) -> Outcome {
    let mut o = Outcome::new(hash_of(c));
    o.nontrivial = true;
    o.class("adaptive-identity-guess");
    let c2 = c.clone();
    let (r, panics) = capture_panics(|| {
        run_sim(async move {
            let c = c2;
            let mut f = vec![];
            let mut sim = Sim::new();
            let s = sim.socket(c.local, None);
            let mut held: Vec<(Link, Vec<u8>, &'static str)> = vec![];
            for _ in 0..c.observe.max(1) {
                match simx::attach_raw(&mut sim, s, None).await {
                    Ok((l, id)) => held.push((l, id, "generated")),
                    Err(e) => {
                        fail!(f, "C04/admitted/second-peer", "{}", e);
                        return f;
                    }
                }
            }
            let last = held.last().unwrap().1.clone();
            let prev = if held.len() >= 2 { held[held.len() - 2].1.clone() } else { last.clone() };
            for k in 1..=c.guesses.max(1) as u64 {
                let guess = match c.predictor {
                    0 => add_be(&last, k),
                    1 => add_le(&last, k),
                    2 => {
                        // difference of the last two, as far as it fits 64 bits
                        let n = last.len().min(8);
                        let a = last[last.len() - n..].iter().fold(0u64, |x, b| (x << 8) | *b as u64);
                        let b = if prev.len() == last.len() { prev[prev.len() - n..].iter().fold(0u64, |x, b| (x << 8) | *b as u64) } else { a.wrapping_sub(1) };
                        add_be(&last, a.wrapping_sub(b).max(1).wrapping_mul(k))
                    }
                    _ => {
                        let mut g = vec![0u8];
                        g.extend_from_slice(&(k as u32).to_be_bytes());
                        g
                    }
                };
                if guess.is_empty() || guess.len() > 255 || held.iter().any(|(_, id, _)| *id == guess) {
                    continue;
                }
                match simx::attach_raw(&mut sim, s, Some(&guess)).await {
                    Ok((l, id)) => {
                        if id != guess {
                            fail!(f, "C04/admitted/identity-not-the-announced-one", "announced {} registered as {}", refcodec::brief(&guess), refcodec::brief(&id));
                        }
                        held.push((l, id, "announced"));
                    }
                    Err(e) => fail!(f, "C04/rejects-valid-peer", "a peer announcing the identity {} was refused: {}", refcodec::brief(&guess), e),
                }
            }
            for _ in 0..c.later.max(1) {
                match simx::attach_raw(&mut sim, s, None).await {
                    Ok((l, id)) => {
                        if id.is_empty() {
                            fail!(f, "C04/admitted/empty-identity-assigned", "anonymous peer was registered under an empty identity");
                        }
                        if let Some((_, _, how)) = held.iter().find(|(_, other, _)| *other == id) {
                            fail!(
                                f,
                                "C04/admitted/generated-identity-not-unique",
                                "an anonymous peer was registered under {}, which a connected peer already holds ({}): generated identities are predictable",
                                refcodec::brief(&id),
                                how
                            );
                        }
                        held.push((l, id, "generated"));
                    }
                    Err(e) => fail!(f, "C04/admitted/second-peer", "{}", e),
                }
            }
            f
        })
    });
    if let Some(f) = r {
        o.failures = f;
    }
    for p in panics {
        o.fail("C04/panic", p);
    }
    o
}

#[derive(Debug, Clone, Serialize, Deserialize)]
pub struct CompatCase {
    pub a: String,
    pub b: String,
}

fn compat_outcome(c: &CompatCase) -> Outcome {
    let mut o = Outcome::new(hash_of(&(&c.a, &c.b)));
    o.nontrivial = true;
    let (a, b) = (c.a.clone(), c.b.clone());
    let (r, panics) = capture_panics(|| {
        let mut f = vec![];
        let ab = socket_type(&a).compatible(socket_type(&b));
        let ba = socket_type(&b).compatible(socket_type(&a));
        if ab != ba {
            fail!(f, "C04/compatible/asymmetric", "{}.compatible({}) = {} but {}.compatible({}) = {}", a, b, ab, b, a, ba);
        }
        if ab != rfc_compatible(&a, &b) {
            fail!(f, "C04/compatible/differs-from-rfc", "{}.compatible({}) = {}, RFC 23 says {}", a, b, ab, rfc_compatible(&a, &b));
        }
        // name round trip
        match a.parse::<SocketType>() {
            Ok(t) if t == socket_type(&a) && t.as_str() == a => {}
            other => fail!(f, "C04/compatible/name-roundtrip", "{:?} parsed to {:?}", a, other.map(|t| t.as_str())),
        }
        f
    });
    if let Some(f) = r {
        o.failures = f;
    }
    for p in panics {
        o.fail("C04/compatible/panics", format!("SocketType::{}.compatible(SocketType::{}) panicked: {}", c.a, c.b, p));
    }
    o
}

pub fn run(ctx: &Ctx) -> (Report, PropertyMeta) {
    let mut report = Report::default();
    let t = ctx.tier;
    let g = grid();
    let r = run_cases(ctx, "cell", &g, cell_outcome);
    report.exhaustive_parts.push(format!(
        "full grid: 9 local types x 14 peer Socket-Type values (12 names, unknown, missing) x 5 versions x 6 mechanism fields (NULL, PLAIN, CURVE, unknown name, empty, 20 characters without padding) x 3 signature variants x 5 identity options x 3 first items = {} scripted raw peers",
        g.len()
    ));
    report.merge(r);
    let mut cc = vec![];
    for a in TYPE_NAMES {
        for b in TYPE_NAMES {
            cc.push(CompatCase { a: a.into(), b: b.into() });
        }
    }
    let r = run_cases(ctx, "compat", &cc, compat_outcome);
    report.exhaustive_parts.push("all 12 x 12 SocketType::compatible queries".to_string());
    report.merge(r);
    // adaptive identity guesses (one thread: a process-wide generator must not be advanced by
    // another shard between the observation and the guess)
    {
        let mut ctx1 = ctx.clone();
        ctx1.threads = 1;
        let mut gc = vec![];
        for local in ALL_KINDS {
            for observe in [1u8, 2] {
                for predictor in 0..4u8 {
                    for (guesses, later) in [(1u8, 1u8), (4, 3), (8, 2)] {
                        gc.push(GuessCase { local, observe, predictor, guesses, later });
                    }
                }
            }
        }
        let r = run_cases(&ctx1, "guess", &gc, guess_outcome);
        report.exhaustive_parts.push(format!("adaptive peers: 9 local types x 1..2 observed generated identities x 4 predictors (big-endian / little-endian successor, extrapolated difference, libzmq's 00||be32(n)) x 1..8 announced guesses x 1..3 later anonymous peers: {} cases", gc.len()));
        report.merge(r);
    }
    // real accept path with a monitor (one thread: real transports)
    {
        let mut ctx1 = ctx.clone();
        ctx1.threads = 1;
        let ag = accept_grid();
        let r = run_cases(&ctx1, "accept", &ag, accept_outcome);
        report.exhaustive_parts.push(format!("real bound sockets (TCP / IPC) with a monitor: 9 local types x every cell that differs from the all-valid one in at most one coordinate, on the accept side and on the connect side: {} scripted raw peers", ag.len()));
        report.merge(r);
        crate::realnet::cleanup_scratch();
    }
    // decoration: as-server, signature padding, extra properties, more identity lengths
    let n = t.pick(200_000, 3_000_000);
    let r = run_random(
        ctx,
        "cell",
        n,
        12..=16,
        |s| {
            let local = s.pick(&ALL_KINDS);
            // bias towards compatible peers so that admitted cells dominate
            let pt = if s.chance(2, 3) {
                let compat: Vec<u8> = (0..12u8).filter(|i| rfc_compatible(local.name(), TYPE_NAMES[*i as usize])).collect();
                PeerType::Named(s.pick(&compat))
            } else {
                match s.below(14) {
                    12 => PeerType::Unknown,
                    13 => PeerType::Missing,
                    i => PeerType::Named(i as u8),
                }
            };
            Cell {
                local,
                peer_type: pt,
                version: s.pick(&[(3u8, 0u8), (3, 0), (3, 1), (3, 255), (4, 0), (255, 0), (2, 255), (0, 0)]),
                mech: s.pick(&[Mech::Null, Mech::Null, Mech::Null, Mech::Plain, Mech::Curve, Mech::Unknown, Mech::Empty, Mech::Unpadded]),
                sig: s.pick(&[Sig::Ok, Sig::Ok, Sig::Ok, Sig::Byte0Wrong, Sig::Byte9Wrong]),
                ident: match s.below(6) {
                    0 => Ident::Absent,
                    1 => Ident::Empty,
                    2 => Ident::Len(s.range(1, 254) as u16),
                    3 => Ident::Len(255),
                    4 => Ident::Len(256),
                    _ => Ident::Len(s.range(257, 2000) as u16),
                },
                first: s.pick(&[First::Ready, First::Ready, First::Ready, First::OtherCommand, First::Message, First::ReadyGarbageTail]),
                as_server: s.pick(&[0u8, 1, 2, 255]),
                sig_pad: s.pick(&[0u8, 1, 0xFF]),
                extra_props: s.below(4) as u8,
            }
        },
        cell_outcome,
    );
    report.sections.push(json!({"part": "random decoration (as-server, signature padding, extra READY properties, other versions / identity lengths)", "cases": n}));
    report.merge(r);

    let total = report.evaluations;
    health(&mut report, "expect-admit", total, 3);

    let meta = PropertyMeta {
        level: "exploration",
        rule: "exhaustive grid of scripted raw peers attached to real sockets through the real greeting/READY exchange (in-memory pipes): local type x announced Socket-Type x version x mechanism x signature x identity x first post-greeting item; all 144 SocketType::compatible queries; proptest decoration; and, over the REAL accept path (bound TCP / IPC sockets with a monitor installed), every cell that differs from the all-valid one in at most one coordinate: an admitted peer is reported as exactly one Accepted event, a refused one as exactly one AcceptFailed event and its connection is closed; the same cells with the library on the CONNECT side of a raw listener: connect() returns Ok / Err accordingly, never hangs, and a refused connection is closed. Oracle: independent admission predicate from RFC 23 (signature ok, major version >= 3, mechanism known, first item READY, type known and compatible per the RFC table typed into the harness, identity <= 255); admitted -> Ok(id), id = announced identity or fresh and distinct from a second peer's - also when adaptive peers announce the identities a predictable generator would hand out next (successors of the generated identities seen so far) -, registered exactly once observed behaviourally per socket type (inbound messages once each, even rotation / routing / one copy / one subscription outbound); rejected -> Err, both connection halves dropped, later traffic never delivered, nothing written, sends behave as with no peer; library's own greeting/READY well-formed in every cell. Non-trivial = cell differs from the all-valid cell in at least one coordinate; distinct by cell".into(),
        assumptions: vec![
            "PLAIN and CURVE count as 'known mechanisms' as the statement says, although the library then runs the NULL handshake".into(),
            "STREAM is compatible with nothing (it does not speak ZMTP)".into(),
            "property-name case-insensitivity and duplicate identities among live peers are not in the statement and not generated".into(),
        ],
        exhaustive: true,
    };
    (report, meta)
}

pub fn replay(_ctx: &Ctx, kind: &str, case: &Value) -> Vec<Failure> {
    match kind {
        "cell" => parse_case::<Cell>(case).map(|c| cell_outcome(&c).failures),
        "accept" => parse_case::<AcceptCase>(case).map(|c| {
            let r = accept_outcome(&c).failures;
            crate::realnet::cleanup_scratch();
            r
        }),
        "compat" => parse_case::<CompatCase>(case).map(|c| compat_outcome(&c).failures),
        "guess" => parse_case::<GuessCase>(case).map(|c| guess_outcome(&c).failures),
        _ => Err(vec![Failure::new("replay/unknown-kind", kind.to_string())]),
    }
    .unwrap_or_else(|e| e)
}
