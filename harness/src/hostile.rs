//! Hostile / malformed ZMTP byte streams: exhaustive small alphabets, structure-aware mutations of
//! valid streams, catalogue of malformed command bodies.

use crate::core::{fill, Src};
use crate::refcodec::{self, RefGreeting, Strictness};
use crate::streams;

use serde::{Deserialize, Serialize};

pub const SIZES: [u64; 14] = [
    0,
    1,
    255,
    256,
    1 << 16,
    1 << 20,
    1 << 28,
    (1 << 31) - 1,
    1 << 31,
    (1 << 32) - 1,
    1 << 32,
    (1 << 63) - 1,
    1 << 63,
    u64::MAX,
];

/// malformed (and a few well-formed) command bodies
pub fn command_bodies() -> Vec<Vec<u8>> {
    let r = |rest: &[u8]| {
        let mut v = vec![5u8];
        v.extend_from_slice(b"READY");
        v.extend_from_slice(rest);
        v
    };
    vec![
        vec![],
        vec![0],
        vec![1],
        vec![5],
        vec![255],
        vec![5, b'R', b'E', b'A', b'D'],
        vec![6, b'R', b'E', b'A', b'D', b'Y'],
        r(&[]),
        r(&[0]),
        r(&[0xFF]),
        r(&[1]),
        r(&[1, b'a']),
        r(&[1, b'a', 0]),
        r(&[1, b'a', 0, 0, 0]),
        r(&[1, b'a', 0, 0, 0, 0]),
        r(&[1, b'a', 0, 0, 0, 5, b'x']),
        r(&[1, b'a', 0xFF, 0xFF, 0xFF, 0xFF]),
        r(&[1, b'a', 0x80, 0, 0, 0, 1, 2, 3]),
        r(&[0, 0, 0, 0, 0]),
        r(&[2, 0xC3, 0x28, 0, 0, 0, 0]),
        r(&[200, b'a', b'b']),
        r(&[11, b'S', b'o', b'c', b'k', b'e', b't', b'-', b'T', b'y', b'p', b'e', 0, 0, 0, 3, b'R', b'E']),
        r(&[11, b'S', b'o', b'c', b'k', b'e', b't', b'-', b'T', b'y', b'p', b'e', 0, 0, 1, 0, b'R', b'E', b'Q']),
        r(&[8, b'I', b'd', b'e', b'n', b't', b'i', b't', b'y', 0, 0, 0, 0]),
        r(&[8, b'I', b'd', b'e', b'n', b't', b'i', b't', b'y', 0, 0, 1, 1]),
    ]
}

#[derive(Debug, Clone, Serialize, Deserialize, PartialEq, Eq, Hash)]
pub enum Mutation {
    Truncate(usize),
    /// overwrite the size field of frame #n with a value; `force_long` rewrites flags to LONG
    Size { frame: usize, value: u64, force_long: bool },
    /// OR these bits into the flags of frame #n
    Flags { frame: usize, or: u8 },
    /// replace everything after the greeting+first item with a command frame with this body
    CommandBody { index: usize, long: bool, more: bool },
    /// insert this many zero-length MORE frames at item boundary #n
    MoreFlood { at: usize, count: usize, body_len: usize },
    /// overwrite `len` bytes at `pos` with fill(seed)
    Corrupt { pos: usize, len: usize, seed: u32 },
    /// append random bytes
    AppendRandom { len: usize, seed: u32 },
    /// insert a well-formed READY whose property list has `n` tiny properties
    ManyProps { at: usize, n: usize },
    /// rewrite one whole field of the 64-byte greeting (see `greeting_field`): the signature
    /// stays valid, so the field's parser is actually reached
    GreetingField { field: u8, pattern: u8, seed: u32 },
    /// insert `count` well-formed commands (0 = READY, 1 = PING, 2 = SUBSCRIBE) or ignorable
    /// one-frame messages (3) at item boundary #at
    CommandFlood { at: usize, count: usize, which: u8 },
}

/// (start, end) of the greeting fields a peer controls: signature padding, version major,
/// version minor, mechanism, as-server, filler
pub const GREETING_FIELDS: [(usize, usize); 6] = [(1, 9), (10, 11), (11, 12), (12, 32), (32, 33), (33, 64)];
pub const FIELD_PATTERNS: u8 = 9;

/// boundary contents for a greeting field of `len` bytes
pub fn field_pattern(len: usize, pattern: u8, seed: u32) -> Vec<u8> {
    let mut v = match pattern % FIELD_PATTERNS {
        0 => vec![0x00; len],
        1 => vec![0xFF; len],
        // letters all the way: no NUL terminator anywhere in the field
        2 => (0..len).map(|i| b'A' + (i % 26) as u8).collect(),
        // a known name, a NUL, then junk
        3 => {
            let mut v = b"NULL\0".to_vec();
            v.extend(fill(seed, len));
            v
        }
        // NUL first, then a known name
        4 => {
            let mut v = b"\0NULL".to_vec();
            v.extend(vec![0u8; len]);
            v
        }
        // a known name repeated to the end of the field
        5 => b"NULL".iter().cycle().take(len).copied().collect(),
        // not UTF-8
        6 => (0..len).map(|i| 0x80 | (i as u8)).collect(),
        // everything zero except the last byte
        7 => {
            let mut v = vec![0u8; len];
            if len > 0 {
                v[len - 1] = b'X';
            }
            v
        }
        _ => fill(seed, len),
    };
    v.truncate(len);
    v
}

/// every (field, pattern) rewrite of a valid greeting
pub fn greeting_variants() -> Vec<Vec<u8>> {
    let g = valid_greeting();
    let mut out = vec![];
    for (a, b) in GREETING_FIELDS {
        for pat in 0..FIELD_PATTERNS {
            let mut x = g.clone();
            x[a..b].copy_from_slice(&field_pattern(b - a, pat, 7));
            out.push(x);
        }
    }
    out
}

#[derive(Debug, Clone, Serialize, Deserialize, PartialEq, Eq, Hash)]
pub struct HostileSpec {
    pub base: streams::StreamSpec,
    pub mutations: Vec<Mutation>,
}

/// byte offsets of every frame header in a stream (after the greeting)
fn frame_offsets(data: &[u8]) -> Vec<usize> {
    let mut v = vec![];
    let mut p = if data.len() >= 64 { 64 } else { return v };
    while p < data.len() {
        v.push(p);
        let flags = data[p];
        let long = flags & 2 != 0;
        let (size, hdr) = if long {
            if p + 9 > data.len() {
                break;
            }
            let mut b = [0u8; 8];
            b.copy_from_slice(&data[p + 1..p + 9]);
            (u64::from_be_bytes(b), 9usize)
        } else {
            if p + 2 > data.len() {
                break;
            }
            (data[p + 1] as u64, 2usize)
        };
        let Some(next) = (p + hdr).checked_add(size as usize) else { break };
        if next > data.len() {
            break;
        }
        p = next;
    }
    v
}

impl HostileSpec {
    pub fn encode(&self) -> Vec<u8> {
        let mut data = self.base.encode();
        for m in &self.mutations {
            match m {
                Mutation::Truncate(n) => data.truncate((*n).min(data.len())),
                Mutation::Size { frame, value, force_long } => {
                    let offs = frame_offsets(&data);
                    if offs.is_empty() {
                        continue;
                    }
                    let p = offs[*frame % offs.len()];
                    let long = data[p] & 2 != 0;
                    if *force_long && !long {
                        // rewrite header: flags|LONG + 8 byte size, keeping the body in place
                        if p + 2 <= data.len() {
                            let mut hdr = vec![data[p] | 2];
                            hdr.extend_from_slice(&value.to_be_bytes());
                            data.splice(p..p + 2, hdr);
                        }
                    } else if long {
                        if p + 9 <= data.len() {
                            data[p + 1..p + 9].copy_from_slice(&value.to_be_bytes());
                        }
                    } else if p + 2 <= data.len() {
                        data[p + 1] = *value as u8;
                    }
                }
                Mutation::Flags { frame, or } => {
                    let offs = frame_offsets(&data);
                    if offs.is_empty() {
                        continue;
                    }
                    let p = offs[*frame % offs.len()];
                    data[p] |= *or;
                }
                Mutation::CommandBody { index, long, more } => {
                    let bodies = command_bodies();
                    let body = &bodies[*index % bodies.len()];
                    let p = refcodec::parse_stream(&data, Strictness::LENIENT);
                    let cut = p.item_ends.get(1).copied().unwrap_or(p.consumed).min(data.len());
                    data.truncate(cut);
                    refcodec::encode_frame_opts(&mut data, body, *more, true, *long, 0);
                }
                Mutation::MoreFlood { at, count, body_len } => {
                    let p = refcodec::parse_stream(&data, Strictness::LENIENT);
                    let pos = if p.item_ends.is_empty() { data.len() } else { p.item_ends[*at % p.item_ends.len()] };
                    let mut ins = Vec::with_capacity(count * (2 + body_len));
                    let body = vec![0x55u8; *body_len];
                    for _ in 0..*count {
                        refcodec::encode_frame(&mut ins, &body, true, false);
                    }
                    let pos = pos.min(data.len());
                    data.splice(pos..pos, ins);
                }
                Mutation::Corrupt { pos, len, seed } => {
                    if data.is_empty() {
                        continue;
                    }
                    let p = *pos % data.len();
                    let l = (*len).min(data.len() - p);
                    data[p..p + l].copy_from_slice(&fill(*seed, l));
                }
                Mutation::AppendRandom { len, seed } => data.extend_from_slice(&fill(*seed, *len)),
                Mutation::ManyProps { at, n } => {
                    let p = refcodec::parse_stream(&data, Strictness::LENIENT);
                    let pos = if p.item_ends.is_empty() { data.len() } else { p.item_ends[*at % p.item_ends.len()] };
                    let props: Vec<(Vec<u8>, Vec<u8>)> = (0..*n).map(|i| (format!("{:x}", i).into_bytes(), vec![])).collect();
                    let ins = refcodec::encode_command(b"READY", &props);
                    let pos = pos.min(data.len());
                    data.splice(pos..pos, ins);
                }
                Mutation::CommandFlood { at, count, which } => {
                    let p = refcodec::parse_stream(&data, Strictness::LENIENT);
                    let pos = if p.item_ends.is_empty() { data.len() } else { p.item_ends[*at % p.item_ends.len()] };
                    let mut ins = Vec::with_capacity(count * 12);
                    for i in 0..*count {
                        match which % 4 {
                            0 => ins.extend_from_slice(&refcodec::encode_command(b"READY", &[])),
                            1 => {
                                let mut body = vec![4u8];
                                body.extend_from_slice(b"PING");
                                body.extend_from_slice(&[0, 0, (i % 251) as u8]);
                                refcodec::encode_frame(&mut ins, &body, false, true);
                            }
                            2 => {
                                let mut body = vec![9u8];
                                body.extend_from_slice(b"SUBSCRIBE");
                                body.push(b'a' + (i % 26) as u8);
                                refcodec::encode_frame(&mut ins, &body, false, true);
                            }
                            _ => refcodec::encode_frame(&mut ins, b"", false, false),
                        }
                    }
                    let pos = pos.min(data.len());
                    data.splice(pos..pos, ins);
                }
                Mutation::GreetingField { field, pattern, seed } => {
                    let (a, b) = GREETING_FIELDS[*field as usize % GREETING_FIELDS.len()];
                    if data.len() >= b {
                        data[a..b].copy_from_slice(&field_pattern(b - a, *pattern, *seed));
                    }
                }
            }
        }
        data
    }
}

pub fn gen_mutation(src: &mut Src<'_>, flood_max: usize) -> Mutation {
    match src.weighted(&[5, 3, 3, 5, 3, 3, 1, 1, 2, 2]) {
        1 => Mutation::Truncate(src.range(0, 400)),
        0 => Mutation::Size {
            frame: src.below(8),
            value: src.pick(&SIZES),
            force_long: src.bool(),
        },
        2 => Mutation::Flags {
            frame: src.below(8),
            or: src.pick(&[1u8, 2, 4, 6, 7, 8, 0x80, 0xF8, 0xFF]),
        },
        3 => Mutation::CommandBody {
            index: src.below(64),
            long: src.bool(),
            more: src.chance(1, 4),
        },
        4 => Mutation::MoreFlood {
            at: src.below(6),
            count: match src.weighted(&[2, 2, 1]) {
                0 => src.range(1, 100),
                1 => src.range(100, 5000.min(flood_max)),
                _ => src.range(flood_max / 2, flood_max),
            },
            body_len: src.pick(&[0usize, 0, 0, 1, 3]),
        },
        5 => Mutation::Corrupt {
            pos: src.range(0, 600),
            len: src.range(1, 12),
            seed: src.next() as u32,
        },
        6 => Mutation::AppendRandom {
            len: src.range(1, 300),
            seed: src.next() as u32,
        },
        7 => Mutation::ManyProps {
            at: src.below(4),
            n: src.range(100, 4000),
        },
        8 => Mutation::GreetingField {
            field: src.below(GREETING_FIELDS.len()) as u8,
            pattern: src.below(FIELD_PATTERNS as usize) as u8,
            seed: src.next() as u32,
        },
        _ => Mutation::CommandFlood {
            at: src.below(6),
            count: match src.weighted(&[2, 2, 1]) {
                0 => src.range(1, 100),
                1 => src.range(100, 5000.min(flood_max)),
                _ => src.range(flood_max / 2, flood_max),
            },
            which: src.below(4) as u8,
        },
    }
}

pub fn gen_hostile(src: &mut Src<'_>, flood_max: usize) -> HostileSpec {
    let mut base = streams::gen_stream(src, 4, 12);
    base.truncate = None;
    // most hostile streams start from a valid handshake so that they reach deep states
    if src.chance(3, 4) {
        base.items.insert(0, streams::ready(&[]));
    }
    let n = src.range(1, 3);
    let mutations = (0..n).map(|_| gen_mutation(src, flood_max)).collect();
    HostileSpec { base, mutations }
}

pub const ALPHABET: [u8; 8] = [0x00, 0x01, 0x02, 0x04, 0x05, 0x06, 0xFF, b'R'];

/// the i-th string of exactly `len` symbols over ALPHABET
pub fn alphabet_string(mut code: usize, len: usize) -> Vec<u8> {
    let mut v = Vec::with_capacity(len);
    for _ in 0..len {
        v.push(ALPHABET[code % ALPHABET.len()]);
        code /= ALPHABET.len();
    }
    v
}

pub fn valid_greeting() -> Vec<u8> {
    RefGreeting::valid_null().encode()
}
