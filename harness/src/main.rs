//! vcheck <ID> [--tier quick|thorough] [--seed N] [--replay FILE] [--verif-dir DIR]

use vcore::core::{self, Ctx, Known, Tier, Violation};
use vcore::props;

use std::path::PathBuf;
use std::time::Instant;

#[global_allocator]
static GLOBAL: vcore::alloc::Counting = vcore::alloc::Counting;

fn usage() -> ! {
    eprintln!("usage: vcheck <ID> [--tier quick|thorough] [--seed N] [--replay FILE] [--verif-dir DIR] [--threads N]");
    std::process::exit(2);
}

fn main() {
    let args: Vec<String> = std::env::args().skip(1).collect();
    if args.is_empty() {
        usage();
    }
    // worker mode for crash-isolated campaigns
    if args[0] == "--worker" {
        std::process::exit(vcore::props::worker_main(&args[1..]));
    }
    let id = args[0].clone();
    let mut tier = match std::env::var("VERIF_TIER").ok().as_deref() {
        Some("thorough") => Tier::Thorough,
        _ => Tier::Quick,
    };
    let mut seed: u64 = std::env::var("VERIF_SEED")
        .ok()
        .and_then(|s| s.trim().parse::<i128>().ok())
        .map(|v| v as u64)
        .unwrap_or(1);
    let mut replay: Option<PathBuf> = None;
    let mut verif_dir = PathBuf::from("/verif");
    let mut threads = std::thread::available_parallelism().map(|n| n.get()).unwrap_or(4).min(16);
    let mut explicit_tier = false;
    let mut i = 1;
    while i < args.len() {
        match args[i].as_str() {
            "--tier" => {
                i += 1;
                tier = match args.get(i).map(|s| s.as_str()) {
                    Some("quick") => Tier::Quick,
                    Some("thorough") => Tier::Thorough,
                    _ => usage(),
                };
                explicit_tier = true;
            }
            "quick" => {
                tier = Tier::Quick;
                explicit_tier = true;
            }
            "thorough" => {
                tier = Tier::Thorough;
                explicit_tier = true;
            }
            "--seed" => {
                i += 1;
                seed = args.get(i).and_then(|s| s.parse().ok()).unwrap_or_else(|| usage());
            }
            "--replay" => {
                i += 1;
                replay = Some(PathBuf::from(args.get(i).unwrap_or_else(|| usage())));
            }
            "--verif-dir" => {
                i += 1;
                verif_dir = PathBuf::from(args.get(i).unwrap_or_else(|| usage()));
            }
            "--threads" => {
                i += 1;
                threads = args.get(i).and_then(|s| s.parse().ok()).unwrap_or_else(|| usage());
            }
            _ => usage(),
        }
        i += 1;
    }
    let _ = explicit_tier;
    core::install_panic_hook();
    let ctx = Ctx {
        id: id.clone(),
        tier,
        seed,
        known: Known::load(&verif_dir, &id),
        verif_dir,
        threads,
    };

    // wall-clock watchdog: a hang is an infrastructure problem (exit 2), never a violation
    let limit = match tier {
        Tier::Quick => 1500,
        Tier::Thorough => 6 * 3600,
    };
    std::thread::spawn(move || {
        std::thread::sleep(std::time::Duration::from_secs(limit));
        println!("INFRA: watchdog: run exceeded {} s (inconclusive)", limit);
        std::process::exit(2);
    });

    if let Some(path) = replay {
        std::process::exit(replay_file(&ctx, &path, true));
    }

    let started = Instant::now();
    // replay tier: curated regression cases first
    let mut regress_violation = false;
    let dir = ctx.verif_dir.join("replays").join(&ctx.id);
    let mut replayed = 0;
    if let Ok(rd) = std::fs::read_dir(&dir) {
        let mut files: Vec<PathBuf> = rd.filter_map(|e| e.ok().map(|e| e.path())).filter(|p| p.extension().map(|x| x == "json").unwrap_or(false)).collect();
        files.sort();
        for f in files {
            replayed += 1;
            if replay_file(&ctx, &f, false) != 0 {
                regress_violation = true;
            }
        }
    }
    let Some((mut report, meta)) = props::run(&ctx) else {
        eprintln!("unknown property {}", id);
        std::process::exit(2);
    };
    report.notes.push(format!("replay tier: {} saved cases re-run first", replayed));
    let code = core::finish(&ctx, &report, &meta, started);
    std::process::exit(if regress_violation { 1 } else { code });
}

fn replay_file(ctx: &Ctx, path: &std::path::Path, verbose: bool) -> i32 {
    let text = match std::fs::read_to_string(path) {
        Ok(t) => t,
        Err(e) => {
            eprintln!("cannot read {}: {}", path.display(), e);
            return 2;
        }
    };
    let v: Violation = match serde_json::from_str(&text) {
        Ok(v) => v,
        Err(e) => {
            eprintln!("cannot parse {}: {}", path.display(), e);
            return 2;
        }
    };
    let Some(fails) = props::replay(ctx, &v.kind, &v.case) else {
        eprintln!("no replay for {} kind {}", ctx.id, v.kind);
        return 2;
    };
    let mut code = 0;
    for f in &fails {
        if ctx.known.is_known(&f.sig) {
            if verbose {
                println!("KNOWN-FINDING: property={} {} {}", ctx.id, f.sig, f.msg);
            }
            continue;
        }
        println!("VIOLATION property={} replay={}", ctx.id, path.display());
        println!("  signature: {}", f.sig);
        println!("  message:   {}", f.msg);
        code = 1;
    }
    if verbose && code == 0 {
        println!("replay {}: property held ({} known-finding hits)", path.display(), fails.len());
    }
    code
}
