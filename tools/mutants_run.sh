#!/bin/sh
# usage: tools/mutants_run.sh <ID> <patch>...   -> one summary line per patch
ID="$1"; shift
for P in "$@"; do
  cd /repo || exit 2
  if ! git diff --quiet; then echo "/repo dirty"; exit 2; fi
  if ! git apply "$P" 2>/dev/null; then echo "$(basename $P): DOES-NOT-APPLY"; continue; fi
  /verif/check "$ID" quick > /tmp/mut_$ID.log 2>&1
  code=$?
  sig=$(grep -m3 "signature:" /tmp/mut_$ID.log | sed 's/ *signature: //' | tr '\n' ' ')
  echo "$(basename $P) [$ID]: exit=$code $sig"
  git -C /repo checkout -- .
done
