//! One module per property. Each exposes
//!   run(ctx) -> (Report, PropertyMeta)        the generated-input search
//!   replay(ctx, kind, case) -> Vec<Failure>   one saved case through the same oracle

use crate::core::{Ctx, Failure, PropertyMeta, Report};
use serde_json::Value;

macro_rules! properties {
    ($($id:literal => $m:ident),* $(,)?) => {
        $(pub mod $m;)*
        pub const ALL: &[&str] = &[$($id),*];
        pub fn run(ctx: &Ctx) -> Option<(Report, PropertyMeta)> {
            Some(match ctx.id.as_str() {
                $($id => $m::run(ctx),)*
                _ => return None,
            })
        }
        pub fn replay(ctx: &Ctx, kind: &str, case: &Value) -> Option<Vec<Failure>> {
            if kind.starts_with("fuzz:") {
                return crate::fuzzing::replay(ctx, kind, case);
            }
            Some(match ctx.id.as_str() {
                $($id => $m::replay(ctx, kind, case),)*
                _ => return None,
            })
        }
    };
}

properties! {
    "C01" => c01,
    "C02" => c02,
    "C03" => c03,
    "C04" => c04,
    "C05" => c05,
    "C07" => c07,
    "C08" => c08,
    "C09" => c09,
    "C10" => c10,
    "C11" => c11,
    "C12" => c12,
    "C13" => c13,
    "C14" => c14,
    "C15" => c15,
    "C16" => c16,
    "C17" => c17,
    "C18" => c18,
    "C06" => c06,
    "C19" => c19,
    "C20" => c20,
}

/// helper for replay functions
pub fn parse_case<C: serde::de::DeserializeOwned>(case: &Value) -> Result<C, Vec<Failure>> {
    serde_json::from_value(case.clone())
        .map_err(|e| vec![Failure::new("replay/bad-case", format!("cannot parse case: {}", e))])
}

/// Entry point of crash-isolated worker processes (`vcheck --worker ...`).
pub fn worker_main(args: &[String]) -> i32 {
    match args.first().map(|s| s.as_str()) {
        Some("stress") => crate::stress::worker(&args[1..]),
        _ => 2,
    }
}
