//! C18 — bind/unbind manage independent listeners with exact endpoint bookkeeping.

use crate::core::*;
use crate::fail;
use crate::props::parse_case;
use crate::refcodec;
use crate::realnet::{self, RawConn, Transport};
use crate::sim::{AnySocket, Kind};

use serde::{Deserialize, Serialize};
use serde_json::{json, Value};
use zeromq::{Endpoint, ZmqError};

#[derive(Debug, Clone, Serialize, Deserialize, PartialEq, Eq, Hash)]
pub enum Op {
    Bind(Transport),
    /// bind again the endpoint of live bind #k (literal IP or ipc only): must fail
    BindDuplicate(usize),
    /// ipc path inside a directory that does not exist: must fail
    BindBadIpc,
    /// unbind live bind #k
    Unbind(usize),
    /// unbind an endpoint that was never bound, or was unbound before
    UnbindUnknown(usize),
    /// a raw client connects to live bind #k and completes the handshake
    ConnectIn(usize),
    /// one message exchange on established connection #j
    Exchange(usize),
    /// a raw client connects to live bind #k, sends only the first n bytes of its greeting +
    /// READY and then stays connected without sending more (a handshake pending at whatever
    /// comes next - in particular at an unbind of that endpoint)
    StallIn(usize, usize),
    /// one accept() on live bind #k FAILS (the process is out of file descriptors at the moment
    /// a client connects; done by lowering RLIMIT_NOFILE for a few milliseconds): the endpoint
    /// stays bound and must go on accepting afterwards
    AcceptError(usize),
}

#[derive(Debug, Clone, Serialize, Deserialize, PartialEq, Eq, Hash)]
pub struct BindCase {
    pub kind: Kind,
    pub ops: Vec<Op>,
}

pub const KINDS: [Kind; 6] = [Kind::Rep, Kind::Pull, Kind::Router, Kind::Pub, Kind::Push, Kind::XPub];

struct Live {
    text: String,
    endpoint: Endpoint,
    transport: Transport,
}

pub fn bind_outcome(c: &BindCase) -> Outcome {
    let mut o = Outcome::new(hash_of(c));
    let c2 = c.clone();
    let (r, panics) = capture_panics(|| {
        realnet::run_net(async move {
            let c = c2;
            let kind = c.kind;
            let who = kind.name();
            let mut f: Vec<Failure> = vec![];
            let mut classes: Vec<String> = vec![];
            let mut s = AnySocket::new(kind, None);
            // every other history runs with a monitor installed (receiver kept)
            let _monitor_rx = if c.ops.len() % 2 == 1 {
                classes.push("with-a-monitor-installed".into());
                Some(realnet::sock_monitor(&mut s))
            } else {
                None
            };
            let mut live: Vec<Live> = vec![];
            let mut gone: Vec<Endpoint> = vec![];
            let mut conns: Vec<(RawConn, String)> = vec![]; // (connection, endpoint text it was made to)
            let mut stalled: Vec<(RawConn, String, usize)> = vec![]; // (connection, endpoint text, handshake bytes sent)
            let mut tagn = 0usize;
            for (opi, op) in c.ops.iter().enumerate() {
                let before: Vec<Endpoint> = {
                    let mut b = realnet::sock_binds(&mut s);
                    b.sort_by_key(|e| e.to_string());
                    b
                };
                match op {
                    Op::Bind(t) => {
                        let text = t.bind_text();
                        match realnet::sock_bind(&mut s, &text).await {
                            Ok(e) => {
                                let shown = e.to_string();
                                if let Endpoint::Tcp(_, port) = &e {
                                    if *port == 0 {
                                        fail!(f, format!("C18/{}/bind/wildcard-port-not-resolved", who), "bind({}) returned {}", text, shown);
                                    }
                                }
                                match shown.parse::<Endpoint>() {
                                    Ok(e2) if e2 == e => {}
                                    other => fail!(f, format!("C18/{}/bind/returned-endpoint-text-does-not-parse-back", who), "{} -> {:?}", shown, other.map(|x| x.to_string())),
                                }
                                // connectable
                                match realnet::raw_connect(&shown).await {
                                    Ok(rc) => drop(rc),
                                    Err(err) => fail!(f, format!("C18/{}/bind/returned-endpoint-not-connectable", who), "bind({}) returned {} but connecting to it fails: {}", text, shown, err),
                                }
                                live.push(Live { text: shown, endpoint: e, transport: *t });
                            }
                            Err(err) => {
                                // binding to ::1 can legitimately fail on hosts without IPv6
                                if *t == Transport::TcpV6 || *t == Transport::TcpLocalhost {
                                    classes.push("bind-unavailable".into());
                                } else {
                                    fail!(f, format!("C18/{}/bind/fails", who), "bind({}) failed: {:?}", text, err);
                                }
                            }
                        }
                    }
                    Op::BindDuplicate(k) => {
                        let cands: Vec<usize> = (0..live.len()).filter(|i| live[*i].transport != Transport::TcpLocalhost).collect();
                        if cands.is_empty() {
                            continue;
                        }
                        let k = cands[*k % cands.len()];
                        classes.push("failed-op".into());
                        match realnet::sock_bind(&mut s, &live[k].text).await {
                            Err(_) => {}
                            Ok(e) => {
                                fail!(f, format!("C18/{}/bind/duplicate-bind-succeeds", who), "op {}: binding {} a second time returned {}", opi, live[k].text, e);
                            }
                        }
                    }
                    Op::BindBadIpc => {
                        classes.push("failed-op".into());
                        let text = format!("ipc://{}/no-such-dir/sock", realnet::scratch_dir().display());
                        if let Ok(e) = realnet::sock_bind(&mut s, &text).await {
                            fail!(f, format!("C18/{}/bind/impossible-bind-succeeds", who), "bind({}) returned {}", text, e);
                        }
                    }
                    Op::Unbind(k) => {
                        if live.is_empty() {
                            continue;
                        }
                        let k = *k % live.len();
                        if live.len() >= 2 {
                            classes.push("unbind-with-other-binds".into());
                        }
                        let l = live.remove(k);
                        if stalled.iter().any(|(_, t, _)| *t == l.text) {
                            classes.push("unbind-with-a-handshake-pending".into());
                        }
                        let res = match tokio::time::timeout(realnet::LIMIT, realnet::sock_unbind(&mut s, l.endpoint.clone())).await {
                            Ok(r) => r,
                            Err(_) => {
                                fail!(
                                    f,
                                    format!("C18/{}/unbind/hangs", who),
                                    "op {}: unbind({}) did not return within {:?} ({} connection(s) to it were in the middle of their handshake)",
                                    opi,
                                    l.text,
                                    realnet::LIMIT,
                                    stalled.iter().filter(|(_, t, _)| *t == l.text).count()
                                );
                                // the socket was abandoned in the middle of unbind: stop here
                                break;
                            }
                        };
                        match res {
                            Ok(()) => {
                                if !realnet::connect_refused(&l.text).await {
                                    fail!(f, format!("C18/{}/unbind/endpoint-still-accepting", who), "op {}: {} accepts a connection after unbind returned", opi, l.text);
                                }
                                if let Some(p) = realnet::ipc_path_of(&l.text) {
                                    if p.exists() {
                                        fail!(f, format!("C18/{}/unbind/ipc-file-left-behind", who), "{}", p.display());
                                    }
                                }
                                // clients that were in the middle of their handshake on this
                                // endpoint resume now: unbind has stopped accepting on it, so
                                // none of them may still become a peer - the connection is
                                // closed
                                let mut i = 0;
                                while i < stalled.len() {
                                    if stalled[i].1 != l.text {
                                        i += 1;
                                        continue;
                                    }
                                    let (mut rc, _, n) = stalled.remove(i);
                                    classes.push("handshake-resumed-after-unbind".into());
                                    let mut hs = crate::hostile::valid_greeting();
                                    hs.extend_from_slice(&refcodec::encode_ready(kind.a_compatible_peer(), None));
                                    let _ = rc.write(&hs[n.min(hs.len())..]).await;
                                    let ended = rc.await_end(std::time::Duration::from_secs(2)).await;
                                    // (the socket's own greeting and READY may have been sent long
                                    // before the unbind; only the fate of the connection counts)
                                    if !ended {
                                        fail!(
                                            f,
                                            format!("C18/{}/unbind/pending-handshake-completes-after-unbind", who),
                                            "op {}: a client was {} bytes into its handshake on {} when unbind returned; it then sent the rest and the connection is still open 2 s later",
                                            opi,
                                            n,
                                            l.text
                                        );
                                    }
                                }
                            }
                            Err(err) => fail!(f, format!("C18/{}/unbind/bound-endpoint-refused", who), "op {}: unbind({}) failed: {:?}", opi, l.text, err),
                        }
                        gone.push(l.endpoint);
                        // every other listener still completes a handshake
                        for other in &live {
                            match realnet::raw_connect(&other.text).await {
                                Ok(mut rc) => {
                                    if let Err(e) = rc.handshake(kind.a_compatible_peer(), None).await {
                                        fail!(f, format!("C18/{}/unbind/stops-another-listener", who), "op {}: after unbinding {}, {} no longer completes a handshake: {}", opi, l.text, other.text, e);
                                    } else {
                                        conns.push((rc, other.text.clone()));
                                    }
                                }
                                Err(e) => fail!(f, format!("C18/{}/unbind/stops-another-listener", who), "op {}: after unbinding {}, connecting to {} fails: {}", opi, l.text, other.text, e),
                            }
                        }
                    }
                    Op::UnbindUnknown(k) => {
                        classes.push("failed-op".into());
                        // never bound / unbound before / NEAR MISSES of a live bind: same port under
                        // another address or a host name, same address under another port, an ipc
                        // path that extends a bound one
                        let mut near: Option<(String, usize)> = None;
                        let e: Endpoint = if !gone.is_empty() && *k % 6 == 0 {
                            gone[*k % gone.len()].clone()
                        } else if *k % 6 >= 2 && !live.is_empty() {
                            let li = (*k / 6) % live.len();
                            let l = &live[li];
                            let text = match (&l.endpoint, l.transport) {
                                (_, Transport::TcpLocalhost) => None,
                                (Endpoint::Tcp(host, port), _) => Some(match *k % 6 {
                                    2 => format!("tcp://192.0.2.1:{}", port),
                                    3 => format!("tcp://unbound.invalid:{}", port),
                                    4 => format!("tcp://{}:{}", if l.transport == Transport::TcpV6 { "127.0.0.1".to_string() } else { "[::1]".to_string() }, port),
                                    _ => format!("tcp://{}:{}", if l.transport == Transport::TcpV6 { format!("[{}]", host) } else { host.to_string() }, port ^ 1),
                                }),
                                (Endpoint::Ipc(Some(p)), _) => Some(format!("ipc://{}x", p.display())),
                                _ => None,
                            };
                            match text.and_then(|t| t.parse::<Endpoint>().ok().map(|e| (t, e))) {
                                Some((t, e)) if !live.iter().any(|x| x.endpoint == e) => {
                                    near = Some((t, li));
                                    classes.push("unbind-near-miss-of-a-live-bind".into());
                                    e
                                }
                                _ => "tcp://127.0.0.1:1".parse().unwrap(),
                            }
                        } else {
                            "tcp://127.0.0.1:1".parse().unwrap()
                        };
                        match realnet::sock_unbind(&mut s, e.clone()).await {
                            Err(ZmqError::NoSuchBind(_)) => {}
                            other => fail!(f, format!("C18/{}/unbind/unknown-endpoint-not-refused-with-NoSuchBind", who), "op {}: unbind({}) returned {:?} (bound: {:?})", opi, e, other.map_err(|e| format!("{:?}", e)), live.iter().map(|l| l.text.clone()).collect::<Vec<_>>()),
                        }
                        if let Some((t, li)) = near {
                            // the bind it resembles is untouched
                            match realnet::raw_connect(&live[li].text).await {
                                Ok(mut rc) => {
                                    if let Err(err) = rc.handshake(kind.a_compatible_peer(), None).await {
                                        fail!(f, format!("C18/{}/unbind/failed-unbind-stops-a-listener", who), "op {}: after the refused unbind({}), {} no longer completes a handshake: {}", opi, t, live[li].text, err);
                                    } else {
                                        conns.push((rc, live[li].text.clone()));
                                    }
                                }
                                Err(err) => fail!(f, format!("C18/{}/unbind/failed-unbind-stops-a-listener", who), "op {}: after the refused unbind({}), connecting to {} fails: {}", opi, t, live[li].text, err),
                            }
                        }
                    }
                    Op::ConnectIn(k) => {
                        if live.is_empty() {
                            continue;
                        }
                        let k = *k % live.len();
                        match realnet::raw_connect(&live[k].text).await {
                            Ok(mut rc) => match rc.handshake(kind.a_compatible_peer(), None).await {
                                Ok(()) => conns.push((rc, live[k].text.clone())),
                                Err(e) => fail!(f, format!("C18/{}/bound-endpoint-does-not-accept", who), "op {}: handshake on {} failed: {}", opi, live[k].text, e),
                            },
                            Err(e) => fail!(f, format!("C18/{}/bound-endpoint-does-not-accept", who), "op {}: connect to {} failed: {}", opi, live[k].text, e),
                        }
                    }
                    Op::StallIn(k, n) => {
                        if live.is_empty() {
                            continue;
                        }
                        let k = *k % live.len();
                        match realnet::raw_connect(&live[k].text).await {
                            Ok(mut rc) => {
                                let mut hs = crate::hostile::valid_greeting();
                                hs.extend_from_slice(&refcodec::encode_ready(kind.a_compatible_peer(), None));
                                let n = (*n).min(hs.len() - 1);
                                if let Err(e) = rc.write(&hs[..n]).await {
                                    fail!(f, format!("C18/{}/bound-endpoint-does-not-accept", who), "op {}: writing {} handshake bytes to {} failed: {}", opi, n, live[k].text, e);
                                }
                                // let the accept task pick the connection up
                                tokio::time::sleep(std::time::Duration::from_millis(5)).await;
                                stalled.push((rc, live[k].text.clone(), n));
                            }
                            Err(e) => fail!(f, format!("C18/{}/bound-endpoint-does-not-accept", who), "op {}: connect to {} failed: {}", opi, live[k].text, e),
                        }
                    }
                    Op::AcceptError(k) => {
                        if live.is_empty() {
                            continue;
                        }
                        let k = *k % live.len();
                        classes.push("accept-error-on-a-bound-endpoint".into());
                        // lowest free descriptor number L: with the soft limit at L + 1 exactly
                        // one more descriptor can be opened - the client's; the listener's
                        // accept() then fails with EMFILE
                        let used: std::collections::BTreeSet<u64> = std::fs::read_dir("/proc/self/fd").map(|d| d.filter_map(|e| e.ok()?.file_name().to_str()?.parse().ok()).collect()).unwrap_or_default();
                        let mut lowest_free = 0u64;
                        while used.contains(&lowest_free) {
                            lowest_free += 1;
                        }
                        let mut old = libc::rlimit { rlim_cur: 0, rlim_max: 0 };
                        unsafe { libc::getrlimit(libc::RLIMIT_NOFILE, &mut old) };
                        let low = libc::rlimit { rlim_cur: lowest_free + 1, rlim_max: old.rlim_max };
                        unsafe { libc::setrlimit(libc::RLIMIT_NOFILE, &low) };
                        let rc = realnet::raw_connect(&live[k].text).await;
                        tokio::time::sleep(std::time::Duration::from_millis(15)).await;
                        unsafe { libc::setrlimit(libc::RLIMIT_NOFILE, &old) };
                        drop(rc);
                        tokio::time::sleep(std::time::Duration::from_millis(5)).await;
                        // the endpoint is still bound: it accepts the next client
                        match realnet::raw_connect(&live[k].text).await {
                            Ok(mut rc) => match rc.handshake(kind.a_compatible_peer(), None).await {
                                Ok(()) => conns.push((rc, live[k].text.clone())),
                                Err(e) => fail!(f, format!("C18/{}/bound-endpoint-does-not-accept", who), "op {}: after ONE failed accept() (descriptor limit reached for 15 ms) the handshake on {} fails: {}", opi, live[k].text, e),
                            },
                            Err(e) => fail!(f, format!("C18/{}/bound-endpoint-does-not-accept", who), "op {}: after ONE failed accept() (descriptor limit reached for 15 ms) connecting to {} fails: {}", opi, live[k].text, e),
                        }
                    }
                    Op::Exchange(j) => {
                        if conns.is_empty() {
                            continue;
                        }
                        let j = *j % conns.len();
                        tagn += 1;
                        let unbound = !live.iter().any(|l| l.text == conns[j].1);
                        if unbound {
                            classes.push("exchange-on-connection-of-an-unbound-endpoint".into());
                        }
                        if let Err(e) = realnet::exchange(&mut s, kind, &mut conns[j].0, &format!("x{}", tagn)).await {
                            fail!(
                                f,
                                format!("C18/{}/established-connection-broken", who),
                                "op {}: connection #{} (made to {}, {}) no longer carries a message: {}",
                                opi,
                                j,
                                conns[j].1,
                                if unbound { "since unbound" } else { "still bound" },
                                e
                            );
                        }
                    }
                }
                // bookkeeping: binds() == model after every op
                let mut now = realnet::sock_binds(&mut s);
                now.sort_by_key(|e| e.to_string());
                let mut want: Vec<Endpoint> = live.iter().map(|l| l.endpoint.clone()).collect();
                want.sort_by_key(|e| e.to_string());
                if now != want {
                    let failed = matches!(op, Op::BindDuplicate(_) | Op::BindBadIpc | Op::UnbindUnknown(_));
                    let sig = if failed { "failed-op-changes-bind-set" } else { "bind-set-differs-from-model" };
                    fail!(
                        f,
                        format!("C18/{}/{}", who, sig),
                        "after op {} {:?}: binds() = {:?}, expected {:?} (before: {:?})",
                        opi,
                        op,
                        now.iter().map(|e| e.to_string()).collect::<Vec<_>>(),
                        want.iter().map(|e| e.to_string()).collect::<Vec<_>>(),
                        before.iter().map(|e| e.to_string()).collect::<Vec<_>>()
                    );
                    break;
                }
            }
            // at the end every live bind still accepts
            for l in &live {
                match realnet::raw_connect(&l.text).await {
                    Ok(mut rc) => {
                        if let Err(e) = rc.handshake(kind.a_compatible_peer(), None).await {
                            fail!(f, format!("C18/{}/bound-endpoint-does-not-accept", who), "at the end {} does not complete a handshake: {}", l.text, e);
                        }
                    }
                    Err(e) => fail!(f, format!("C18/{}/bound-endpoint-does-not-accept", who), "at the end connecting to {} fails: {}", l.text, e),
                }
            }
            drop(conns);
            drop(stalled);
            let _ = tokio::time::timeout(realnet::LIMIT, realnet::sock_close(s)).await;
            (f, classes)
        })
    });
    if let Some((f, classes)) = r {
        o.failures = f;
        let mut cl = classes;
        cl.sort();
        cl.dedup();
        o.nontrivial = cl.iter().any(|c| c == "unbind-with-other-binds" || c == "failed-op");
        o.classes.extend(cl);
    }
    for p in panics {
        o.fail(format!("C18/panic/{}", panic_sig(&p)), p);
    }
    o
}

pub fn gen_bind(s: &mut Src<'_>) -> BindCase {
    let kind = s.pick(&KINDS);
    let n = s.range(4, 14);
    let mut ops = vec![Op::Bind(s.pick(&[Transport::TcpV4, Transport::Ipc]))];
    for _ in 0..n {
        let op = match s.weighted(&[5, 2, 1, 4, 2, 4, 4, 2, 1]) {
            0 => Op::Bind(s.pick(&[Transport::TcpV4, Transport::TcpV4, Transport::TcpV6, Transport::TcpLocalhost, Transport::Ipc, Transport::Ipc])),
            1 => Op::BindDuplicate(s.below(8)),
            2 => Op::BindBadIpc,
            3 => Op::Unbind(s.below(8)),
            4 => Op::UnbindUnknown(s.below(48)),
            5 => Op::ConnectIn(s.below(8)),
            6 => Op::Exchange(s.below(8)),
            8 => Op::AcceptError(s.below(8)),
            _ => Op::StallIn(s.below(8), s.pick(&[0usize, 1, 9, 10, 11, 12, 32, 63, 64, 65, 70, 1000])),
        };
        ops.push(op);
    }
    BindCase { kind, ops }
}

pub fn run(ctx: &Ctx) -> (Report, PropertyMeta) {
    let mut report = Report::default();
    let t = ctx.tier;
    let mut ctx1 = ctx.clone();
    ctx1.threads = 1;
    let ctx = &ctx1;
    // enumerated: each kind x each transport: bind, connect, bind second, unbind first, exchange, ...
    let mut cases = vec![];
    for kind in KINDS {
        for t1 in [Transport::TcpV4, Transport::TcpV6, Transport::TcpLocalhost, Transport::Ipc] {
            for t2 in [Transport::TcpV4, Transport::Ipc] {
                cases.push(BindCase {
                    kind,
                    ops: vec![
                        Op::Bind(t1),
                        Op::ConnectIn(0),
                        Op::Exchange(0),
                        Op::Bind(t2),
                        Op::BindDuplicate(1),
                        Op::BindBadIpc,
                        Op::ConnectIn(1),
                        Op::UnbindUnknown(1),
                        Op::UnbindUnknown(2),
                        Op::UnbindUnknown(3),
                        Op::UnbindUnknown(4),
                        Op::UnbindUnknown(5),
                        Op::UnbindUnknown(6 + 2),
                        Op::UnbindUnknown(6 + 3),
                        Op::UnbindUnknown(6 + 5),
                        Op::Unbind(0),
                        Op::Exchange(0),
                        Op::Exchange(1),
                        Op::UnbindUnknown(0),
                        Op::ConnectIn(0),
                        Op::AcceptError(0),
                        Op::Exchange(0),
                        Op::StallIn(0, 0),
                        Op::StallIn(0, 11),
                        Op::StallIn(0, 70),
                        Op::Unbind(0),
                        Op::Exchange(0),
                        Op::Exchange(2),
                    ],
                });
            }
        }
    }
    let r = run_cases(ctx, "bind", &cases, bind_outcome);
    report.exhaustive_parts.push(format!("REP/PULL/ROUTER/PUB/PUSH/XPUB x 4 first transports x 2 second transports, fixed 29-op history touching every op kind: {} cases", cases.len()));
    report.merge(r);
    let n = t.pick(500, 10000);
    let r = run_random(ctx, "bind", n, 30..=60, gen_bind, bind_outcome);
    report.sections.push(json!({"part": "random op sequences of length <= 15", "cases": n}));
    report.merge(r);
    realnet::cleanup_scratch();

    let total = report.evaluations;
    health(&mut report, "unbind-with-other-binds", total, 200);
    health(&mut report, "failed-op", total, 300);
    health_abs(&mut report, "exchange-on-connection-of-an-unbound-endpoint", 20);
    health_abs(&mut report, "unbind-with-a-handshake-pending", 30);
    health_abs(&mut report, "unbind-near-miss-of-a-live-bind", 100);
    health_abs(&mut report, "accept-error-on-a-bound-endpoint", 30);

    let meta = PropertyMeta {
        level: "exploration",
        rule: "proptest operation sequences (length <= 15) on real REP, PULL, ROUTER, PUB, PUSH and XPUB sockets (every other history with a monitor installed) over {bind tcp://127.0.0.1:0, tcp://[::1]:0, tcp://localhost:0, ipc://<fresh path>; bind an endpoint that is already bound; bind an ipc path in a missing directory; unbind a bound endpoint; unbind a never-bound / already unbound endpoint, including near misses of a live bind (its port under another address or under a host name, its address under another port, an ipc path extending a bound one); a raw client connects and completes the handshake; a raw client connects, sends a prefix of its handshake (0..all-but-one bytes) and stays silent; exchange a message on an established connection; one accept() fails because the process is briefly out of file descriptors}, against a reference model of the bind set. Oracle: a successful bind returns an endpoint with a non-zero port whose text form parses back to it and is connectable; binds() equals the model after every operation; a failed bind changes nothing; unbind of a bound endpoint returns (within 5 s, also while connections to it are in the middle of their handshake) Ok, that endpoint refuses connections (IPC file gone) when it returns, every other bound endpoint still completes a handshake and established connections (including those made to the unbound endpoint) still carry a message; anything else fails with NoSuchBind. Non-trivial = an unbind while >= 2 binds exist, or a failed operation; distinct by sequence".into(),
        assumptions: vec![
            "'duplicate bind' uses literal-IP and ipc endpoints only: tcp://localhost:P can legally succeed twice (once per address family)".into(),
            "cases run on one thread and a connection that unexpectedly succeeds is retried 3 times (an unrelated process may be handed a just-released port)".into(),
        ],
        exhaustive: false,
    };
    (report, meta)
}

pub fn replay(_ctx: &Ctx, kind: &str, case: &Value) -> Vec<Failure> {
    let r = match kind {
        "bind" => parse_case::<BindCase>(case).map(|c| bind_outcome(&c).failures),
        _ => Err(vec![Failure::new("replay/unknown-kind", kind.to_string())]),
    }
    .unwrap_or_else(|e| e);
    realnet::cleanup_scratch();
    r
}
