#!/usr/bin/env python3
"""Regenerates /verif/MANIFEST.json from the table below (keeps the file valid at all times)."""
import json, os, subprocess

HERE = os.path.dirname(os.path.dirname(os.path.abspath(__file__)))

def hook_commits():
    try:
        out = subprocess.check_output(["git", "-C", "/repo", "log", "--format=%H %s"], text=True)
        return [l.split()[0] for l in out.splitlines() if "verif hooks" in l]
    except Exception:
        return []

# id -> (category, text, design_ref, note, technique)
CHECKS = {
 "C01": ("exploration",
         "Exhaustive boundary-length grid (1..3 frames) plus proptest-generated messages up to MiB sizes, compared byte-for-byte with an independent RFC-23 encoder/decoder and round-tripped through the library decoder; greeting/READY captured from the wire of all 9 real socket types. Held on everything explored; not a proof for all lengths.",
         "DESIGN.md §3 C01",
         "Trusts the harness reference codec (harness/src/refcodec.rs) as a faithful transcription of RFC 23.",
         "property-based testing (proptest) + exhaustive boundary grid, differential against a reference codec"),
 "C02": ("exploration",
         "Metamorphic + differential: the library's real framed reader is driven over reference-encoded item sequences under ALL partitions of short streams, every cut / pair of cuts of medium streams and random partitions of long ones; items, end-of-stream kind and decoder state must equal the one-read run and an independent reference parse. Socket level: data sharing a segment with the end of the handshake must be the first recv for 7 socket types.",
         "DESIGN.md §3 C02",
         "Trusts the reference parser; reads are capped at the framed reader's own 8 KiB buffer; exhaustive only for the stated stream lengths.",
         "property-based testing (proptest) + exhaustive partition enumeration; metamorphic (segmentation-invariance) and differential oracles"),
 "C03": ("fault_enumeration",
         "Hostile byte streams (exhaustive small alphabets, a catalogue of malformed greetings/commands/huge declared sizes/frame floods, proptest structure-aware mutations, random bytes) are fed to the real framed reader on small-stack threads under a counting allocator, and at every handshake stage of all 9 socket types and through proxy(); a supervising parent process turns aborts, stack overflows and allocation bombs into replayable violations. Held on everything explored.",
         "DESIGN.md §3 C03, §2.6",
         "Stack and memory bounds are sensitivity choices stated in the evidence; only inputs the generators reach are covered.",
         "fuzzing / fault enumeration with crash isolation: exhaustive small alphabets + structure-aware mutation (proptest), oracles: no panic/abort, heap growth proportional to bytes received"),
 "C19": ("exploration",
         "Exhaustive enumeration of every string up to length 5 (thorough: 6) over a 15-symbol alphabet after tcp:// and ipc://, a cross product of address/port forms, and proptest grammar-based and Unicode strings, compared with an independent three-valued reference parser (must-accept with value / must-reject / unspecified) plus parse-format-parse equality.",
         "DESIGN.md §3 C19",
         "Strings with a newline and borderline address literals are treated as unspecified; the reference parser is the harness's reading of the statement.",
         "property-based testing (proptest) + exhaustive small-alphabet enumeration, differential against a reference parser, round-trip law"),
}

PENDING = {
}

def main():
    checks = []
    for pid in sorted(CHECKS):
        cat, text, ref, note, tech = CHECKS[pid]
        checks.append({
            "property_id": pid,
            "quick_cmd": f"./check {pid} quick",
            "thorough_cmd": f"./check {pid} thorough",
            "evidence_file": f"/verif/evidence/{pid}.json",
            "replay_cmd_template": f"./check {pid} --replay {{path}}",
            "engine": "vcheck",
            "level_claimed": {"category": cat, "text": text, "design_ref": ref},
            "level_note": note,
            "technique": tech,
        })
    props = [json.loads(l)["id"] for l in open(os.path.join(HERE, "properties.jsonl"))]
    na = []
    for pid in props:
        if pid not in CHECKS:
            na.append({"property_id": pid, "reason": PENDING.get(pid, "check not built yet in this revision of /verif (planned, see DESIGN.md §3); nothing is claimed for it")})
    m = {
        "version": 1,
        "setup_cmd": "cd /verif/harness && CARGO_NET_OFFLINE=true cargo build --release --offline",
        "hooks": {
            "guard": "cargo feature verif-hooks",
            "enable": "harness/Cargo.toml depends on zeromq = { path = \"/repo\", features = [\"verif-hooks\"] }; every ./check rebuilds it from /repo's working tree",
            "baseline_off_cmd": "cd /repo && cargo test --workspace --no-fail-fast --offline",
            "source_commits": hook_commits(),
            "add_only": True,
        },
        "engines": [
            {"name": "vcheck", "path": "/verif/harness", "serves_properties": sorted(CHECKS),
             "kind_free_text": "Rust binary: proptest TestRunner over choice vectors + explicit exhaustive enumerators; in-memory pipe simulation of real sockets; reference ZMTP codec; real-transport harness"},
        ],
        "checks": checks,
        "not_applicable": na,
        "notes": "Exit codes: 0 held, 1 VIOLATION, 2 infrastructure/inconclusive. VERIF_SEED and VERIF_TIER are honoured. See DESIGN.md.",
    }
    with open(os.path.join(HERE, "MANIFEST.json"), "w") as f:
        json.dump(m, f, indent=1)
        f.write("\n")

if __name__ == "__main__":
    main()
