//! C09 — ROUTER labels inbound messages with the true sender and routes by first frame.

use crate::core::*;
use crate::fail;
use crate::pipe::ReadEnd;
use crate::props::parse_case;
use crate::refcodec;
use crate::sim::{run_sim, Frames, Kind, Link, Out, Sim};

use serde::{Deserialize, Serialize};
use serde_json::{json, Value};

#[derive(Debug, Clone, Serialize, Deserialize, PartialEq, Eq, Hash)]
pub struct PeerSpec {
    /// announced socket type: DEALER, REQ or ROUTER
    pub socket_type: String,
    /// announced identity (hex) or None for an auto-assigned one
    pub identity: Option<String>,
    /// a library DEALER/REQ socket with the peer_identity option, linked by a pipe pair,
    /// instead of a raw peer (then `socket_type` is DEALER or REQ)
    pub lib: bool,
}

#[derive(Debug, Clone, Serialize, Deserialize, PartialEq, Eq, Hash)]
pub enum Target {
    Peer(usize),
    /// an identity no peer ever had
    Unknown,
    /// a 256-byte first frame (cannot be an identity)
    Oversized,
    Empty,
}

#[derive(Debug, Clone, Serialize, Deserialize, PartialEq, Eq, Hash)]
pub enum Op {
    /// peer j writes one tagged message (frame lengths after the tag frame)
    PeerSend(usize, Vec<usize>),
    /// deliver n bytes of peer j's pending output (0 = everything)
    Deliver(usize, usize),
    /// application: recv until nothing more is deliverable
    RecvAll,
    /// application: one recv poll-to-quiescence (may stay pending and is then cancelled)
    RecvOne,
    /// application: send [target, payload...]
    Send(Target, Vec<usize>),
    /// peer j's connection is reset (read error); observed by a following recv
    Reset(usize),
    /// peer j closes in an orderly way (end-of-stream); like on TCP, writes towards it still
    /// succeed for a while, so only the socket's own bookkeeping can make a later send fail
    Close(usize),
    /// peer j (raw, announced identity) goes away and, BEFORE the socket has had a chance to
    /// observe that, a new connection announcing the same identity completes its handshake (a
    /// worker that restarts under its fixed identity). From then on that identity is the new
    /// connection. Only done when everything the old connection wrote has been received.
    Rejoin(usize),
    /// peer j is gone but nothing tells the socket on the read side: writes towards it fail
    /// (EPIPE) from now on, so the socket can only find out through a send addressed to it -
    /// which must return (with an error), also when repeated, and leave the others alone
    Break(usize),
}

#[derive(Debug, Clone, Serialize, Deserialize, PartialEq, Eq, Hash)]
pub struct RouterCase {
    pub peers: Vec<PeerSpec>,
    pub ops: Vec<Op>,
}

enum PeerRt {
    Raw(Link),
    Lib { sock: usize, to_router: crate::pipe::Pipe, from_router: crate::pipe::Pipe },
}

pub fn router_outcome(c: &RouterCase) -> Outcome {
    let mut o = Outcome::new(hash_of(c));
    let multi = c.peers.len() >= 2;
    let nonfirst = c.ops.iter().any(|op| matches!(op, Op::Send(Target::Peer(j), _) if *j > 0) || matches!(op, Op::Send(Target::Unknown | Target::Oversized | Target::Empty, _)));
    o.nontrivial = multi && nonfirst;
    if c.peers.iter().any(|p| p.identity.as_ref().map(|i| !i.is_empty()).unwrap_or(false)) {
        o.class("announced-identity");
    }
    if c.peers.iter().filter(|p| p.identity.as_ref().map(|i| i.is_empty()).unwrap_or(false)).count() >= 2 {
        o.class("several-peers-announcing-an-empty-identity");
    }
    if c.peers.iter().any(|p| p.lib) {
        o.class("library-peer-with-identity-option");
    }
    if c.ops.iter().any(|op| matches!(op, Op::Break(_))) {
        o.class("peer-whose-writes-fail");
    }
    if c.ops.iter().any(|op| matches!(op, Op::Reset(_) | Op::Close(_))) {
        o.class("departed-target");
    }
    if c.ops.iter().filter(|op| matches!(op, Op::Reset(_) | Op::Close(_))).count() >= 2 {
        o.class("several-departures");
    }
    if c.ops.iter().any(|op| matches!(op, Op::Send(Target::Unknown | Target::Oversized | Target::Empty, _))) {
        o.class("absent-target");
    }
    let mut rejoined = false;
    let c2 = c.clone();
    let (r, panics) = capture_panics(|| {
        run_sim(async move {
            let c = c2;
            let mut f: Vec<Failure> = vec![];
            let mut sim = Sim::new();
            let router = sim.socket(Kind::Router, None);
            let mut peers: Vec<PeerRt> = vec![];
            let mut ids: Vec<Vec<u8>> = vec![];
            for (j, ps) in c.peers.iter().enumerate() {
                let want_id = ps.identity.as_ref().map(|h| refcodec::unhex(h));
                if ps.lib {
                    let kind = if ps.socket_type == "REQ" { Kind::Req } else { Kind::Dealer };
                    let s = sim.socket(kind, want_id.as_deref());
                    let (x, y, ab, ba) = sim.connect_libs(s, router, true);
                    let _ = sim.settle().await;
                    match (sim.out(x), sim.out(y)) {
                        (Some(Out::Attach(Ok(_))), Some(Out::Attach(Ok(id)))) => {
                            if let Some(w) = &want_id {
                                if id != w {
                                    fail!(f, "C09/identity/local-option-not-announced", "library {} with peer_identity {} was registered by ROUTER as {}", ps.socket_type, refcodec::brief(w), refcodec::brief(id));
                                }
                            }
                            ids.push(id.clone());
                        }
                        other => {
                            fail!(f, "C09/setup", "peer {}: {:?}", j, other);
                            return (f, 0);
                        }
                    }
                    peers.push(PeerRt::Lib { sock: s, to_router: ab, from_router: ba });
                } else {
                    let l = sim.link();
                    l.raw_handshake(&ps.socket_type, want_id.as_deref());
                    let a = sim.attach(router, &l);
                    match sim.run(a).await {
                        Ok(Some(Out::Attach(Ok(id)))) => {
                            if let Some(w) = &want_id {
                                if w.is_empty() {
                                    // a present-but-empty Identity (what anonymous libzmq peers
                                    // send) names nobody: the peer gets a unique one
                                    if id.is_empty() {
                                        fail!(f, "C09/identity/empty-identity-not-replaced", "peer {} announced an empty Identity and was registered under the empty identity", j);
                                    }
                                } else if &id != w {
                                    fail!(f, "C09/identity/announced-identity-not-used", "peer {} announced {} but attach returned {}", j, refcodec::brief(w), refcodec::brief(&id));
                                }
                            }
                            ids.push(id);
                        }
                        other => {
                            fail!(f, "C09/setup", "peer {}: {:?}", j, other);
                            return (f, 0);
                        }
                    }
                    peers.push(PeerRt::Raw(l));
                }
            }
            for i in 0..ids.len() {
                for j in 0..i {
                    if ids[i] == ids[j] {
                        fail!(f, "C09/identity/not-unique", "peers {} and {} share identity {}", j, i, refcodec::brief(&ids[i]));
                        return (f, 0);
                    }
                }
            }
            // ground truth: messages each peer put on the wire, in order; next expected index
            let mut sent: Vec<Vec<Frames>> = vec![vec![]; peers.len()];
            let mut next: Vec<usize> = vec![0; peers.len()];
            let mut gone: Vec<bool> = vec![false; peers.len()];
            let mut observed_gone: Vec<bool> = vec![false; peers.len()];
            let mut seq = 0usize;
            // connections that have been replaced by a newer one under the same identity
            let mut former: Vec<(usize, Link)> = vec![];
            let mut rejoins = 0usize;
            let tap_len = |p: &PeerRt| match p {
                PeerRt::Raw(l) => l.from_lib.tap_len(),
                PeerRt::Lib { from_router, .. } => from_router.tap_len(),
            };
            for (opi, op) in c.ops.iter().enumerate() {
                match op {
                    Op::PeerSend(j, lens) => {
                        let j = *j % peers.len();
                        if gone[j] {
                            continue;
                        }
                        seq += 1;
                        let mut m: Frames = vec![format!("from-{}-{}", j, seq).into_bytes()];
                        for (i, l) in lens.iter().enumerate() {
                            m.push(fill((seq * 10 + i) as u32, *l));
                        }
                        match &peers[j] {
                            PeerRt::Raw(l) => {
                                // a REQ peer's messages carry the delimiter on the wire
                                let w = if c.peers[j].socket_type == "REQ" {
                                    let mut w = vec![vec![]];
                                    w.extend(m.clone());
                                    w
                                } else {
                                    m.clone()
                                };
                                l.raw_send(&w);
                                sent[j].push(w);
                            }
                            PeerRt::Lib { sock, .. } => {
                                if sim.busy(*sock) {
                                    continue;
                                }
                                let a = sim.send(*sock, &m);
                                match sim.run(a).await {
                                    Ok(Some(Out::Send(Ok(())))) => {
                                        let w = if c.peers[j].socket_type == "REQ" {
                                            let mut w = vec![vec![]];
                                            w.extend(m.clone());
                                            w
                                        } else {
                                            m.clone()
                                        };
                                        sent[j].push(w);
                                    }
                                    // a library REQ refuses a second request: not ROUTER's business
                                    _ => {}
                                }
                            }
                        }
                    }
                    Op::Deliver(j, n) => {
                        let j = *j % peers.len();
                        if let PeerRt::Raw(l) = &peers[j] {
                            l.to_lib.deliver(if *n == 0 { usize::MAX } else { *n });
                        }
                    }
                    Op::Reset(j) => {
                        let j = *j % peers.len();
                        if let PeerRt::Raw(l) = &peers[j] {
                            if !gone[j] {
                                l.to_lib.deliver_all();
                                l.to_lib.end_after_all(ReadEnd::Err(std::io::ErrorKind::ConnectionReset));
                                gone[j] = true;
                            }
                        }
                    }
                    Op::Close(j) => {
                        let j = *j % peers.len();
                        if let PeerRt::Raw(l) = &peers[j] {
                            if !gone[j] {
                                l.to_lib.deliver_all();
                                l.to_lib.end_after_all(ReadEnd::Eof);
                                gone[j] = true;
                            }
                        }
                    }
                    Op::Break(j) => {
                        let j = *j % peers.len();
                        if let PeerRt::Raw(l) = &peers[j] {
                            if !gone[j] && next[j] == sent[j].len() {
                                l.from_lib.break_writer(std::io::ErrorKind::BrokenPipe);
                                gone[j] = true;
                            }
                        }
                    }
                    Op::Rejoin(j) => {
                        let j = *j % peers.len();
                        let Some(idh) = c.peers[j].identity.as_ref().filter(|i| !i.is_empty()) else { continue };
                        let PeerRt::Raw(l) = &peers[j] else { continue };
                        if next[j] != sent[j].len() {
                            continue;
                        }
                        let old = l.clone();
                        if !gone[j] {
                            old.to_lib.deliver_all();
                            old.to_lib.end_after_all(ReadEnd::Eof);
                        }
                        let id = refcodec::unhex(idh);
                        let nl = sim.link();
                        nl.raw_handshake(&c.peers[j].socket_type, Some(&id));
                        let a = sim.attach(router, &nl);
                        match sim.run(a).await {
                            Ok(Some(Out::Attach(Ok(got)))) => {
                                if got != id {
                                    fail!(f, "C09/identity/announced-identity-not-used", "returning peer {} announced {} but attach returned {}", j, refcodec::brief(&id), refcodec::brief(&got));
                                }
                            }
                            other => {
                                fail!(f, "C09/identity/returning-identity-refused", "op {}: connection {} had gone (end {}observed) and a new connection announcing its identity was not admitted: {:?}", opi, j, if observed_gone[j] { "" } else { "not yet " }, other);
                                return (f, rejoins);
                            }
                        }
                        former.push((j, old));
                        peers[j] = PeerRt::Raw(nl);
                        gone[j] = false;
                        observed_gone[j] = false;
                        rejoins += 1;
                    }
                    Op::RecvAll | Op::RecvOne => {
                        let max = if matches!(op, Op::RecvAll) { 64 } else { 1 };
                        for _ in 0..max {
                            let r = sim.recv(router);
                            match sim.run(r).await {
                                Ok(Some(Out::Recv(Ok(m)))) => {
                                    // who sent it? by tag
                                    let tagf = m.iter().find(|fr| fr.starts_with(b"from-"));
                                    let j = tagf.and_then(|t| std::str::from_utf8(t).ok()).and_then(|t| t.split('-').nth(1)).and_then(|x| x.parse::<usize>().ok());
                                    let Some(j) = j.filter(|j| *j < peers.len()) else {
                                        fail!(f, "C09/inbound/unattributable-message", "op {}: recv returned {:?}", opi, m.iter().map(|x| x.len()).collect::<Vec<_>>());
                                        continue;
                                    };
                                    if m[0] != ids[j] {
                                        let k = ids.iter().position(|i| *i == m[0]);
                                        fail!(
                                            f,
                                            "C09/inbound/wrong-identity-prefix",
                                            "op {}: a message that arrived on connection {} (identity {}) was labelled {} ({})",
                                            opi,
                                            j,
                                            refcodec::brief(&ids[j]),
                                            refcodec::brief(&m[0]),
                                            k.map(|k| format!("the identity of connection {}", k)).unwrap_or("nobody's identity".into())
                                        );
                                    }
                                    match sent[j].get(next[j]) {
                                        Some(w) if w[..] == m[1..] => next[j] += 1,
                                        other => {
                                            fail!(
                                                f,
                                                "C09/inbound/frames-modified",
                                                "op {}: connection {} message #{}: returned frames {:?}, sent {:?}",
                                                opi,
                                                j,
                                                next[j],
                                                m[1..].iter().map(|x| x.len()).collect::<Vec<_>>(),
                                                other.map(|w| w.iter().map(|x| x.len()).collect::<Vec<_>>())
                                            );
                                            next[j] += 1;
                                        }
                                    }
                                }
                                Ok(Some(Out::Recv(Err(_)))) => {}
                                Ok(None) => {
                                    sim.cancel(r);
                                    break;
                                }
                                other => {
                                    fail!(f, "C09/spin", "{:?}", other);
                                    return (f, rejoins);
                                }
                            }
                        }
                        // a reset whose bytes were all delivered has now been observed
                        for j in 0..peers.len() {
                            if gone[j] {
                                if let PeerRt::Raw(l) = &peers[j] {
                                    if l.to_lib.end_reported() > 0 {
                                        observed_gone[j] = true;
                                    }
                                }
                            }
                        }
                    }
                    Op::Send(target, lens) => {
                        let (first, tj): (Vec<u8>, Option<usize>) = match target {
                            Target::Peer(j) => {
                                let j = *j % peers.len();
                                (ids[j].clone(), Some(j))
                            }
                            Target::Unknown => (b"nobody-has-this-identity".to_vec(), None),
                            Target::Oversized => (vec![b'x'; 256], None),
                            Target::Empty => (vec![], None),
                        };
                        let mut m: Frames = vec![first];
                        for (i, l) in lens.iter().enumerate() {
                            m.push(fill((opi * 10 + i) as u32 + 5000, *l));
                        }
                        if m.len() < 2 {
                            m.push(b"p".to_vec());
                        }
                        let before: Vec<usize> = peers.iter().map(tap_len).collect();
                        let former_before: Vec<usize> = former.iter().map(|(_, l)| l.from_lib.tap_len()).collect();
                        let a = sim.send(router, &m);
                        let res = sim.run(a).await;
                        if let Some((k, (j, _))) = former.iter().enumerate().find(|(k, (_, l))| l.from_lib.tap_len() != former_before[*k]) {
                            fail!(f, "C09/outbound/delivered-to-replaced-connection", "op {}: send to {:?} wrote to the connection that identity of peer {} had BEFORE it went away and came back (former connection #{}), result {:?}", opi, target, j, k, res.as_ref().map(|r| r.as_ref().map(|o| o.err_text().map(|s| s.to_string()))));
                        }
                        let grew: Vec<usize> = peers.iter().enumerate().filter(|(i, p)| tap_len(p) != before[*i]).map(|x| x.0).collect();
                        match res {
                            Ok(Some(Out::Send(Ok(())))) => match tj {
                                Some(j) if !observed_gone[j] => {
                                    if grew != vec![j] {
                                        fail!(f, "C09/outbound/delivered-to-wrong-peer", "op {}: send to the identity of connection {} grew connections {:?}", opi, j, grew);
                                    } else {
                                        let new = match &peers[j] {
                                            PeerRt::Raw(l) => l.from_lib.tap_from(before[j]),
                                            PeerRt::Lib { from_router, .. } => from_router.tap_from(before[j]),
                                        };
                                        if new != refcodec::encode_message(&m[1..]) {
                                            fail!(f, "C09/outbound/frames-modified", "op {}: connection {} received {} instead of the message minus its first frame", opi, j, refcodec::brief(&new));
                                        }
                                    }
                                }
                                Some(j) => {
                                    fail!(f, "C09/outbound/send-to-departed-peer-succeeds", "op {}: connection {} was reset and the socket observed it, yet a send to its identity succeeded (grew {:?})", opi, j, grew);
                                }
                                None => {
                                    fail!(f, "C09/outbound/send-to-absent-identity-succeeds", "op {}: target {:?} is not a connected peer, send returned Ok (grew {:?})", opi, target, grew);
                                }
                            },
                            Ok(Some(Out::Send(Err(e)))) => {
                                if !grew.is_empty() {
                                    fail!(f, "C09/outbound/failed-send-wrote-bytes", "op {}: send failed ({}) but connections {:?} grew", opi, e.text.chars().take(60).collect::<String>(), grew);
                                }
                                if let Some(j) = tj {
                                    if !gone[j] {
                                        fail!(f, "C09/outbound/send-to-live-peer-fails", "op {}: send to connected peer {} failed: {}", opi, j, e.text.chars().take(80).collect::<String>());
                                    }
                                }
                            }
                            other => {
                                fail!(f, "C09/outbound/send-hangs", "op {}: {:?}", opi, other);
                                return (f, rejoins);
                            }
                        }
                        // library peers: drain what they received so their pipes stay readable
                    }
                }
            }
            // ---- completeness: everything a still-connected peer wrote comes out of recv
            for p in &peers {
                if let PeerRt::Raw(l) = p {
                    l.to_lib.deliver_all();
                }
            }
            let mut tail_ok = true;
            for _ in 0..400 {
                let r = sim.recv(router);
                match sim.run(r).await {
                    Ok(Some(Out::Recv(Ok(m)))) => {
                        let tagf = m.iter().find(|fr| fr.starts_with(b"from-"));
                        let j = tagf.and_then(|t| std::str::from_utf8(t).ok()).and_then(|t| t.split('-').nth(1)).and_then(|x| x.parse::<usize>().ok()).filter(|j| *j < peers.len());
                        match j {
                            Some(j) => {
                                if m[0] != ids[j] || sent[j].get(next[j]).map(|w| w[..] != m[1..]).unwrap_or(true) {
                                    fail!(f, "C09/inbound/frames-modified", "final drain: connection {} message #{} returned as {:?} under label {}", j, next[j], m[1..].iter().map(|x| x.len()).collect::<Vec<_>>(), refcodec::brief(&m[0]));
                                }
                                next[j] += 1;
                            }
                            None => fail!(f, "C09/inbound/unattributable-message", "final drain: recv returned {:?}", m.iter().map(|x| x.len()).collect::<Vec<_>>()),
                        }
                    }
                    Ok(Some(Out::Recv(Err(_)))) => {}
                    Ok(None) => {
                        sim.cancel(r);
                        break;
                    }
                    _ => {
                        tail_ok = false;
                        break;
                    }
                }
            }
            if tail_ok {
                for j in 0..peers.len() {
                    if gone[j] || matches!(peers[j], PeerRt::Lib { .. }) {
                        continue;
                    }
                    if next[j] < sent[j].len() {
                        fail!(f, "C09/inbound/message-lost", "connection {} (identity {}) wrote {} messages, recv returned {} of them although the peer is still connected", j, refcodec::brief(&ids[j]), sent[j].len(), next[j]);
                    }
                }
            }
            (f, rejoins)
        })
    });
    if let Some((f, rejoins)) = r {
        o.failures = f;
        rejoined = rejoins > 0;
    }
    if rejoined {
        o.class("identity-reused-by-a-returning-peer");
    }
    for p in panics {
        o.fail(format!("C09/panic/{}", panic_sig(&p)), p);
    }
    o
}

fn gen_lens(s: &mut Src<'_>) -> Vec<usize> {
    let n = s.range(0, 3);
    (0..n)
        .map(|_| match s.weighted(&[4, 3, 1]) {
            0 => s.range(0, 8),
            1 => s.range(9, 400),
            _ => s.range(400, 30_000),
        })
        .collect()
}

pub fn gen_router(s: &mut Src<'_>) -> RouterCase {
    let n = s.range(1, 5);
    let mut peers: Vec<PeerSpec> = vec![];
    for _ in 0..n {
        let lib = s.chance(1, 5);
        let socket_type = if lib { s.pick(&["DEALER", "REQ"]) } else { s.pick(&["DEALER", "DEALER", "REQ", "ROUTER"]) }.to_string();
        let identity = if !lib && s.chance(1, 6) {
            // announced, but empty
            Some(String::new())
        } else if s.chance(3, 5) {
            let l = s.pick(&[1usize, 2, 5, 16, 17, 254, 255]);
            let mut id = fill(s.next() as u32, l);
            id[0] |= 1;
            Some(refcodec::hex(&id))
        } else {
            None
        };
        peers.push(PeerSpec { socket_type, identity, lib });
    }
    for i in 0..peers.len() {
        for j in 0..i {
            if peers[i].identity.as_ref().map(|x| !x.is_empty()).unwrap_or(false) && peers[i].identity == peers[j].identity {
                peers[i].identity = None;
            }
        }
    }
    let k = s.range(4, 30);
    let mut ops = vec![];
    for _ in 0..k {
        if s.chance(1, 12) {
            // a peer with a fixed identity restarts: its pending output is received first, then
            // it is replaced; usually something is routed to it / heard from it right after
            let j = s.below(n);
            ops.push(Op::Deliver(j, 0));
            ops.push(Op::RecvAll);
            ops.push(Op::Rejoin(j));
            if s.bool() {
                ops.push(Op::Send(Target::Peer(j), gen_lens(s)));
            }
            continue;
        }
        let op = match s.weighted(&[5, 4, 3, 2, 5, 1, 1, 1]) {
            0 => Op::PeerSend(s.below(n), gen_lens(s)),
            1 => Op::Deliver(s.below(n), s.pick(&[0usize, 0, 1, 3, 10, 100])),
            2 => Op::RecvAll,
            3 => Op::RecvOne,
            4 => {
                let t = match s.weighted(&[6, 1, 1, 1]) {
                    0 => Target::Peer(s.below(n)),
                    1 => Target::Unknown,
                    2 => Target::Oversized,
                    _ => Target::Empty,
                };
                Op::Send(t, gen_lens(s))
            }
            5 => Op::Reset(s.below(n)),
            7 => Op::Close(s.below(n)),
            _ => Op::Break(s.below(n)),
        };
        ops.push(op);
    }
    ops.push(Op::Deliver(0, 0));
    ops.push(Op::RecvAll);
    RouterCase { peers, ops }
}

pub fn run(ctx: &Ctx) -> (Report, PropertyMeta) {
    let mut report = Report::default();
    let t = ctx.tier;
    // enumerated: identity lengths x peer types, each peer sends and is sent to
    let mut cases = vec![];
    for st in ["DEALER", "REQ", "ROUTER"] {
        for idlen in [0usize, 1, 2, 16, 254, 255] {
            for lib in [false, true] {
                if lib && st == "ROUTER" {
                    continue;
                }
                let id = if idlen == 0 { None } else { Some(refcodec::hex(&(0..idlen).map(|i| (i as u8) | 1).collect::<Vec<u8>>())) };
                let peers = vec![
                    PeerSpec { socket_type: "DEALER".into(), identity: None, lib: false },
                    PeerSpec { socket_type: st.into(), identity: id, lib },
                    PeerSpec { socket_type: "DEALER".into(), identity: Some("aa".into()), lib: false },
                ];
                let ops = vec![
                    Op::PeerSend(1, vec![3]),
                    Op::PeerSend(0, vec![]),
                    Op::PeerSend(2, vec![0, 300]),
                    Op::Deliver(0, 0),
                    Op::Deliver(1, 0),
                    Op::Deliver(2, 0),
                    Op::RecvAll,
                    Op::Send(Target::Peer(1), vec![5]),
                    Op::Send(Target::Peer(2), vec![0, 2]),
                    Op::Send(Target::Peer(0), vec![300]),
                    Op::Send(Target::Unknown, vec![1]),
                    Op::Send(Target::Oversized, vec![1]),
                    Op::Send(Target::Empty, vec![1]),
                    Op::Reset(2),
                    Op::RecvAll,
                    Op::Send(Target::Peer(2), vec![1]),
                    Op::Send(Target::Peer(1), vec![1]),
                    Op::Close(0),
                    Op::RecvAll,
                    Op::Send(Target::Peer(0), vec![1]),
                    Op::Send(Target::Peer(1), vec![2]),
                    // peer 2 (reset, observed) comes back under its identity
                    Op::Rejoin(2),
                    Op::Send(Target::Peer(2), vec![4]),
                    Op::PeerSend(2, vec![2]),
                    Op::Deliver(2, 0),
                    Op::RecvAll,
                    // peer 1 restarts while the socket is idle: its departure is not observed
                    Op::Rejoin(1),
                    Op::Send(Target::Peer(1), vec![6]),
                    Op::PeerSend(1, vec![1]),
                    Op::Deliver(1, 0),
                    Op::RecvAll,
                    Op::Send(Target::Peer(1), vec![0]),
                    Op::Send(Target::Peer(2), vec![1]),
                ];
                // a peer whose departure only a failing write can reveal: every send returns
                cases.push(RouterCase {
                    peers: peers.clone(),
                    ops: vec![
                        Op::PeerSend(1, vec![1]),
                        Op::Deliver(1, 0),
                        Op::RecvAll,
                        Op::Break(1),
                        Op::Send(Target::Peer(1), vec![3]),
                        Op::Send(Target::Peer(1), vec![3]),
                        Op::Send(Target::Peer(0), vec![1]),
                        Op::Send(Target::Peer(2), vec![1]),
                        Op::Break(2),
                        Op::Send(Target::Peer(2), vec![70_000]),
                        Op::Send(Target::Peer(0), vec![1]),
                    ],
                });
                cases.push(RouterCase { peers, ops });
            }
        }
    }
    // two and three peers that announce an EMPTY identity (anonymous libzmq peers do)
    for st in ["DEALER", "REQ", "ROUTER"] {
        for n in [2usize, 3] {
            let mut peers: Vec<PeerSpec> = (0..n).map(|_| PeerSpec { socket_type: st.into(), identity: Some(String::new()), lib: false }).collect();
            peers.push(PeerSpec { socket_type: "DEALER".into(), identity: Some("aa".into()), lib: false });
            let mut ops = vec![];
            for j in 0..peers.len() {
                ops.push(Op::PeerSend(j, vec![2]));
                ops.push(Op::Deliver(j, 0));
            }
            ops.push(Op::RecvAll);
            for j in 0..peers.len() {
                ops.push(Op::Send(Target::Peer(j), vec![1, 0]));
            }
            ops.push(Op::Send(Target::Empty, vec![1]));
            cases.push(RouterCase { peers, ops });
        }
    }
    // a long history: 120 rounds of traffic in both directions over 3 peers
    {
        let peers = vec![
            PeerSpec { socket_type: "DEALER".into(), identity: None, lib: false },
            PeerSpec { socket_type: "DEALER".into(), identity: Some("0102".into()), lib: false },
            PeerSpec { socket_type: "REQ".into(), identity: Some("aa".into()), lib: false },
        ];
        let mut ops = vec![];
        for i in 0..120usize {
            ops.push(Op::PeerSend(i % 3, vec![i % 4]));
            ops.push(Op::Deliver(i % 3, 0));
            if i % 2 == 1 {
                ops.push(Op::RecvAll);
            }
            ops.push(Op::Send(Target::Peer((i + 1) % 3), vec![i % 3]));
        }
        cases.push(RouterCase { peers, ops });
    }
    let r = run_cases(ctx, "router", &cases, router_outcome);
    report.exhaustive_parts.push(format!("3 peer types x 6 identity lengths x raw/library peer, fixed history touching every target kind: {} cases", cases.len()));
    report.merge(r);
    let n = t.pick(60_000, 1_000_000);
    let r = run_random(ctx, "router", n, 60..=300, gen_router, router_outcome);
    report.sections.push(json!({"part": "random histories: 1..5 peers (raw DEALER/REQ/ROUTER or library DEALER/REQ with the identity option), interleaved sends / partial deliveries / recvs / routed sends / resets", "cases": n}));
    report.merge(r);

    if t == Tier::Thorough {
        crate::fuzzing::campaign(ctx, &mut report, "sim", 180);
    }
    let total = report.evaluations;
    health(&mut report, "announced-identity", total, 300);
    health(&mut report, "absent-target", total, 100);
    health_abs(&mut report, "departed-target", 300);
    health_abs(&mut report, "several-departures", 100);
    health_abs(&mut report, "identity-reused-by-a-returning-peer", 300);
    health_abs(&mut report, "several-peers-announcing-an-empty-identity", 300);
    health_abs(&mut report, "library-peer-with-identity-option", 300);

    let meta = PropertyMeta {
        level: "exploration",
        rule: "proptest histories on a real ROUTER socket with 1..5 peers (raw DEALER/REQ/ROUTER with announced 1..255-byte identities, an announced EMPTY identity (replaced by a unique one) or no Identity property (auto-assigned), or library DEALER/REQ sockets using SocketOptions::peer_identity over a pipe pair): peers write tagged messages, bytes are delivered in generated portions, the application interleaves recv with send([target, ...]) to every live identity, a never-seen identity, a 256-byte frame, an empty frame and the identity of a peer that was reset or closed in an orderly way (like on TCP, writes towards a closed peer still succeed, so only the socket's bookkeeping can refuse), including several departures in one history, and peers with a fixed identity that go away and come back under it before the socket has observed the departure (the identity then means the new connection; the replaced connection must not be written to). Oracle: every recv result's first frame equals the identity of the connection the tagged payload was written on (= attach's return value = announced bytes, pairwise distinct), remaining frames equal what was sent, in per-connection order; after send returns Ok exactly the target's wire grew by the reference encoding of frames[1..]; on Err no wire grew; absent / oversized / empty / departed targets fail. Non-trivial = >= 2 peers and a send to a non-first peer or an absent identity; distinct by case".into(),
        assumptions: vec![
            "a departed peer is asserted on only after the socket has observed its end (a recv consumed the EOF / error)".into(),
            "one-frame sends are outside the statement".into(),
        ],
        exhaustive: false,
    };
    (report, meta)
}

pub fn replay(_ctx: &Ctx, kind: &str, case: &Value) -> Vec<Failure> {
    match kind {
        "router" => parse_case::<RouterCase>(case).map(|c| router_outcome(&c).failures),
        _ => Err(vec![Failure::new("replay/unknown-kind", kind.to_string())]),
    }
    .unwrap_or_else(|e| e)
}
