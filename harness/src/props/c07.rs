//! C07 — REQ/REP envelopes are added, preserved and stripped exactly.

use crate::core::*;
use crate::fail;
use crate::props::parse_case;
use crate::refcodec;
use crate::sim::{run_sim, Frames, Kind, Out, Sim};

use serde::{Deserialize, Serialize};
use serde_json::{json, Value};

pub const SIZES: [usize; 5] = [0, 1, 255, 256, 70_000];
pub const PREFIXES: [&[usize]; 4] = [&[], &[1], &[5, 255], &[1, 5, 255]];

#[derive(Debug, Clone, Copy, Serialize, Deserialize, PartialEq, Eq, Hash)]
pub enum Mode {
    /// library REQ talking to a raw REP peer
    LibReqRawRep,
    /// raw REQ (no prefix) or raw DEALER (with routing prefix) talking to a library REP
    RawToLibRep,
    /// library REQ <-> library REP over a pipe pair
    EndToEnd,
    /// library REQ -> k x (library ROUTER, relay, library DEALER) -> library REP and back; the
    /// prefix lengths are the identities announced by the REQ and by each DEALER but the last
    /// hop's, so that the request reaches the REP behind exactly that routing prefix
    Chain,
}

#[derive(Debug, Clone, Serialize, Deserialize, PartialEq, Eq, Hash)]
pub struct EnvCase {
    pub mode: Mode,
    /// request payload frame lengths
    pub payload: Vec<usize>,
    /// reply payload frame lengths
    pub reply: Vec<usize>,
    /// routing prefix frame lengths (RawToLibRep only; non-empty prefix => announced as DEALER)
    pub prefix: Vec<usize>,
    pub seed: u32,
    /// LibReqRawRep only: this many peers connected and failed (their ids are left stale in the
    /// REQ's rotation) before the exchange with the live peer
    #[serde(default)]
    pub stale: usize,
}

fn frames(lens: &[usize], seed: u32) -> Frames {
    lens.iter().enumerate().map(|(i, l)| fill(seed.wrapping_add(i as u32 * 7 + 1), *l)).collect()
}

/// identity-like frames: never empty
fn prefix_frames(lens: &[usize], seed: u32) -> Frames {
    lens.iter()
        .enumerate()
        .map(|(i, l)| {
            let mut f = fill(seed.wrapping_add(100 + i as u32), *l);
            if let Some(b) = f.first_mut() {
                *b |= 1;
            }
            f
        })
        .collect()
}

fn lens(m: &Frames) -> Vec<usize> {
    m.iter().map(|f| f.len()).collect()
}

pub fn env_outcome(c: &EnvCase) -> Outcome {
    let mut o = Outcome::new(hash_of(c));
    o.nontrivial = c.payload.len() >= 2 || c.payload.contains(&0) || !c.prefix.is_empty();
    if c.payload.contains(&0) {
        o.class("empty-frame-in-payload");
    }
    if c.payload.len() >= 2 {
        o.class("multi-frame-payload");
    }
    if !c.prefix.is_empty() {
        o.class("routing-prefix");
    }
    if c.stale > 0 {
        o.class("stale-rotation-entries");
    }
    if c.mode == Mode::Chain {
        o.class(format!("router-dealer-chain-{}-hops", c.prefix.len().max(1)));
        if c.prefix.contains(&255) {
            o.class("chain-with-255-byte-identity");
        }
    }
    if c.payload.iter().chain(c.reply.iter()).any(|l| *l >= 70_000) {
        o.class("large-frame");
    }
    let c2 = c.clone();
    let (r, panics) = capture_panics(|| {
        run_sim(async move {
            let c = c2;
            let mut f = vec![];
            let payload = frames(&c.payload, c.seed);
            let reply = frames(&c.reply, c.seed ^ 0x5555);
            let mut sim = Sim::new();
            match c.mode {
                Mode::LibReqRawRep => {
                    let s = sim.socket(Kind::Req, None);
                    for _ in 0..c.stale {
                        // a peer that connects and whose connection then fails on write
                        let dead = sim.link();
                        dead.raw_handshake("REP", None);
                        let a = sim.attach(s, &dead);
                        let _ = sim.run(a).await;
                        dead.from_lib.break_writer(std::io::ErrorKind::BrokenPipe);
                        let a = sim.send(s, &[b"probe".to_vec()]);
                        let _ = sim.run(a).await;
                    }
                    let link = sim.link();
                    link.raw_handshake("REP", None);
                    let a = sim.attach(s, &link);
                    let _ = sim.run(a).await;
                    let a = sim.send(s, &payload);
                    match sim.run(a).await {
                        Ok(Some(Out::Send(Ok(())))) => {}
                        other => {
                            fail!(f, "C07/req/send-failed", "{:?}", other);
                            return f;
                        }
                    }
                    let mut want = vec![vec![]];
                    want.extend(payload.clone());
                    match link.lib_messages() {
                        Ok(m) => {
                            if m != vec![want.clone()] {
                                fail!(
                                    f,
                                    "C07/req/request-envelope",
                                    "REQ sent payload {:?}; on the wire: {:?} (expected one empty delimiter then the payload: {:?})",
                                    c.payload,
                                    m.iter().map(lens).collect::<Vec<_>>(),
                                    lens(&want)
                                );
                            }
                        }
                        Err(e) => fail!(f, "C07/req/wire-malformed", "{}", e),
                    }
                    let mut wire_reply = vec![vec![]];
                    wire_reply.extend(reply.clone());
                    link.raw_send_now(&wire_reply);
                    let r = sim.recv(s);
                    match sim.run(r).await {
                        Ok(Some(Out::Recv(Ok(m)))) => {
                            if m != reply {
                                fail!(f, "C07/req/reply-envelope", "reply [empty]+{:?} was returned as {:?}", c.reply, lens(&m));
                            }
                        }
                        other => fail!(f, "C07/req/reply-not-returned", "{:?}", other.map(|o| o.map(|o| o.err_text().map(|s| s.to_string())))),
                    }
                }
                Mode::RawToLibRep => {
                    let s = sim.socket(Kind::Rep, None);
                    let link = sim.link();
                    let prefix = prefix_frames(&c.prefix, c.seed);
                    link.raw_handshake(if prefix.is_empty() { "REQ" } else { "DEALER" }, None);
                    let a = sim.attach(s, &link);
                    let _ = sim.run(a).await;
                    // a second, idle connection: the reply must not go there
                    let other = sim.link();
                    other.raw_handshake("REQ", None);
                    let a2 = sim.attach(s, &other);
                    let _ = sim.run(a2).await;
                    let mut wire = prefix.clone();
                    wire.push(vec![]);
                    wire.extend(payload.clone());
                    link.raw_send_now(&wire);
                    let r = sim.recv(s);
                    match sim.run(r).await {
                        Ok(Some(Out::Recv(Ok(m)))) => {
                            if m != payload {
                                fail!(
                                    f,
                                    "C07/rep/request-stripping",
                                    "request {:?} + [empty] + {:?}: REP handed the application {:?} (expected exactly the frames after the first empty delimiter)",
                                    c.prefix,
                                    c.payload,
                                    lens(&m)
                                );
                            }
                        }
                        other => {
                            fail!(f, "C07/rep/request-not-returned", "{:?}", other.map(|o| o.map(|o| o.err_text().map(|s| s.to_string()))));
                            return f;
                        }
                    }
                    let a = sim.send(s, &reply);
                    match sim.run(a).await {
                        Ok(Some(Out::Send(Ok(())))) => {}
                        other => fail!(f, "C07/rep/reply-failed", "{:?}", other),
                    }
                    let mut want = prefix.clone();
                    want.push(vec![]);
                    want.extend(reply.clone());
                    match link.lib_messages() {
                        Ok(m) => {
                            if m != vec![want.clone()] {
                                fail!(
                                    f,
                                    "C07/rep/reply-envelope",
                                    "reply {:?} to a request with prefix {:?}: on the wire {:?}, expected prefix + [empty] + reply = {:?}",
                                    c.reply,
                                    c.prefix,
                                    m.iter().map(lens).collect::<Vec<_>>(),
                                    lens(&want)
                                );
                            }
                        }
                        Err(e) => fail!(f, "C07/rep/wire-malformed", "{}", e),
                    }
                    if other.lib_messages().map(|m| m.len()).unwrap_or(1) != 0 {
                        fail!(f, "C07/rep/reply-on-wrong-connection", "the idle connection received bytes");
                    }
                }
                Mode::Chain => {
                    // REQ(id p0) -> R1 | D1(id p1) -> R2 | D2(id p2) -> ... -> REP
                    let ids = prefix_frames(&c.prefix, c.seed);
                    let hops = ids.len().max(1);
                    let rq = sim.socket(Kind::Req, ids.first().map(|v| v.as_slice()));
                    let rp = sim.socket(Kind::Rep, None);
                    let mut routers = vec![];
                    let mut dealers = vec![];
                    for h in 0..hops {
                        routers.push(sim.socket(Kind::Router, None));
                        // dealer h announces identity ids[h+1] towards router h+1
                        dealers.push(sim.socket(Kind::Dealer, ids.get(h + 1).map(|v| v.as_slice())));
                    }
                    let mut atts = vec![];
                    let (x, y, _, _) = sim.connect_libs(rq, routers[0], true);
                    atts.push(x);
                    atts.push(y);
                    for h in 0..hops {
                        let next = if h + 1 < hops { routers[h + 1] } else { rp };
                        let (x, y, _, _) = sim.connect_libs(dealers[h], next, true);
                        atts.push(x);
                        atts.push(y);
                    }
                    let _ = sim.settle().await;
                    for a in &atts {
                        if !matches!(sim.out(*a), Some(Out::Attach(Ok(_)))) {
                            fail!(f, "C07/chain/handshake", "a link of the chain (identities {:?}) failed its handshake: {:?}", c.prefix, sim.out(*a));
                            return f;
                        }
                    }
                    // the identities each router prepends on the way in: ids[h] if announced,
                    // otherwise whatever the router generated (learnt from the first request)
                    for round in 0..2 {
                        let a = sim.send(rq, &payload);
                        if !matches!(sim.run(a).await, Ok(Some(Out::Send(Ok(()))))) {
                            fail!(f, "C07/chain/send-failed", "round {}", round);
                            return f;
                        }
                        let mut want_in: Frames = vec![vec![]];
                        want_in.extend(payload.clone());
                        for h in 0..hops {
                            let r = sim.recv(routers[h]);
                            let m = match sim.run(r).await {
                                Ok(Some(Out::Recv(Ok(m)))) => m,
                                other => {
                                    fail!(f, "C07/chain/request-lost", "round {} hop {}: ROUTER recv: {:?}", round, h, other.map(|o| o.map(|o| format!("{:?}", o).chars().take(120).collect::<String>())));
                                    return f;
                                }
                            };
                            let id_ok = match ids.get(h) {
                                Some(id) => m.first() == Some(id),
                                None => m.first().map(|x| !x.is_empty()).unwrap_or(false),
                            };
                            if !id_ok || m.len() != want_in.len() + 1 || m[1..] != want_in[..] {
                                fail!(f, "C07/chain/request-envelope", "round {} hop {}: ROUTER handed over frames {:?}, expected the sender's identity followed by {:?}", round, h, lens(&m), lens(&want_in));
                                return f;
                            }
                            want_in = m.clone();
                            let a = sim.send(dealers[h], &m);
                            if !matches!(sim.run(a).await, Ok(Some(Out::Send(Ok(()))))) {
                                fail!(f, "C07/chain/relay-failed", "round {} hop {} inbound", round, h);
                                return f;
                            }
                        }
                        let r = sim.recv(rp);
                        match sim.run(r).await {
                            Ok(Some(Out::Recv(Ok(m)))) if m == payload => {}
                            other => {
                                fail!(f, "C07/chain/request-modified", "round {}: REP received {:?} for payload {:?} behind prefix {:?}", round, other.map(|o| o.map(|o| format!("{:?}", o).chars().take(120).collect::<String>())), c.payload, c.prefix);
                                return f;
                            }
                        }
                        let a = sim.send(rp, &reply);
                        if !matches!(sim.run(a).await, Ok(Some(Out::Send(Ok(()))))) {
                            fail!(f, "C07/chain/reply-failed", "round {}", round);
                            return f;
                        }
                        // back: dealer h receives, router h sends
                        let mut want_back = want_in[..hops + 1].to_vec();
                        want_back.extend(reply.clone());
                        for h in (0..hops).rev() {
                            let r = sim.recv(dealers[h]);
                            let m = match sim.run(r).await {
                                Ok(Some(Out::Recv(Ok(m)))) => m,
                                other => {
                                    fail!(f, "C07/chain/reply-lost", "round {} hop {}: DEALER recv: {:?}", round, h, other.map(|o| o.map(|o| format!("{:?}", o).chars().take(120).collect::<String>())));
                                    return f;
                                }
                            };
                            if m != want_back {
                                fail!(f, "C07/chain/reply-envelope", "round {} hop {}: the reply arrived as {:?}, expected {:?} (the request's route, the delimiter, the reply)", round, h, lens(&m), lens(&want_back));
                                return f;
                            }
                            let a = sim.send(routers[h], &m);
                            match sim.run(a).await {
                                Ok(Some(Out::Send(Ok(())))) => {}
                                other => {
                                    fail!(f, "C07/chain/reply-not-routed", "round {} hop {}: ROUTER send towards a connected peer with a {}-byte identity: {:?}", round, h, m[0].len(), other.map(|o| o.map(|o| format!("{:?}", o).chars().take(120).collect::<String>())));
                                    return f;
                                }
                            }
                            want_back.remove(0);
                        }
                        let r = sim.recv(rq);
                        match sim.run(r).await {
                            Ok(Some(Out::Recv(Ok(m)))) if m == reply => {}
                            other => {
                                fail!(f, "C07/chain/reply-modified", "round {}: REQ received {:?} for reply {:?}", round, other.map(|o| o.map(|o| format!("{:?}", o).chars().take(120).collect::<String>())), c.reply);
                                return f;
                            }
                        }
                    }
                }
                Mode::EndToEnd => {
                    let rq = sim.socket(Kind::Req, None);
                    let rp = sim.socket(Kind::Rep, None);
                    let (x, y, _ab, _ba) = sim.connect_libs(rq, rp, true);
                    let _ = sim.settle().await;
                    if !matches!(sim.out(x), Some(Out::Attach(Ok(_)))) || !matches!(sim.out(y), Some(Out::Attach(Ok(_)))) {
                        fail!(f, "C07/e2e/handshake", "REQ<->REP handshake failed: {:?} {:?}", sim.out(x), sim.out(y));
                        return f;
                    }
                    for round in 0..2 {
                        let a = sim.send(rq, &payload);
                        if !matches!(sim.run(a).await, Ok(Some(Out::Send(Ok(()))))) {
                            fail!(f, "C07/e2e/send-failed", "round {}", round);
                            return f;
                        }
                        let r = sim.recv(rp);
                        match sim.run(r).await {
                            Ok(Some(Out::Recv(Ok(m)))) if m == payload => {}
                            other => {
                                fail!(f, "C07/e2e/request-modified", "round {}: REP received {:?} for payload {:?}", round, other.map(|o| o.map(|o| format!("{:?}", o).chars().take(120).collect::<String>())), c.payload);
                                return f;
                            }
                        }
                        let a = sim.send(rp, &reply);
                        if !matches!(sim.run(a).await, Ok(Some(Out::Send(Ok(()))))) {
                            fail!(f, "C07/e2e/reply-failed", "round {}", round);
                            return f;
                        }
                        let r = sim.recv(rq);
                        match sim.run(r).await {
                            Ok(Some(Out::Recv(Ok(m)))) if m == reply => {}
                            other => {
                                fail!(f, "C07/e2e/reply-modified", "round {}: REQ received {:?} for reply {:?}", round, other.map(|o| o.map(|o| format!("{:?}", o).chars().take(120).collect::<String>())), c.reply);
                                return f;
                            }
                        }
                    }
                }
            }
            f
        })
    });
    if let Some(f) = r {
        o.failures = f;
    }
    for p in panics {
        o.fail(format!("C07/panic/{}", panic_sig(&p)), p);
    }
    o
}

// --------------------------------------------------------------------------------------------
// degenerate envelopes

#[derive(Debug, Clone, Serialize, Deserialize, PartialEq, Eq, Hash)]
pub struct DegenCase {
    /// true: a request arriving at a library REP; false: a reply arriving at a library REQ
    pub at_rep: bool,
    /// the message on the wire: frame lengths (0 = empty frame)
    pub wire: Vec<usize>,
}

fn degen_outcome(c: &DegenCase) -> Outcome {
    let mut o = Outcome::new(hash_of(c));
    o.nontrivial = true;
    let c2 = c.clone();
    let first_empty = c.wire.iter().position(|l| *l == 0);
    // what the statement demands
    #[derive(PartialEq, Debug)]
    enum Want {
        /// rejected or dropped: Err, or nothing delivered
        RejectOrDrop,
        /// exactly these frames (indices into wire)
        Frames(usize),
        /// outside the statement: only "no panic, no zero-frame message"
        Unspecified,
    }
    let want = if c.at_rep {
        match first_empty {
            Some(i) if i + 1 == c.wire.len() => Want::RejectOrDrop, // nothing after the delimiter
            Some(i) => Want::Frames(i + 1),
            None => {
                if c.wire.len() == 1 {
                    Want::RejectOrDrop
                } else {
                    Want::Unspecified
                }
            }
        }
    } else {
        // REQ: reply must start with the delimiter and have something after it
        if c.wire[0] == 0 && c.wire.len() >= 2 {
            Want::Frames(1)
        } else {
            Want::RejectOrDrop
        }
    };
    o.class(format!("{:?}", want).split('(').next().unwrap().to_string());
    let (r, panics) = capture_panics(|| {
        run_sim(async move {
            let c = c2;
            let mut f = vec![];
            let wire = frames(&c.wire, 77);
            let mut sim = Sim::new();
            let kind = if c.at_rep { Kind::Rep } else { Kind::Req };
            let s = sim.socket(kind, None);
            let link = sim.link();
            link.raw_handshake(if c.at_rep { "DEALER" } else { "REP" }, None);
            let a = sim.attach(s, &link);
            let _ = sim.run(a).await;
            if !c.at_rep {
                let a = sim.send(s, &[b"q".to_vec()]);
                let _ = sim.run(a).await;
            }
            link.raw_send_now(&wire);
            let r = sim.recv(s);
            let res = sim.run(r).await;
            let who = if c.at_rep { "rep" } else { "req" };
            match res {
                Ok(Some(Out::Recv(Ok(m)))) => {
                    if m.is_empty() {
                        fail!(f, format!("C07/{}/zero-frame-message", who), "wire message with frame lengths {:?} was handed to the application as a message with zero frames", c.wire);
                    }
                    match want {
                        Want::Frames(from) => {
                            if m != wire[from..].to_vec() {
                                fail!(f, format!("C07/{}/degenerate-stripping", who), "wire {:?}: application got {:?}, expected the frames after the first delimiter", c.wire, lens(&m));
                            }
                        }
                        Want::RejectOrDrop => {
                            if !m.is_empty() {
                                fail!(f, format!("C07/{}/accepts-malformed-envelope", who), "wire {:?} must be rejected or dropped, application got {:?}", c.wire, lens(&m));
                            }
                        }
                        Want::Unspecified => {}
                    }
                }
                Ok(Some(Out::Recv(Err(_)))) | Ok(None) => {
                    if let Want::Frames(_) = want {
                        fail!(f, format!("C07/{}/rejects-valid-envelope", who), "wire {:?} is a valid envelope but recv did not return it: {:?}", c.wire, res.as_ref().map(|o| o.as_ref().map(|o| o.err_text().map(|s| s.to_string()))));
                    }
                }
                other => fail!(f, format!("C07/{}/spin", who), "{:?}", other),
            }
            f
        })
    });
    if let Some(f) = r {
        o.failures = f;
    }
    for p in panics {
        o.fail(format!("C07/panic/{}", panic_sig(&p)), format!("wire {:?}: {}", c.wire, p));
    }
    o
}

// --------------------------------------------------------------------------------------------
// series of requests at one library REP: several connections, changing routing prefixes, some
// requests never answered. The reply must carry the envelope of THE REQUEST BEING ANSWERED.

#[derive(Debug, Clone, Serialize, Deserialize, PartialEq, Eq, Hash)]
pub struct SeriesReq {
    pub conn: usize,
    pub prefix: Vec<usize>,
    pub payload: Vec<usize>,
    /// the application replies; otherwise it just goes back to recv
    pub answered: bool,
}

#[derive(Debug, Clone, Serialize, Deserialize, PartialEq, Eq, Hash)]
pub struct SeriesCase {
    pub conns: usize,
    pub reqs: Vec<SeriesReq>,
    pub seed: u32,
}

pub fn series_outcome(c: &SeriesCase) -> Outcome {
    let mut o = Outcome::new(hash_of(c));
    let unanswered = c.reqs.iter().any(|r| !r.answered);
    let prefixes: std::collections::HashSet<&Vec<usize>> = c.reqs.iter().map(|r| &r.prefix).collect();
    o.nontrivial = c.reqs.len() >= 2 && (unanswered || prefixes.len() >= 2);
    if unanswered {
        o.class("series-with-unanswered-request");
    }
    if prefixes.len() >= 2 {
        o.class("series-with-changing-prefix");
    }
    let c2 = c.clone();
    let (r, panics) = capture_panics(|| {
        run_sim(async move {
            let c = c2;
            let mut f = vec![];
            let mut sim = Sim::new();
            let s = sim.socket(Kind::Rep, None);
            let n = c.conns.clamp(1, 4);
            let mut links = vec![];
            for _ in 0..n {
                let l = sim.link();
                l.raw_handshake("DEALER", None);
                let a = sim.attach(s, &l);
                let _ = sim.run(a).await;
                links.push(l);
            }
            let mut want: Vec<Vec<Frames>> = vec![vec![]; n];
            for (k, rq) in c.reqs.iter().enumerate() {
                let j = rq.conn % n;
                let seed = c.seed.wrapping_add(k as u32 * 131);
                let prefix = prefix_frames(&rq.prefix, seed);
                let payload = frames(&rq.payload, seed);
                let reply = frames(&[3, 0, 1], seed ^ 0x5555);
                let mut wire = prefix.clone();
                wire.push(vec![]);
                wire.extend(payload.clone());
                links[j].raw_send_now(&wire);
                let r = sim.recv(s);
                match sim.run(r).await {
                    Ok(Some(Out::Recv(Ok(m)))) => {
                        if m != payload {
                            fail!(f, "C07/rep/request-stripping", "request #{} ({:?} + [empty] + {:?}): REP handed the application {:?}", k, rq.prefix, rq.payload, lens(&m));
                        }
                    }
                    other => {
                        fail!(f, "C07/rep/request-not-returned", "request #{}: {:?}", k, other.map(|o| o.map(|o| o.err_text().map(|s| s.to_string()))));
                        return f;
                    }
                }
                if rq.answered {
                    let a = sim.send(s, &reply);
                    match sim.run(a).await {
                        Ok(Some(Out::Send(Ok(())))) => {}
                        other => fail!(f, "C07/rep/reply-failed", "request #{}: {:?}", k, other),
                    }
                    let mut w = prefix.clone();
                    w.push(vec![]);
                    w.extend(reply.clone());
                    want[j].push(w);
                }
                // after every step each connection carries exactly the replies to ITS answered
                // requests, each behind the envelope of the request it answers
                for (i, l) in links.iter().enumerate() {
                    match l.lib_messages() {
                        Ok(m) if m == want[i] => {}
                        Ok(m) => {
                            fail!(
                                f,
                                "C07/rep/reply-envelope-in-series",
                                "after request #{} (connection {}, prefix {:?}, {}): connection {} carries {:?}, expected {:?}; earlier requests: {:?}",
                                k,
                                j,
                                rq.prefix,
                                if rq.answered { "answered" } else { "not answered" },
                                i,
                                m.iter().map(lens).collect::<Vec<_>>(),
                                want[i].iter().map(lens).collect::<Vec<_>>(),
                                c.reqs[..k].iter().map(|r| (r.conn % n, r.prefix.clone(), r.answered)).collect::<Vec<_>>()
                            );
                            return f;
                        }
                        Err(e) => {
                            fail!(f, "C07/rep/wire-malformed", "connection {}: {}", i, e);
                            return f;
                        }
                    }
                }
            }
            f
        })
    });
    if let Some(f) = r {
        o.failures = f;
    }
    for p in panics {
        o.fail(format!("C07/panic/{}", panic_sig(&p)), p);
    }
    o
}

pub fn shapes(max_large: usize) -> Vec<Vec<usize>> {
    let mut v: Vec<Vec<usize>> = vec![];
    for n in 1..=4usize {
        let total = SIZES.len().pow(n as u32);
        for mut code in 0..total {
            let mut s = vec![];
            for _ in 0..n {
                s.push(SIZES[code % SIZES.len()]);
                code /= SIZES.len();
            }
            if s.iter().filter(|l| **l >= 70_000).count() <= max_large {
                v.push(s);
            }
        }
    }
    v
}

pub fn run(ctx: &Ctx) -> (Report, PropertyMeta) {
    let mut report = Report::default();
    let t = ctx.tier;
    let sh = shapes(t.pick(1, 4));
    let mut cases = vec![];
    for (i, p) in sh.iter().enumerate() {
        // the reply shape walks through the same catalogue, offset
        let reply = sh[(i * 7 + 3) % sh.len()].clone();
        for prefix in PREFIXES {
            cases.push(EnvCase {
                mode: Mode::RawToLibRep,
                payload: p.clone(),
                reply: reply.clone(),
                prefix: prefix.to_vec(),
                seed: i as u32,
                stale: 0,
            });
        }
        cases.push(EnvCase {
            mode: Mode::LibReqRawRep,
            payload: p.clone(),
            reply: reply.clone(),
            prefix: vec![],
            seed: i as u32,
            stale: 0,
        });
        cases.push(EnvCase {
            mode: Mode::EndToEnd,
            payload: p.clone(),
            reply,
            prefix: vec![],
            seed: i as u32,
            stale: 0,
        });
    }
    // ROUTER-DEALER chains: announced identities of every boundary length, 1..3 hops
    for (i, p) in sh.iter().enumerate().filter(|(i, _)| i % 5 == 0) {
        for prefix in [&[][..], &[1], &[255], &[254], &[5, 255], &[255, 1], &[1, 5, 255], &[255, 255, 255]] {
            cases.push(EnvCase {
                mode: Mode::Chain,
                payload: p.clone(),
                reply: sh[(i * 7 + 3) % sh.len()].clone(),
                prefix: prefix.to_vec(),
                seed: i as u32,
                stale: 0,
            });
        }
    }
    // the same exchange after 1..3 earlier peers of the REQ have failed (stale rotation entries)
    for (i, p) in sh.iter().enumerate().filter(|(i, _)| i % 7 == 0) {
        for stale in 1..=3usize {
            cases.push(EnvCase {
                mode: Mode::LibReqRawRep,
                payload: p.clone(),
                reply: sh[(i * 3 + 1) % sh.len()].clone(),
                prefix: vec![],
                seed: i as u32,
                stale,
            });
        }
    }
    let r = run_cases(ctx, "envelope", &cases, env_outcome);
    report.exhaustive_parts.push(format!(
        "all payload shapes of 1..4 frames over sizes {:?} ({} shapes{}) x {{4 routing prefixes into a library REP, library REQ to a raw REP, library REQ <-> library REP}}: {} cases",
        SIZES,
        sh.len(),
        if t == Tier::Quick { ", at most one 70000-byte frame per message" } else { "" },
        cases.len()
    ));
    report.merge(r);

    // degenerate envelopes: every wire shape of 1..4 frames over {empty, 3 bytes}
    let mut dc = vec![];
    for n in 1..=4usize {
        for code in 0..(1usize << n) {
            let wire: Vec<usize> = (0..n).map(|i| if (code >> i) & 1 == 1 { 3 } else { 0 }).collect();
            dc.push(DegenCase { at_rep: true, wire: wire.clone() });
            dc.push(DegenCase { at_rep: false, wire });
        }
    }
    let r = run_cases(ctx, "degenerate", &dc, degen_outcome);
    report.exhaustive_parts.push(format!("every wire message of 1..4 frames over {{empty, non-empty}} arriving at a library REP and at a library REQ awaiting a reply: {} cases", dc.len()));
    report.merge(r);

    // series at one REP: every (prefix, answered?) x (prefix, answered?) pair on the same and on
    // another connection, followed by an answered request with each prefix
    let mut sc = vec![];
    for p1 in PREFIXES {
        for a1 in [true, false] {
            for p2 in PREFIXES {
                for a2 in [true, false] {
                    for same in [true, false] {
                        for p3 in PREFIXES {
                            sc.push(SeriesCase {
                                conns: 2,
                                reqs: vec![
                                    SeriesReq { conn: 0, prefix: p1.to_vec(), payload: vec![2], answered: a1 },
                                    SeriesReq { conn: if same { 0 } else { 1 }, prefix: p2.to_vec(), payload: vec![0, 3], answered: a2 },
                                    SeriesReq { conn: 0, prefix: p3.to_vec(), payload: vec![1], answered: true },
                                ],
                                seed: sc.len() as u32,
                            });
                        }
                    }
                }
            }
        }
    }
    // a long series: 80 requests, prefixes and answering pattern cycling
    sc.push(SeriesCase {
        conns: 3,
        reqs: (0..80).map(|i| SeriesReq { conn: i % 3, prefix: PREFIXES[(i / 2) % 4].to_vec(), payload: vec![i % 3, 2], answered: i % 5 != 3 }).collect(),
        seed: 4242,
    });
    let r = run_cases(ctx, "series", &sc, series_outcome);
    report.exhaustive_parts.push(format!("series of 3 requests at one library REP over 4 prefixes x answered/unanswered x same/other connection: {} cases", sc.len()));
    report.merge(r);
    let n = t.pick(6_000, 150_000);
    let r = run_random(
        ctx,
        "series",
        n,
        20..=80,
        |s| {
            let conns = s.range(1, 3);
            let k = s.range(2, 8);
            let reqs = (0..k)
                .map(|_| {
                    let pk = s.range(0, 3);
                    SeriesReq {
                        conn: s.below(conns),
                        prefix: (0..pk).map(|_| s.pick(&[1usize, 5, 16, 255])).collect(),
                        payload: (0..s.range(1, 3)).map(|_| s.pick(&[0usize, 0, 1, 7, 300])).collect(),
                        answered: s.chance(2, 3),
                    }
                })
                .collect();
            SeriesCase { conns, reqs, seed: s.next() as u32 }
        },
        series_outcome,
    );
    report.sections.push(json!({"part": "random series of 2..8 requests at one library REP over 1..3 connections with changing prefixes, a third of them never answered", "cases": n}));
    report.merge(r);

    // random shapes
    let n = t.pick(20_000, 400_000);
    let r = run_random(
        ctx,
        "envelope",
        n,
        16..=40,
        |s| {
            let mode = s.pick(&[Mode::RawToLibRep, Mode::RawToLibRep, Mode::LibReqRawRep, Mode::EndToEnd, Mode::Chain]);
            let gl = |s: &mut Src<'_>| -> Vec<usize> {
                let n = s.range(1, 6);
                (0..n)
                    .map(|_| match s.weighted(&[3, 3, 2, 1]) {
                        0 => 0,
                        1 => s.range(1, 40),
                        2 => s.pick(&[254usize, 255, 256, 257]),
                        _ => s.range(258, 100_000),
                    })
                    .collect()
            };
            let payload = gl(s);
            let reply = gl(s);
            let prefix = if mode == Mode::RawToLibRep {
                let k = s.range(0, 3);
                (0..k).map(|_| s.pick(&[1usize, 5, 16, 255])).collect()
            } else if mode == Mode::Chain {
                let k = s.range(0, 3);
                (0..k).map(|_| s.pick(&[1usize, 2, 16, 254, 255])).collect()
            } else {
                vec![]
            };
            EnvCase {
                mode,
                payload,
                reply,
                prefix,
                seed: s.next() as u32,
                stale: if mode == Mode::LibReqRawRep && s.chance(1, 3) { s.range(1, 3) } else { 0 },
            }
        },
        env_outcome,
    );
    report.sections.push(json!({"part": "random payload / reply / prefix shapes", "cases": n}));
    report.merge(r);

    let total = report.evaluations;
    health(&mut report, "empty-frame-in-payload", total, 200);
    health(&mut report, "routing-prefix", total, 200);
    health_abs(&mut report, "chain-with-255-byte-identity", 100);
    health_abs(&mut report, "router-dealer-chain-3-hops", 100);
    health_abs(&mut report, "series-with-unanswered-request", 500);
    health_abs(&mut report, "series-with-changing-prefix", 500);

    let _ = refcodec::hex;
    let meta = PropertyMeta {
        level: "exploration",
        rule: "exhaustive payload shapes (1..4 frames, each empty / 1 / 255 / 256 / 70000 bytes) crossed with routing prefixes of 0..3 identity frames, for requests arriving at a library REP from raw REQ / DEALER peers, requests leaving a library REQ towards a raw REP, library REQ <-> library REP end to end, and library REQ -> 1..3 hops of (library ROUTER, relay, library DEALER) -> library REP where the routing prefix consists of the identities (1..255 bytes) the sockets announce and the reply must retrace the route hop by hop; all degenerate wire envelopes of 1..4 frames; series of 2..8 requests at one library REP over 1..3 connections with changing routing prefixes where some requests are never answered (the reply must carry the envelope of the request being answered, on its connection); proptest random shapes. Oracle (wire level, reference-decoded taps): REQ puts exactly [empty]+payload on the wire and returns a reply with exactly the delimiter removed; REP hands over exactly the frames after the first empty frame and sends prefix+[empty]+reply on the requesting connection only; degenerate envelopes are rejected or dropped and never surface as a zero-frame message. Non-trivial = payload has >= 2 frames or an empty frame, or a routing prefix is present (degenerate cases: all); distinct by shape tuple".into(),
        assumptions: vec!["requests with no empty frame at all are outside the statement: only 'no panic, no zero-frame message' is asserted for them".into()],
        exhaustive: false,
    };
    (report, meta)
}

pub fn replay(_ctx: &Ctx, kind: &str, case: &Value) -> Vec<Failure> {
    match kind {
        "envelope" => parse_case::<EnvCase>(case).map(|c| env_outcome(&c).failures),
        "degenerate" => parse_case::<DegenCase>(case).map(|c| degen_outcome(&c).failures),
        "series" => parse_case::<SeriesCase>(case).map(|c| series_outcome(&c).failures),
        _ => Err(vec![Failure::new("replay/unknown-kind", kind.to_string())]),
    }
    .unwrap_or_else(|e| e)
}
