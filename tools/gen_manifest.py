#!/usr/bin/env python3
"""Regenerates /verif/MANIFEST.json from the table below (keeps the file valid at all times)."""
import json, os, subprocess

HERE = os.path.dirname(os.path.dirname(os.path.abspath(__file__)))

def hook_commits():
    try:
        out = subprocess.check_output(["git", "-C", "/repo", "log", "--format=%H %s"], text=True)
        return [l.split()[0] for l in out.splitlines() if "verif hooks" in l]
    except Exception:
        return []

# id -> (category, text, design_ref, note, technique)
CHECKS = {
 "C01": ("exploration",
         "Exhaustive boundary-length grid (1..3 frames) plus proptest-generated messages up to MiB sizes, compared byte-for-byte with an independent RFC-23 encoder/decoder and round-tripped through the library decoder; greeting/READY captured from the wire of all 9 real socket types. Held on everything explored; not a proof for all lengths. Socket-level sends go through PUSH/DEALER/PUB/XPUB and also REQ (exactly one delimiter, also after earlier peers failed), ROUTER (minus the identity frame) and REP. The request a REP reply follows may contain empty frames inside its payload. Every message is also decoded through the library\'s real framed reader in 8 KiB reads (a multi-MiB frame is seen incomplete hundreds of times).",
         "DESIGN.md §3 C01",
         "Trusts the harness reference codec (harness/src/refcodec.rs) as a faithful transcription of RFC 23.",
         "property-based testing (proptest) + exhaustive boundary grid, differential against a reference codec"),
 "C02": ("exploration",
         "Metamorphic + differential: the library's real framed reader is driven over reference-encoded item sequences under ALL partitions of short streams, every cut / pair of cuts of medium streams and random partitions of long ones; items, end-of-stream kind and decoder state must equal the one-read run and an independent reference parse. Socket level: data sharing a segment with the end of the handshake must be the first recv for 7 socket types. Streams include messages of up to 400 frames and runs of up to 150 items (many decode steps per read); the socket-level check covers 8 socket types including PUB (a SUBSCRIBE glued to READY must be in force). Messages with frames of 2^20 - 1 / 2^20 / 2^20 + 1 bytes and 3 MiB (incomplete for hundreds of 8 KiB reads) are enumerated under six partitions.",
         "DESIGN.md §3 C02",
         "Trusts the reference parser; reads are capped at the framed reader's own 8 KiB buffer; exhaustive only for the stated stream lengths.",
         "property-based testing (proptest) + exhaustive partition enumeration; metamorphic (segmentation-invariance) and differential oracles"),
 "C03": ("fault_enumeration",
         "Hostile byte streams (exhaustive small alphabets, a catalogue of malformed greetings/commands/huge declared sizes/frame floods, proptest structure-aware mutations, random bytes) are fed to the real framed reader on small-stack threads under a counting allocator, and at every handshake stage of all 9 socket types and through proxy(); a supervising parent process turns aborts, stack overflows and allocation bombs into replayable violations. Held on everything explored. After hostile input every send-capable socket type also SENDS (what a peer sent may only blow up inside the application\'s own calls), the connection established before the hostile one must still work, and floods of valid commands are fed at every socket stage. On real TCP and IPC endpoints a hostile or truncated handshake left open must not keep an established peer from exchanging nor new peers from connecting. Well-formed READYs announcing each of the 12 RFC socket types (also PAIR / XSUB / STREAM, which the crate never announces) are among the hostile parts at every stage.",
         "DESIGN.md §3 C03, §2.6",
         "Stack and memory bounds are sensitivity choices stated in the evidence; only inputs the generators reach are covered.",
         "fuzzing / fault enumeration with crash isolation: exhaustive small alphabets + structure-aware mutation (proptest), oracles: no panic/abort, heap growth proportional to bytes received"),
 "C19": ("exploration",
         "Exhaustive enumeration of every string up to length 5 (thorough: 6) over a 15-symbol alphabet after tcp:// and ipc://, a cross product of address/port forms, and proptest grammar-based and Unicode strings, compared with an independent three-valued reference parser (must-accept with value / must-reject / unspecified) plus parse-format-parse equality.",
         "DESIGN.md §3 C19",
         "Strings with a newline and borderline address literals are treated as unspecified; the reference parser is the harness's reading of the statement.",
         "property-based testing (proptest) + exhaustive small-alphabet enumeration, differential against a reference parser, round-trip law"),
 "C05": ("exploration",
         "Queue level: ALL valid schedule strings to depth 8 (2 streams) / 7 (3 streams) plus proptest strings for up to 6 streams drive the library's real fair queue, with tokens that execute inside the window where the queue has released its lock; history invariant per stream. Socket level: real PULL/SUB/DEALER/ROUTER/REP/XPUB sockets with 1..4 scripted raw peers, generated byte delivery, attach-while-receiving and cuts at arbitrary byte positions; per-peer exact-sequence oracle against a reference decode of the wire. Schedule tokens include Migrate (receiver moved to another task) and Replace (a new stream under a still-registered key, also inside the poll window); every recv error must be accounted for by a connection that ended. Socket-level peers of every kind announce an Identity in a quarter of the cases, a third of those empty (several such peers must each keep their own registration). XPUB peers also send multi-frame messages.",
         "DESIGN.md §3 C05, §2.4",
         "Interleavings are explored at await granularity and at the explicit lock-released window of the fair queue; true multi-core races inside synchronous sections are out of reach (DESIGN §8).",
         "property-based testing (proptest) + exhaustive schedule-string enumeration against the real fair queue; history-invariant / reference-model oracle"),
 "C06": ("exploration",
         "The same schedule strings, judged by an executor-mode liveness oracle (the receiver is re-polled only if its waker fired; when parked with no wake pending no connected stream may hold an item) and a bounded-bypass fairness oracle (<= 2n deliveries from others while a stream is ready; bursts make monopolising orders exceed it). Exhaustive to depth 8/7, proptest beyond. Bounded liveness only. Tokens Exhaust (streams yield), Migrate and Replace are part of the alphabet (exhaustive depth 7/6 quick, 9/7 thorough); the bypass bound is also observed through real sockets in the simulation with backlogs of up to 60 messages.",
         "DESIGN.md §3 C06, §2.4",
         "Liveness is decided as bounded liveness under a harness-owned executor; 'eventually' under an arbitrary OS scheduler is not claimed.",
         "exhaustive schedule-string enumeration + proptest against the real fair queue; executor-model liveness oracle and bounded-bypass fairness oracle"),
 "C04": ("exploration",
         "The full 226,800-cell grid of scripted raw peers (local type x announced Socket-Type x version x mechanism x signature x identity x first item incl. a READY with garbage after an intact Socket-Type property) attached to real sockets through the real greeting/READY exchange, all 144 SocketType::compatible queries, and proptest decoration; judged by an independent RFC-23 admission predicate, behavioural 'registered exactly once' checks per socket type, and 'rejected means closed, silent and never routed to'. The stated grid is enumerated exhaustively; everything beyond it is sampled. Every one-coordinate deviation from the valid cell is also run over the REAL accept path (bound TCP/IPC socket with a monitor: exactly one Accepted / AcceptFailed, refused connection closed) and over the connect path against a raw listener. A quarter of the real accept-path cells run while another raw client is mid-handshake on the same endpoint. Adaptive peers observe the identities generated for anonymous peers and announce the ones a predictable generator would hand out next (big- / little-endian successors, extrapolated difference, libzmq\'s 00||be32(n)); anonymous peers admitted afterwards must still get identities nobody holds.",
         "DESIGN.md §3 C04",
         "Trusts the RFC compatibility table typed into the harness; PLAIN/CURVE count as known mechanisms as the statement says.",
         "exhaustive configuration grid + proptest, reference admission predicate, behavioural registration oracle"),
 "C07": ("exploration",
         "All 780 payload shapes (1..4 frames over {0,1,255,256,70000} bytes) x 4 routing prefixes into a library REP, out of a library REQ and end-to-end, every degenerate wire envelope of 1..4 frames, and proptest shapes; wire-level oracle on reference-decoded taps (exact delimiter/prefix placement, reply on the requesting connection only, never a zero-frame message). Also request series at one REP (changing prefixes, unanswered requests, up to 80 requests). Also real ROUTER-DEALER chains: library REQ -> 1..3 hops of (library ROUTER, relay, library DEALER) -> library REP with announced identities of 1..255 bytes; the reply must retrace the route hop by hop.",
         "DESIGN.md §3 C07", "Requests with no empty frame at all are outside the statement.",
         "exhaustive shape enumeration + proptest, wire-tap oracle against the envelope rules"),
 "C08": ("exploration",
         "All call sequences over {send, recv} up to length 6 (thorough: 9) on REQ and REP with 0..2 peers in lock-step with a reference state machine (refusal hands the message back, writes nothing, leaves the state), plus proptest histories of 1..5 concurrent requesters (library REQ sockets or raw peers) against one echoing REP under generated scheduling, segmentation and partial writes. REQ sequences also run with sends hitting a dying connection and with in-turn recvs abandoned before the reply arrives; some clients announce an empty Identity; two 120-exchange runs. A client with an announced identity may restart on a fresh connection: every reply must appear on the connection its request came from and nowhere else.",
         "DESIGN.md §3 C08", "Interleavings at await granularity.",
         "exhaustive call-sequence enumeration against a reference state machine + stateful proptest with a harness-owned scheduler"),
 "C09": ("exploration",
         "Proptest histories on a real ROUTER with 1..5 peers (raw DEALER/REQ/ROUTER with announced or assigned identities, library DEALER/REQ using the identity option), interleaved peer sends, partial deliveries, recvs, routed sends to live / unknown / oversized / empty / departed targets; inbound prefix must be the true connection's identity, outbound exactly the target's wire grows or nothing does. Peers may announce an empty identity, come back under a fixed identity before their departure was observed, and every history ends with a completeness drain. Peers whose departure only a failing write can reveal: every send addressed to them must return. Adaptive peers announce the big-endian successors of the identity the ROUTER generated last and are followed by anonymous peers: generated identities must stay unique.",
         "DESIGN.md §3 C09", "Unobserved orderly closes are C16's business.",
         "stateful property-based testing (proptest) with wire taps as ground truth"),
 "C10": ("exploration",
         "Proptest histories on PUSH, DEALER and REQ with 0..6 raw peers joining between and during sends, message shapes to 256 KiB, partial-write and stalled-then-released windows; at the step send returns Ok exactly one wire has grown by exactly the encoded message; strict rotation over stable peer sets; joiners served within n sends; no-peer sends hand the message back. Also peers announcing an empty Identity, a 150-send run, and a peer coming back under its identity (idle / ended / already dropped old connection). Departures: after a peer has departed and the sender has seen it (read its end / reset, or met its failing writes) every further send succeeds, reaches exactly one remaining peer in strict rotation, and nothing is written to the departed connection. Abandoned sends: a send blocked by back-pressure is dropped by the caller; afterwards every send succeeds in strict rotation over all peers and every connection carries whole messages only (found and fixed a genuine defect).",
         "DESIGN.md §3 C10", "Rotation asserted at the statement's level (n consecutive sends, n distinct peers), not an exact queue model.",
         "stateful property-based testing (proptest) with back-pressure injection; wire-tap oracle at the instant of return"),
 "C11": ("exploration",
         "ALL per-subscriber histories of length <= 4 (thorough: 5) over 12 subscription tokens for PUB and XPUB, each followed by 7 publishes, and proptest histories for 1..4 subscribers with interleaved publishes; compared at quiescent points with a reference multiset-prefix model; XPUB must hand every subscription message to the application verbatim in per-peer order. The random part adds long and binary topics (255..301 bytes, marker-byte topics) and histories of up to 150 steps. Subscribers announce no / an empty / a 1- or 255-byte identity and may come back on a fresh connection (same identity while the old connection is still registered, or anonymous): the fresh connection starts with no subscriptions. XPUB\'s application is parked in recv while subscription messages arrive and must be woken.",
         "DESIGN.md §3 C11", "Comparison only at quiescent points.",
         "exhaustive history enumeration + proptest against a reference multiset-prefix model"),
 "C12": ("fault_enumeration",
         "PUB/XPUB with subscribers under generated back-pressure (accept k bytes then stall, partial writes, resume, never drain, BrokenPipe) while messages around the 128 KiB high-water mark are published: publish never blocks, healthy subscribers miss nothing, slow subscribers' wires stay well-formed order-preserving subsequences, at most HWM + one message is buffered (wire accounting and counting allocator), broken subscribers do not fail the publish. Publishes include repeated and empty frames; a subscriber with an announced identity coming back on a fresh connection (old one idle, stalled, failing or closing around the come-back) must receive everything published after it subscribed. In a third of the cases everybody subscribes to a non-empty topic and half of the publishes do not match (first frame a proper prefix of the subscription, empty, or unrelated): subscribers receive (a subsequence of) the matching publishes only. Frame sizes include 254 / 255 / 256 bytes. On real TCP and IPC endpoints 1..3 subscribers stalled inside their handshake (the slowest possible subscriber) must not keep other subscribers from joining and receiving every publish. Every other subscriber also holds a second, overlapping subscription and must still get each matching publish exactly once.",
         "DESIGN.md §3 C12", "HWM is asynchronous-codec's default (131072).",
         "fault injection (back-pressure) + proptest; wire-tap and heap-accounting oracles"),
 "C13": ("exploration",
         "Proptest histories of subscribe/unsubscribe on a real SUB interleaved with PUB/XPUB peers joining as separate actors, joiners optionally suspended between the socket's snapshot of its set and their registration, one peer with failing writes; plus a targeted enumeration of join positions. All live peers must agree per topic, agree with the API history where unambiguous, never hold duplicate subscriptions, and one broken peer must not stop the others. Peers with announced identities come back under them (Rejoin); set semantics throughout; a call may only fail when a connection\'s writes fail. Topics include 253 / 254 / 255 / 256 / 70000-byte ones (subscription messages at the short/long frame boundary). A quarter of the initial peers and half of the anonymous joiners announce an empty Identity (libzmq\'s default) and must not share a registration.",
         "DESIGN.md §3 C13", "Interleavings at await granularity; connect()-path joins cannot overlap a call.",
         "stateful property-based testing (proptest) with a harness-owned scheduler; per-peer wire folding oracle"),
 "C14": ("exploration",
         "For every socket type with recv: every delivery prefix of a 3-frame message x 0..4 polls before the recv future is dropped (one or two abandoned calls), and proptest scripts with repeated abandonment; completed recv results must equal what was put on the wire; REQ after an abandoned recv must still refuse a send and return the outstanding reply; REP must still accept its pending reply. Also runs of 70 messages with every recv polled once or twice and dropped, and peers ending between abandoned recvs. Fixed-identity peers may come back on a fresh connection right after an abandoned recv or while a recv is pending. 1..3 command frames (redundant READY) arrive, whole or cut, while a recv of any of 7 socket types is pending; a recv still pending afterwards is dropped, REQ must still refuse the next send and the message sent next must be returned.",
         "DESIGN.md §3 C14", "Cancellation points are the suspension points reachable through pipe reads.",
         "exhaustive cancellation-point enumeration + proptest; reference-model oracle"),
 "C15": ("exploration",
         "zeromq::proxy(ROUTER, DEALER, capture) as a stepped actor between 1..4 clients (raw DEALER, raw REQ, library REQ) and 1..3 workers (raw echo, library REP), capture none/PUSH/PUB/DEALER, generated actor and byte-delivery schedule including both sides fed between two proxy polls; wire-level multiset/order oracles per direction, capture = multiset of all forwarded messages with destination sequences as subsequences, end-to-end replies for library clients. Client identities are 1 / 8 / 255 bytes long or announced empty (the front ROUTER assigns one). A worker may leave (orderly) while nothing is in flight: every later request is answered and nothing is written to it. A client or a worker may come back under its identity while its old connection is still registered. A PUB capture sink subscribes to each client\'s identity exactly in every other case.",
         "DESIGN.md §3 C15", "select!'s unseeded branch PRNG changes which legal interleaving runs, not the oracle.",
         "stateful property-based testing (proptest) with a harness-owned scheduler; wire-tap oracles"),
 "C16": ("fault_enumeration",
         "Every socket type with healthy peers and a victim whose connection ends at every byte-position class of its stream by orderly close, reset or write-only failure (enumerated + proptest), followed by rounds of healthy traffic and application calls: healthy traffic unaffected, at most one error per event, no send routed to a peer whose end was observed, both connection halves released; plus connect/talk/disconnect cycles over real TCP and IPC counting open descriptors and runtime tasks. Further cut kinds and clauses: protocol error, publishes matching the victim, REP replies, SUB subscription changes, bursts, several peers failing at once, a send in flight on the victim, the victim coming back under its identity, recv never waits while a healthy peer\'s message is available. For SUB every subscription change made after the victim\'s connection ended must reach every healthy publisher; half of the real-transport cycle cases install a monitor. Monitor receivers are kept or dropped.",
         "DESIGN.md §3 C16", "A closed connection is EOF on reads + BrokenPipe on writes; 'observed' is measured at the pipe.",
         "fault enumeration (cut position x kind) + proptest in the pipe simulation; resource-count oracle on real transports"),
 "C17": ("exploration",
         "Exhaustive grid of socket type x transport (TCP v4/v6, IPC) x history prefix (bound only, accepted peers, connected out, mid-traffic with idle-polled connections, a client stalled mid-handshake) x {close, drop} on the real runtime with raw reference-codec clients: endpoints refuse, IPC files vanish, close reports no error, every peer (and the pending handshake) sees end-of-stream, alive-task count returns to baseline. Also: failures injected into close (every ipc socket file replaced by a directory: one reported error each) and a peer that stopped reading with all buffers full. A monitor is installed (receiver kept or dropped) before the first bind in a third of the cells. A prefix with activity on one connection after the application\'s last poll. A connect() abandoned by the caller (timeout) must not survive close / drop.",
         "DESIGN.md §3 C17", "Wall-clock limits are watchdogs on an otherwise idle single-threaded runtime; cases run on one thread.",
         "exhaustive configuration grid on real transports + proptest inner parameters; observational oracle (connect attempts, EOF, task and file counts)"),
 "C18": ("exploration",
         "Proptest operation sequences (bind wildcard TCP v4/v6/localhost and IPC, duplicate and impossible binds, unbind bound/unknown, raw clients connecting, exchanges on established connections) on REP, PULL, ROUTER, PUB, PUSH and XPUB (every other history with a monitor installed) against a reference model of the bind set, checked after every operation. Also: clients stalled mid-handshake at unbind (5 s bound), near-miss unbinds of live binds, and one accept() failing at the descriptor limit. Clients that were mid-handshake at unbind and resume afterwards must be cut off.",
         "DESIGN.md §3 C18", "Duplicate binds use literal-IP / ipc endpoints; cases run on one thread.",
         "stateful (model-based) property-based testing on real transports"),
 "C20": ("fault_enumeration",
         "Real bound sockets with a monitor; 1..4 raw clients stop at enumerated / random byte offsets of greeting+READY and then hold, close or send garbage, while well-behaved clients connect before, during and after and an established peer keeps exchanging; handshakes and exchanges must complete while stallers hold, each failed handshake yields exactly one AcceptFailed, Accepted events equal the well-behaved clients. Garbage at every offset, complete-but-invalid handshakes, a client stalling inside an announced 2^50-byte frame, 70..300 simultaneous stallers, strict rotation over exactly the admitted clients. Clients that are gone before accept() takes them from the backlog (TCP reset with SO_LINGER 0 or orderly close, with no await after connect) count as failed handshakes like any other. The monitor is installed before the bind, after it, or replaced after it. Complete-but-invalid handshakes include a READY with garbage after an intact Socket-Type property. A refused handshake (incompatible or unknown Socket-Type) may present the announced identity of the ESTABLISHED peer, which must stay registered and keep exchanging. After the failed handshakes the peer established before them is exchanged with once more.",
         "DESIGN.md §3 C20", "'Never completes' is a 5 s watchdog where ~1 ms is needed.",
         "fault enumeration (stall offset x action) on real transports + proptest; monitor-event and liveness oracle"),
}

PENDING = {
}

def main():
    checks = []
    for pid in sorted(CHECKS):
        cat, text, ref, note, tech = CHECKS[pid]
        checks.append({
            "property_id": pid,
            "quick_cmd": f"./check {pid} quick",
            "thorough_cmd": f"./check {pid} thorough",
            "evidence_file": f"/verif/evidence/{pid}.json",
            "replay_cmd_template": f"./check {pid} --replay {{path}}",
            "engine": "vcheck",
            "level_claimed": {"category": cat, "text": text, "design_ref": ref},
            "level_note": note,
            "technique": tech,
        })
    props = [json.loads(l)["id"] for l in open(os.path.join(HERE, "properties.jsonl"))]
    na = []
    for pid in props:
        if pid not in CHECKS:
            na.append({"property_id": pid, "reason": PENDING.get(pid, "check not built yet in this revision of /verif (planned, see DESIGN.md §3); nothing is claimed for it")})
    m = {
        "version": 1,
        "setup_cmd": "cd /verif/harness && CARGO_NET_OFFLINE=true cargo build --release --offline",
        "hooks": {
            "guard": "cargo feature verif-hooks",
            "enable": "harness/Cargo.toml depends on zeromq = { path = \"/repo\", features = [\"verif-hooks\"] }; every ./check rebuilds it from /repo's working tree",
            "baseline_off_cmd": "cd /repo && cargo test --workspace --no-fail-fast --offline",
            "source_commits": hook_commits(),
            "add_only": True,
        },
        "engines": [
            {"name": "vcheck", "path": "/verif/harness", "serves_properties": sorted(CHECKS),
             "kind_free_text": "Rust binary: proptest TestRunner over choice vectors + explicit exhaustive enumerators; in-memory pipe simulation of real sockets; reference ZMTP codec; real-transport harness"},
        ],
        "checks": checks,
        "not_applicable": na,
        "notes": "Exit codes: 0 held, 1 VIOLATION, 2 infrastructure/inconclusive. VERIF_SEED and VERIF_TIER are honoured. See DESIGN.md.",
    }
    with open(os.path.join(HERE, "MANIFEST.json"), "w") as f:
        json.dump(m, f, indent=1)
        f.write("\n")

if __name__ == "__main__":
    main()
