#![no_main]
//! libFuzzer target "hostile": decodes the bytes into a structured case and runs it through the same
//! oracles as the proptest-driven checks (vcore::fuzzing::entry). A failed oracle panics, which
//! libFuzzer saves as a crash artifact; `./check <ID> --replay <artifact.json>` re-runs it.
use libfuzzer_sys::fuzz_target;

fuzz_target!(
    init: {
        vcore::core::install_panic_hook();
    },
    |data: &[u8]| {
        let fails = vcore::fuzzing::entry("hostile", data);
        if let Some(f) = fails.first() {
            panic!("ORACLE-FAILED {} :: {}", f.sig, f.msg);
        }
    }
);
