//! Independent reference implementation of ZMTP 3.0 framing (RFC 23), written from the
//! RFC text only. Shares no code with the library under test.
//!
//! Grammar (RFC 23):
//!   greeting  = signature version mechanism as-server filler         (64 octets)
//!   signature = %xFF 8OCTET %x7F
//!   version   = major minor
//!   mechanism = 20 octets, NUL padded
//!   as-server = %x00 | %x01
//!   filler    = 31 %x00
//!   frame     = flags size body
//!   flags     = bit0 MORE, bit1 LONG, bit2 COMMAND, bits 3-7 reserved (zero)
//!   size      = OCTET (short) | 8OCTET network order (long)
//!   command body = name-len name *(prop-name-len prop-name 4OCTET-value-len value)

use serde::{Deserialize, Serialize};

pub const GREETING_LEN: usize = 64;

#[derive(Debug, Clone, PartialEq, Eq, Serialize, Deserialize)]
pub struct RefGreeting {
    pub sig_first: u8,
    pub sig_pad: [u8; 8],
    pub sig_last: u8,
    pub version: (u8, u8),
    pub mechanism: Vec<u8>, // without the NUL padding (at most 20 bytes)
    pub as_server: u8,
    pub filler_zero: bool,
}

impl RefGreeting {
    pub fn valid_null() -> Self {
        RefGreeting {
            sig_first: 0xFF,
            sig_pad: [0; 8],
            sig_last: 0x7F,
            version: (3, 0),
            mechanism: b"NULL".to_vec(),
            as_server: 0,
            filler_zero: true,
        }
    }

    pub fn encode(&self) -> Vec<u8> {
        let mut g = vec![0u8; GREETING_LEN];
        g[0] = self.sig_first;
        g[1..9].copy_from_slice(&self.sig_pad);
        g[9] = self.sig_last;
        g[10] = self.version.0;
        g[11] = self.version.1;
        let m = &self.mechanism[..self.mechanism.len().min(20)];
        g[12..12 + m.len()].copy_from_slice(m);
        g[32] = self.as_server;
        if !self.filler_zero {
            g[40] = 0xAA;
        }
        g
    }

    pub fn signature_ok(&self) -> bool {
        self.sig_first == 0xFF && self.sig_last == 0x7F
    }
}

pub fn parse_greeting(b: &[u8]) -> Option<RefGreeting> {
    if b.len() < GREETING_LEN {
        return None;
    }
    let mut pad = [0u8; 8];
    pad.copy_from_slice(&b[1..9]);
    let mech_field = &b[12..32];
    let mlen = mech_field.iter().position(|x| *x == 0).unwrap_or(20);
    Some(RefGreeting {
        sig_first: b[0],
        sig_pad: pad,
        sig_last: b[9],
        version: (b[10], b[11]),
        mechanism: mech_field[..mlen].to_vec(),
        as_server: b[32],
        filler_zero: b[33..64].iter().all(|x| *x == 0) && mech_field[mlen..].iter().all(|x| *x == 0),
    })
}

/// One frame on the wire.
#[derive(Debug, Clone, PartialEq, Eq)]
pub struct RefFrame {
    pub flags: u8,
    pub long_size: bool,
    pub body: Vec<u8>,
}

pub const FLAG_MORE: u8 = 1;
pub const FLAG_LONG: u8 = 2;
pub const FLAG_COMMAND: u8 = 4;

/// Canonical frame encoding: short size iff body <= 255 bytes.
pub fn encode_frame(out: &mut Vec<u8>, body: &[u8], more: bool, command: bool) {
    encode_frame_opts(out, body, more, command, body.len() > 255, 0);
}

/// Frame encoding with explicit control (for non-canonical / hostile streams).
pub fn encode_frame_opts(
    out: &mut Vec<u8>,
    body: &[u8],
    more: bool,
    command: bool,
    long: bool,
    reserved_bits: u8,
) {
    let mut flags = reserved_bits & 0xF8;
    if more {
        flags |= FLAG_MORE;
    }
    if long {
        flags |= FLAG_LONG;
    }
    if command {
        flags |= FLAG_COMMAND;
    }
    out.push(flags);
    if long {
        out.extend_from_slice(&(body.len() as u64).to_be_bytes());
    } else {
        assert!(body.len() <= 255, "short frame body too long");
        out.push(body.len() as u8);
    }
    out.extend_from_slice(body);
}

pub fn encode_message<B: AsRef<[u8]>>(frames: &[B]) -> Vec<u8> {
    assert!(!frames.is_empty());
    let total: usize = frames.iter().map(|f| f.as_ref().len() + 9).sum();
    let mut out = Vec::with_capacity(total);
    for (i, f) in frames.iter().enumerate() {
        encode_frame(&mut out, f.as_ref(), i + 1 != frames.len(), false);
    }
    out
}

pub fn command_body(name: &[u8], props: &[(Vec<u8>, Vec<u8>)]) -> Vec<u8> {
    let mut body = Vec::new();
    body.push(name.len() as u8);
    body.extend_from_slice(name);
    for (k, v) in props {
        body.push(k.len() as u8);
        body.extend_from_slice(k);
        body.extend_from_slice(&(v.len() as u32).to_be_bytes());
        body.extend_from_slice(v);
    }
    body
}

pub fn encode_command(name: &[u8], props: &[(Vec<u8>, Vec<u8>)]) -> Vec<u8> {
    let body = command_body(name, props);
    let mut out = Vec::with_capacity(body.len() + 9);
    encode_frame(&mut out, &body, false, true);
    out
}

pub fn encode_ready(socket_type: &str, identity: Option<&[u8]>) -> Vec<u8> {
    let mut props = vec![(b"Socket-Type".to_vec(), socket_type.as_bytes().to_vec())];
    if let Some(id) = identity {
        props.push((b"Identity".to_vec(), id.to_vec()));
    }
    encode_command(b"READY", &props)
}

/// greeting ‖ READY for a well behaved raw peer of the given type.
pub fn handshake_bytes(socket_type: &str, identity: Option<&[u8]>) -> Vec<u8> {
    let mut v = RefGreeting::valid_null().encode();
    v.extend_from_slice(&encode_ready(socket_type, identity));
    v
}

#[derive(Debug, Clone, PartialEq, Eq, Serialize, Deserialize)]
pub enum RefItem {
    Greeting(RefGreeting),
    /// Parsed command: name, ordered property list (duplicates kept).
    Command {
        name: Vec<u8>,
        props: Vec<(Vec<u8>, Vec<u8>)>,
    },
    /// A command frame whose body does not parse under the RFC grammar.
    MalformedCommand(Vec<u8>),
    Message(Vec<Vec<u8>>),
}

#[derive(Debug, Clone, PartialEq, Eq, Serialize, Deserialize)]
pub enum RefError {
    /// reserved flag bits set
    ReservedBits(u8),
    /// long size used for a body of at most 255 bytes (non canonical)
    NonCanonicalSize(u64),
    /// size has the top bit set / does not fit memory
    SizeOverflow(u64),
    /// MORE bit on a command frame
    MoreOnCommand,
    /// command frame in the middle of a multipart message
    CommandInsideMessage,
    /// greeting signature wrong
    BadSignature,
}

/// Parse the body of a command frame per RFC 23.
pub fn parse_command_body(body: &[u8]) -> Option<(Vec<u8>, Vec<(Vec<u8>, Vec<u8>)>)> {
    let mut p = 0usize;
    let nlen = *body.get(p)? as usize;
    p += 1;
    let name = body.get(p..p + nlen)?.to_vec();
    p += nlen;
    let mut props = Vec::new();
    while p < body.len() {
        let klen = *body.get(p)? as usize;
        p += 1;
        let k = body.get(p..p + klen)?.to_vec();
        p += klen;
        let vl = body.get(p..p + 4)?;
        let vlen = u32::from_be_bytes([vl[0], vl[1], vl[2], vl[3]]) as usize;
        p += 4;
        let v = body.get(p..p.checked_add(vlen)?)?.to_vec();
        p += vlen;
        props.push((k, v));
    }
    Some((name, props))
}

#[derive(Debug, Clone, Copy, PartialEq, Eq)]
pub struct Strictness {
    /// reject reserved bits, non-canonical sizes, MORE on commands
    pub canonical: bool,
    /// expect a greeting first
    pub greeting: bool,
}

impl Strictness {
    pub const EMITTED: Strictness = Strictness {
        canonical: true,
        greeting: false,
    };
    pub const EMITTED_WITH_GREETING: Strictness = Strictness {
        canonical: true,
        greeting: true,
    };
    pub const LENIENT: Strictness = Strictness {
        canonical: false,
        greeting: true,
    };
    pub const LENIENT_NO_GREETING: Strictness = Strictness {
        canonical: false,
        greeting: false,
    };
}

/// Result of parsing a complete byte string.
#[derive(Debug, Clone, PartialEq, Eq)]
pub struct RefParse {
    pub items: Vec<RefItem>,
    /// bytes consumed by complete items
    pub consumed: usize,
    /// frames of an incomplete multipart message (complete frames only)
    pub partial_frames: usize,
    /// error that stopped parsing (position = consumed)
    pub error: Option<RefError>,
    /// bytes after `consumed` that do not form a complete item (0 = clean end)
    pub residue: usize,
    /// byte offsets (into the input) where each item ends
    pub item_ends: Vec<usize>,
    /// position after the last complete frame of any kind
    pub frames_end: usize,
}

/// Parse as many complete items as possible.
pub fn parse_stream(data: &[u8], strict: Strictness) -> RefParse {
    let mut out = RefParse {
        items: vec![],
        consumed: 0,
        partial_frames: 0,
        error: None,
        residue: 0,
        item_ends: vec![],
        frames_end: 0,
    };
    let mut p = 0usize;
    if strict.greeting {
        match parse_greeting(data) {
            None => {
                out.residue = data.len();
                return out;
            }
            Some(g) => {
                if strict.canonical && !g.signature_ok() {
                    out.error = Some(RefError::BadSignature);
                    out.residue = data.len();
                    return out;
                }
                out.items.push(RefItem::Greeting(g));
                p = GREETING_LEN;
                out.consumed = p;
                out.frames_end = p;
                out.item_ends.push(p);
            }
        }
    }
    let mut cur: Vec<Vec<u8>> = vec![];
    loop {
        // try to read one frame at p
        let Some(&flags) = data.get(p) else { break };
        if strict.canonical && flags & 0xF8 != 0 {
            out.error = Some(RefError::ReservedBits(flags));
            break;
        }
        let long = flags & FLAG_LONG != 0;
        let (size, hdr) = if long {
            let Some(sz) = data.get(p + 1..p + 9) else { break };
            let mut b = [0u8; 8];
            b.copy_from_slice(sz);
            (u64::from_be_bytes(b), 9usize)
        } else {
            let Some(&sz) = data.get(p + 1) else { break };
            (sz as u64, 2usize)
        };
        if long && size >> 63 != 0 {
            out.error = Some(RefError::SizeOverflow(size));
            break;
        }
        if strict.canonical && long && size <= 255 {
            out.error = Some(RefError::NonCanonicalSize(size));
            break;
        }
        let Some(end) = (p + hdr).checked_add(size as usize) else {
            out.error = Some(RefError::SizeOverflow(size));
            break;
        };
        let Some(body) = data.get(p + hdr..end) else { break };
        let more = flags & FLAG_MORE != 0;
        if flags & FLAG_COMMAND != 0 {
            if strict.canonical && more {
                out.error = Some(RefError::MoreOnCommand);
                break;
            }
            if strict.canonical && !cur.is_empty() {
                out.error = Some(RefError::CommandInsideMessage);
                break;
            }
            match parse_command_body(body) {
                Some((name, props)) => out.items.push(RefItem::Command { name, props }),
                None => out.items.push(RefItem::MalformedCommand(body.to_vec())),
            }
            p = end;
            out.frames_end = p;
            if cur.is_empty() {
                out.consumed = p;
            }
            out.item_ends.push(p);
            continue;
        }
        cur.push(body.to_vec());
        p = end;
        out.frames_end = p;
        if !more {
            out.items.push(RefItem::Message(std::mem::take(&mut cur)));
            out.consumed = p;
            out.item_ends.push(p);
        }
    }
    out.partial_frames = cur.len();
    out.residue = data.len() - out.consumed;
    out
}

/// Convenience: decode a tap that must contain only complete, canonical messages.
/// Returns Err(description) when anything else is on the wire.
pub fn decode_messages_strict(data: &[u8]) -> Result<Vec<Vec<Vec<u8>>>, String> {
    let p = parse_stream(data, Strictness::EMITTED);
    if let Some(e) = &p.error {
        return Err(format!("non-canonical bytes at {}: {:?}", p.consumed, e));
    }
    if p.residue != 0 {
        return Err(format!(
            "{} trailing bytes that do not form a complete message (after {} bytes)",
            p.residue, p.consumed
        ));
    }
    let mut msgs = vec![];
    for it in p.items {
        match it {
            RefItem::Message(m) => msgs.push(m),
            other => return Err(format!("unexpected non-message item on the wire: {:?}", other)),
        }
    }
    Ok(msgs)
}

/// Decode a tap leniently about a trailing incomplete message (returns complete messages
/// and the number of residue bytes).
pub fn decode_messages_prefix(data: &[u8]) -> Result<(Vec<Vec<Vec<u8>>>, usize), String> {
    let p = parse_stream(data, Strictness::EMITTED);
    if let Some(e) = &p.error {
        return Err(format!("non-canonical bytes at {}: {:?}", p.consumed, e));
    }
    let mut msgs = vec![];
    for it in p.items {
        match it {
            RefItem::Message(m) => msgs.push(m),
            other => return Err(format!("unexpected non-message item on the wire: {:?}", other)),
        }
    }
    Ok((msgs, p.residue))
}

pub fn hex(b: &[u8]) -> String {
    let mut s = String::with_capacity(b.len() * 2);
    for x in b {
        s.push_str(&format!("{:02x}", x));
    }
    s
}

pub fn unhex(s: &str) -> Vec<u8> {
    let s: Vec<u8> = s.bytes().filter(|c| c.is_ascii_hexdigit()).collect();
    s.chunks(2)
        .map(|c| u8::from_str_radix(std::str::from_utf8(c).unwrap(), 16).unwrap())
        .collect()
}

/// Short printable summary of a byte string for evidence samples.
pub fn brief(b: &[u8]) -> String {
    if b.len() <= 24 {
        hex(b)
    } else {
        format!("{}..({} bytes)", hex(&b[..12]), b.len())
    }
}

#[cfg(test)]
mod tests {
    use super::*;

    #[test]
    fn roundtrip_basic() {
        let m = vec![b"a".to_vec(), vec![], vec![7u8; 300]];
        let w = encode_message(&m);
        assert_eq!(w[0], 1);
        assert_eq!(w[1], 1);
        let p = parse_stream(&w, Strictness::EMITTED);
        assert_eq!(p.items, vec![RefItem::Message(m)]);
        assert_eq!(p.residue, 0);
    }

    #[test]
    fn rfc_example_ready() {
        // From RFC 23: READY with Socket-Type=REQ... build and re-parse.
        let w = encode_ready("REQ", Some(b"id"));
        let p = parse_stream(&w, Strictness::EMITTED);
        match &p.items[0] {
            RefItem::Command { name, props } => {
                assert_eq!(name, b"READY");
                assert_eq!(props.len(), 2);
            }
            _ => panic!(),
        }
        assert_eq!(w[0], 4);
    }
}
