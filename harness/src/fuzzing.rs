//! Entry points shared by the cargo-fuzz targets (/verif/fuzz) and by `vcheck --replay` of a
//! saved fuzz artifact: bytes are decoded into structured cases and run through the SAME
//! oracles the proptest-driven checks use.

use crate::core::{capture_panics, panic_sig, Failure, Src};
use crate::props;
use crate::refcodec;

/// bytes -> u16 choices (little endian pairs)
pub fn choices(data: &[u8]) -> Vec<u16> {
    data.chunks(2).map(|c| if c.len() == 2 { u16::from_le_bytes([c[0], c[1]]) } else { c[0] as u16 }).collect()
}

pub const TARGETS: [&str; 5] = ["wire", "endpoint", "fq", "sim", "hostile"];

/// Which property a failure signature belongs to ("C05/queue/.." -> "C05").
pub fn property_of(sig: &str) -> &str {
    sig.split('/').next().unwrap_or("")
}

pub fn entry(target: &str, data: &[u8]) -> Vec<Failure> {
    let (r, panics) = capture_panics(|| entry_inner(target, data));
    let mut f = r.unwrap_or_default();
    for p in panics {
        // panics inside oracles' own capture are already reported; this is the outer net
        if !f.iter().any(|x| x.msg.contains(&p)) {
            f.push(Failure::new(format!("C03/panic/{}", panic_sig(&p)), p));
        }
    }
    f
}

fn entry_inner(target: &str, data: &[u8]) -> Vec<Failure> {
    match target {
        // raw bytes after a valid greeting through the real framed reader (C03 oracle), and
        // the same bytes under two segmentations (C02 metamorphic oracle)
        "hostile" => {
            let mut stream = crate::hostile::valid_greeting();
            stream.extend_from_slice(data);
            let (mut f, _) = props::c03::check_bytes(&stream, 0, true);
            let base = crate::libcodec::framed_run(&stream, &[stream.len()], Some(crate::pipe::ReadEnd::Eof), 1 << 20);
            if base.errors.is_empty() {
                let one = crate::libcodec::framed_run(&stream, &vec![1; stream.len().min(4096)], Some(crate::pipe::ReadEnd::Eof), 1 << 20);
                props::c02::check_against_baseline(&one, &base, &mut f, "byte-at-a-time");
            }
            f
        }
        // structured: messages (C01), valid streams x partitions (C02), mutated streams (C03)
        "wire" => {
            let ch = choices(data);
            let mut src = Src::new(&ch);
            match src.below(3) {
                0 => {
                    let m = props::c01::gen_msg(&mut src, 6, 17, 1 << 20);
                    props::c01::check_message(&m.frames())
                }
                1 => {
                    let spec = crate::streams::gen_stream(&mut src, 5, 14);
                    let bytes = spec.encode();
                    let mut chunks = vec![];
                    let mut total = 0;
                    while total < bytes.len() && !src.exhausted() {
                        let c = 1 + src.below(300);
                        chunks.push(c);
                        total += c;
                    }
                    let end = if src.bool() { props::c02::EndKind::Eof } else { props::c02::EndKind::Open };
                    let mut f = vec![];
                    let exp = props::c02::expectation(&bytes, end);
                    let re = match end {
                        props::c02::EndKind::Eof => Some(crate::pipe::ReadEnd::Eof),
                        _ => None,
                    };
                    let base = crate::libcodec::framed_run(&bytes, &[bytes.len()], re, 1 << 20);
                    let run = crate::libcodec::framed_run(&bytes, &chunks, re, 1 << 20);
                    props::c02::check_against_ref(&run, &exp, &mut f, "fuzz partition");
                    props::c02::check_against_baseline(&run, &base, &mut f, "fuzz partition");
                    f
                }
                _ => {
                    let spec = crate::hostile::gen_hostile(&mut src, 3000);
                    let bytes = spec.encode();
                    props::c03::check_bytes(&bytes, src.pick(&[0usize, 1, 7]), src.bool()).0
                }
            }
        }
        "endpoint" => {
            let s = String::from_utf8_lossy(data).to_string();
            props::c19::check_str(&s).0
        }
        "fq" => {
            // one token per byte
            let n_keys = 2 + (data.first().copied().unwrap_or(0) as usize % 4);
            let alpha = crate::fq::alphabet(n_keys, true);
            let toks: Vec<crate::fq::Tok> = data.iter().skip(1).take(120).map(|b| if b & 0xE0 == 0xE0 { crate::fq::Tok::Replace((*b & 0x1f) % n_keys as u8) } else if b & 0xC0 == 0xC0 { crate::fq::Tok::Migrate } else if b & 0x80 != 0 { crate::fq::Tok::Recv } else { alpha[*b as usize % alpha.len()] }).collect();
            let r = crate::fq::run_schedule(&toks, n_keys, true);
            if r.stats.invalid_at.is_some() {
                return vec![];
            }
            let has_stale = toks.iter().any(|t| matches!(t, crate::fq::Tok::StaleWake(_)));
            let mut f = r.c05;
            f.extend(r.c06.into_iter().filter(|x| !(has_stale && x.sig == "C06/queue/starvation")));
            f
        }
        // choice-sequence fuzzing of the simulation generators
        "sim" => {
            let ch = choices(data);
            let mut src = Src::new(&ch);
            // VFUZZ_PROP=Cxx pins the generator (a campaign run on behalf of one property)
            let pinned: Option<usize> = std::env::var("VFUZZ_PROP").ok().and_then(|p| ["C05", "C09", "C10", "C13", "C16", "C14", "C11", "C08", "C15"].iter().position(|x| *x == p));
            let pick = src.below(9);
            match pinned.unwrap_or(pick) {
                0 => props::c05::sock_outcome(&props::c05::gen_sock(&mut src)).failures,
                1 => props::c09::router_outcome(&props::c09::gen_router(&mut src)).failures,
                2 => props::c10::rr_outcome(&props::c10::gen_rr(&mut src, 14)).failures,
                3 => props::c13::sub_outcome(&props::c13::gen_sub(&mut src)).failures,
                4 => props::c16::cut_outcome(&props::c16::gen_cut(&mut src)).failures,
                5 => props::c14::cancel_outcome(&props::c14::gen_cancel_pub(&mut src)).failures,
                6 => props::c11::filter_outcome(&props::c11::gen_filter_pub(&mut src)).failures,
                7 => props::c08::conc_outcome(&props::c08::gen_conc_pub(&mut src)).failures,
                _ => props::c15::proxy_outcome(&props::c15::gen_proxy_pub(&mut src)).failures,
            }
        }
        _ => vec![Failure::new("fuzz/unknown-target", target.to_string())],
    }
}

/// Small valid seed inputs per target (written by `vcheck --emit-corpus`).
pub fn seeds(target: &str) -> Vec<Vec<u8>> {
    match target {
        "hostile" => {
            let mut v = vec![];
            v.push(refcodec::encode_ready("DEALER", None));
            let mut s = refcodec::encode_ready("REQ", Some(b"id"));
            s.extend_from_slice(&refcodec::encode_message(&[vec![], b"hello".to_vec()]));
            v.push(s);
            v.push(refcodec::encode_message(&[vec![1u8; 300], vec![], b"x".to_vec()]));
            let mut s = vec![];
            for _ in 0..80 {
                refcodec::encode_frame(&mut s, b"", true, false);
            }
            v.push(s);
            v.push(vec![0x02, 0, 0, 0, 0, 0, 0, 1, 0]);
            v.push(vec![0x04, 0x00]);
            v
        }
        "endpoint" => ["tcp://127.0.0.1:5555", "tcp://[::1]:80", "tcp://example.com:0", "ipc:///tmp/sock", "tcp://::ffff:1.2.3.4:65535", "udp://x:1", "tcp://a:b:c:9"].iter().map(|s| s.as_bytes().to_vec()).collect(),
        "fq" => vec![vec![0, 2, 3, 0x80, 0x80, 4, 0x80], vec![1, 2, 8, 3, 9, 0x80, 0x80, 0x80, 1], vec![2, 2, 0x80, 3, 0x80, 5, 2, 0x80]],
        "wire" | "sim" => {
            // arbitrary but reproducible choice vectors of a few sizes
            (0..6u32).map(|i| crate::core::fill(i + 1, 40 + 60 * i as usize)).collect()
        }
        _ => vec![],
    }
}


/// Thorough-tier campaign: build the libFuzzer target, run it for `seconds` from the seed
/// corpus, and turn a crash artifact into a violation of `ctx.id` (re-checked in process through
/// the same oracle). Anything that prevents the campaign from running is a note, never a
/// violation.
pub fn campaign(ctx: &crate::core::Ctx, report: &mut crate::core::Report, target: &str, seconds: u64) {
    use std::process::Command;
    let fuzz_dir = ctx.verif_dir.join("fuzz");
    let work = fuzz_dir.join("corpus-work").join(format!("{}-{}-{}", target, ctx.id, std::process::id()));
    let arts = fuzz_dir.join("artifacts").join(target);
    let _ = std::fs::create_dir_all(&work);
    let _ = std::fs::create_dir_all(&arts);
    for (i, s) in seeds(target).iter().enumerate() {
        let _ = std::fs::write(work.join(format!("seed-{}", i)), s);
    }
    let started = std::time::Instant::now();
    let build = Command::new("cargo")
        .args(["+nightly", "fuzz", "build", "--fuzz-dir"])
        .arg(&fuzz_dir)
        .arg(target)
        .env("CARGO_NET_OFFLINE", "true")
        .current_dir(&fuzz_dir)
        .output();
    let ok = matches!(&build, Ok(o) if o.status.success());
    if !ok {
        report.notes.push(format!("libFuzzer campaign '{}' skipped: cargo +nightly fuzz build failed ({})", target, build.map(|o| String::from_utf8_lossy(&o.stderr).lines().last().unwrap_or("").to_string()).unwrap_or_else(|e| e.to_string())));
        return;
    }
    let bin = fuzz_dir.join("target/x86_64-unknown-linux-gnu/release").join(target);
    let out = Command::new(&bin)
        .arg(&work)
        .arg(format!("-max_total_time={}", seconds))
        .arg(format!("-seed={}", (ctx.seed % 0xffff_ffff).max(1)))
        .arg("-len_control=0")
        .arg("-max_len=4096")
        .arg("-malloc_limit_mb=1024")
        .arg("-rss_limit_mb=4096")
        .arg("-timeout=60")
        .arg(format!("-artifact_prefix={}/", arts.display()))
        .env("VFUZZ_PROP", &ctx.id)
        .output();
    let Ok(out) = out else {
        report.notes.push(format!("libFuzzer campaign '{}' could not be started", target));
        return;
    };
    let text = String::from_utf8_lossy(&out.stderr).to_string();
    let runs: u64 = text
        .lines()
        .rev()
        .find_map(|l| l.strip_prefix("Done ").and_then(|r| r.split(' ').next()).and_then(|n| n.parse().ok()).or_else(|| l.strip_prefix("stat::number_of_executed_units: ").and_then(|n| n.trim().parse().ok())))
        .unwrap_or(0);
    let corpus_n = std::fs::read_dir(&work).map(|d| d.count()).unwrap_or(0);
    report.evaluations += runs;
    // coverage-guided executions carry no class labels: the relative generator-health gates
    // are taken over the labelled (generated) cases only
    *report.measures.entry("fuzz_executions_unlabelled".into()).or_default() += runs as i64;
    if let Ok(rd) = std::fs::read_dir(&work) {
        for (i, e) in rd.flatten().enumerate() {
            if let Ok(b) = std::fs::read(e.path()) {
                report.nontrivial.insert(crate::core::hash_of(&(target, &b)));
                if i < 2 {
                    report.sample(serde_json::json!({"kind": format!("fuzz:{}", target), "case": {"hex": refcodec::brief(&b)}}));
                }
            }
        }
    }
    report.sections.push(serde_json::json!({"part": format!("libFuzzer campaign on target '{}' (coverage-guided, seeded with reference-encoded inputs)", target), "executions": runs, "corpus_size": corpus_n, "seconds": started.elapsed().as_secs()}));
    // artifact?
    if let Some(path) = text.lines().find_map(|l| l.split("Test unit written to ").nth(1)).map(|p| p.trim().to_string()) {
        let name = std::path::Path::new(&path).file_name().map(|n| n.to_string_lossy().to_string()).unwrap_or_default();
        if name.starts_with("timeout-") || name.starts_with("slow-unit-") {
            report.notes.push(format!("libFuzzer '{}' reported a slow unit ({}): inconclusive, not a violation", target, path));
        } else if let Ok(bytes) = std::fs::read(&path) {
            crate::crumb::case(&format!("fuzz:{}", target), &serde_json::json!({"hex": refcodec::hex(&bytes)}));
            let fails: Vec<Failure> = entry(target, &bytes).into_iter().filter(|f| property_of(&f.sig) == ctx.id || (ctx.id == "C03" && f.sig.contains("/panic/"))).collect();
            crate::crumb::clear();
            let case = serde_json::json!({"hex": refcodec::hex(&bytes), "artifact": path});
            if let Some(f) = fails.first() {
                if !ctx.known.is_known(&f.sig) {
                    report.violation(ctx, &format!("fuzz:{}", target), f, case);
                }
            } else if name.starts_with("oom-") && ctx.id == "C03" {
                let f = Failure::new("C03/memory/libfuzzer-malloc-limit", format!("libFuzzer hit its 1 GiB malloc limit on {}", path));
                report.violation(ctx, &format!("fuzz:{}", target), &f, case);
            } else {
                report.notes.push(format!("libFuzzer '{}' saved {} but the oracle of {} holds on it when re-run in process (belongs to another property or did not reproduce)", target, path, ctx.id));
            }
        }
    }
    let _ = std::fs::remove_dir_all(&work);
}

/// Replay of a case saved by `campaign` (kind "fuzz:<target>").
pub fn replay(ctx: &crate::core::Ctx, kind: &str, case: &serde_json::Value) -> Option<Vec<Failure>> {
    let target = kind.strip_prefix("fuzz:")?;
    let bytes = refcodec::unhex(case.get("hex")?.as_str()?);
    std::env::set_var("VFUZZ_PROP", &ctx.id);
    Some(entry(target, &bytes).into_iter().filter(|f| property_of(&f.sig) == ctx.id || (ctx.id == "C03" && f.sig.contains("/panic/"))).collect())
}
