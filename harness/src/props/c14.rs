//! C14 — dropping a pending recv loses nothing and leaves the socket usable.

use crate::core::*;
use crate::fail;
use crate::props::c05::wire_and_expect;
use crate::props::parse_case;
use crate::refcodec;
use crate::simx;
use crate::sim::{run_sim, Frames, Kind, Link, Out, Sim};

use serde::{Deserialize, Serialize};
use serde_json::{json, Value};

#[derive(Debug, Clone, Serialize, Deserialize, PartialEq, Eq, Hash)]
pub enum Op {
    /// deliver n more bytes of peer j's stream (0 = all)
    Deliver(usize, usize),
    /// start a recv if none is in flight, then poll it up to k times (a poll happens only when
    /// the future is new or was woken)
    Poll(usize),
    /// create the recv future without polling it
    Start,
    /// drop the in-flight recv future
    Cancel,
    /// REQ only: try a send while the recv is abandoned (must be refused)
    TrySend,
    /// peer j closes its connection after everything it has written (not REQ): a recv that
    /// meets the end of that stream may itself be abandoned afterwards
    PeerEnd(usize),
    /// peer j (fixed identity; not REQ) comes back on a fresh connection under the same
    /// identity while its old connection is still open - only when everything it has delivered
    /// so far are whole messages that recv has returned. The rest of its script arrives on the
    /// fresh connection. An abandoned recv just before must make no difference.
    Rejoin(usize),
    /// deliver peer j's stream up to the end of its next message
    DeliverMsg(usize),
}

#[derive(Debug, Clone, Serialize, Deserialize, PartialEq, Eq, Hash)]
pub struct CancelCase {
    pub kind: Kind,
    /// per peer: messages (frame lengths)
    pub peers: Vec<Vec<Vec<usize>>>,
    pub ops: Vec<Op>,
}

pub const KINDS: [Kind; 7] = [Kind::Pull, Kind::Sub, Kind::Dealer, Kind::Router, Kind::Rep, Kind::XPub, Kind::Req];

pub fn cancel_outcome(c: &CancelCase) -> Outcome {
    let mut o = Outcome::new(hash_of(c));
    o.class(format!("kind-{}", c.kind.name()));
    let c2 = c.clone();
    let (r, panics) = capture_panics(|| {
        run_sim(async move {
            let c = c2;
            let kind = c.kind;
            let who = kind.name();
            let mut f: Vec<Failure> = vec![];
            let mut classes: Vec<String> = vec![];
            let mut sim = Sim::new();
            let s = sim.socket(kind, None);
            let mut links: Vec<Link> = vec![];
            let mut ids: Vec<Vec<u8>> = vec![];
            let mut expect: Vec<Vec<Frames>> = vec![];
            let mut msg_ends: Vec<Vec<usize>> = vec![];
            let has_rejoin = kind != Kind::Req && c.ops.iter().any(|o| matches!(o, Op::Rejoin(_)));
            let mut hs_len: Vec<usize> = vec![];
            // encoded messages per peer (to move the undelivered rest to a fresh connection)
            let mut encoded: Vec<Vec<Vec<u8>>> = vec![];
            let mut old_links: Vec<Link> = vec![];
            // REQ: one peer only; replies are supplied one per request
            let n_peers = if kind == Kind::Req { 1 } else { c.peers.len().max(1) };
            for pi in 0..n_peers {
                let l = sim.link();
                // every other case: the peers announce an empty Identity (libzmq's default), which
                // must not make them share a registration
                let fixed_id = format!("peer-{}", pi).into_bytes();
                let announce: Option<&[u8]> = if has_rejoin { Some(&fixed_id[..]) } else if c.ops.len() % 2 == 1 { Some(&[][..]) } else { None };
                hs_len.push(refcodec::handshake_bytes(kind.a_compatible_peer(), announce).len());
                l.raw_handshake(kind.a_compatible_peer(), announce);
                let a = sim.attach(s, &l);
                match sim.run(a).await {
                    Ok(Some(Out::Attach(Ok(id)))) => ids.push(id),
                    other => {
                        fail!(f, format!("C14/{}/setup", who), "{:?}", other);
                        return (f, classes);
                    }
                }
                let mut ex = vec![];
                let mut ends = vec![];
                let mut encs: Vec<Vec<u8>> = vec![];
                let mut total = 0;
                let script = c.peers.get(pi).cloned().unwrap_or_default();
                for (seq, lens) in script.iter().enumerate() {
                    let (w, e) = wire_and_expect(kind, pi, seq, lens, false);
                    let enc = refcodec::encode_message(&w);
                    total += enc.len();
                    ends.push(total);
                    encs.push(enc.clone());
                    if kind != Kind::Req {
                        l.to_lib.deposit(&enc);
                    }
                    ex.push(e.unwrap());
                }
                expect.push(ex);
                msg_ends.push(ends);
                encoded.push(encs);
                links.push(l);
            }
            let mut got: Vec<Frames> = vec![];
            let mut recv: Option<usize> = None;
            let mut cancels_after_poll_with_partial = 0usize;
            // REQ state: number of requests sent / replies received
            let mut req_sent = 0usize;
            let req_total = c.peers.first().map(|p| p.len()).unwrap_or(0);
            let mut req_outstanding = false;
            // REP: a request has been handed to the application and not been answered yet
            let mut rep_owes_reply = false;
            let mut ended = vec![false; n_peers];
            // messages of peer j that travelled on earlier connections of it
            let mut rejoined_base = vec![0usize; n_peers];

            // REQ: issue the next request (when none is outstanding) and make its reply available
            macro_rules! req_next {
                () => {{
                    if kind == Kind::Req && !req_outstanding && req_sent < req_total && recv.is_none() {
                        let a = sim.send(s, &[format!("q{}", req_sent).into_bytes()]);
                        match sim.run(a).await {
                            Ok(Some(Out::Send(Ok(())))) => {
                                let (w, _) = wire_and_expect(kind, 0, req_sent, &c.peers[0][req_sent], false);
                                links[0].to_lib.deposit(&refcodec::encode_message(&w));
                                req_sent += 1;
                                req_outstanding = true;
                            }
                            other => {
                                fail!(f, "C14/REQ/in-turn-send-refused", "request {}: {:?}", req_sent, other);
                                return (f, classes);
                            }
                        }
                    }
                }};
            }
            macro_rules! collect {
                () => {{
                    if let Some(a) = recv {
                        if sim.done(a) {
                            match sim.take(a) {
                                Some(Out::Recv(Ok(m))) => {
                                    got.push(m);
                                    req_outstanding = false;
                                    rep_owes_reply = true;
                                }
                                Some(Out::Recv(Err(e))) => {
                                    fail!(f, format!("C14/{}/recv-error", who), "{}", e.text.chars().take(100).collect::<String>());
                                    req_outstanding = false;
                                }
                                _ => {}
                            }
                            recv = None;
                        }
                    }
                }};
            }
            req_next!();
            for op in &c.ops {
                match op {
                    Op::Deliver(j, n) => {
                        let j = *j % links.len();
                        links[j].to_lib.deliver(if *n == 0 { usize::MAX } else { *n });
                        // PUB-less sockets: nothing runs until someone polls
                    }
                    Op::Poll(k) => {
                        if recv.is_none() {
                            if kind == Kind::Req && !req_outstanding {
                                req_next!();
                                if !req_outstanding {
                                    continue;
                                }
                            }
                            recv = Some(sim.recv(s));
                        }
                        let a = recv.unwrap();
                        for _ in 0..(*k).max(1) {
                            if sim.done(a) || !sim.woken(a) {
                                break;
                            }
                            sim.poll(a);
                        }
                        collect!();
                    }
                    Op::Start => {
                        if recv.is_none() {
                            if kind == Kind::Req && !req_outstanding {
                                req_next!();
                                if !req_outstanding {
                                    continue;
                                }
                            }
                            recv = Some(sim.recv(s));
                        }
                    }
                    Op::Cancel => {
                        if let Some(a) = recv {
                            if !sim.done(a) {
                                // was it polled at least once with a partially delivered message?
                                let partial = links.iter().enumerate().any(|(j, l)| {
                                    let hs = hs_len[j];
                                    let rp = l.to_lib.read_pos().saturating_sub(hs);
                                    rp > 0 && !msg_ends[j].contains(&rp)
                                });
                                if sim.polls(a) > 0 && partial {
                                    cancels_after_poll_with_partial += 1;
                                }
                                if sim.polls(a) > 0 {
                                    classes.push("cancel-after-poll".into());
                                } else {
                                    classes.push("cancel-before-first-poll".into());
                                }
                                sim.cancel(a);
                                recv = None;
                            } else {
                                collect!();
                            }
                        }
                    }
                    Op::DeliverMsg(j) => {
                        let j = *j % links.len();
                        let total = msg_ends[j].last().copied().unwrap_or(0);
                        let off = total - links[j].to_lib.undelivered().min(total);
                        if let Some(e) = msg_ends[j].iter().find(|e| **e > off) {
                            links[j].to_lib.deliver(*e - off);
                        }
                    }
                    Op::Rejoin(j) => {
                        if !has_rejoin {
                            continue;
                        }
                        let j = *j % links.len();
                        if ended[j] {
                            continue;
                        }
                        let st_len = links[j].to_lib.harness_bytes();
                        let _ = st_len;
                        let delivered = hs_len[j] + msg_ends[j].last().copied().unwrap_or(0) - links[j].to_lib.undelivered();
                        let off = delivered - hs_len[j];
                        let k = match msg_ends[j].iter().position(|e| *e == off) {
                            Some(i) => i + 1,
                            None if off == 0 => 0,
                            None => continue, // in the middle of a message: the cut would lose it
                        };
                        // everything delivered so far has been returned by recv
                        let from_j = got
                            .iter()
                            .filter(|m| {
                                let body: Frames = if kind == Kind::Router { m.get(1..).map(|x| x.to_vec()).unwrap_or_default() } else { (*m).clone() };
                                expect[j].contains(&body)
                            })
                            .count();
                        if from_j != rejoined_base[j] + k {
                            continue;
                        }
                        let fixed_id = format!("peer-{}", j).into_bytes();
                        let nl = sim.link();
                        nl.raw_handshake(kind.a_compatible_peer(), Some(&fixed_id));
                        let a = sim.attach(s, &nl);
                        match sim.run(a).await {
                            Ok(Some(Out::Attach(Ok(_)))) => {}
                            other => {
                                fail!(f, format!("C14/{}/returning-peer-not-admitted", who), "{:?}", other);
                                return (f, classes);
                            }
                        }
                        // the rest of the script travels on the fresh connection
                        let rest: Vec<Vec<u8>> = encoded[j].split_off(k);
                        let mut ends = vec![];
                        let mut total = 0;
                        for e in &rest {
                            nl.to_lib.deposit(e);
                            total += e.len();
                            ends.push(total);
                        }
                        encoded[j] = rest;
                        msg_ends[j] = ends;
                        rejoined_base[j] += k;
                        let old = std::mem::replace(&mut links[j], nl);
                        old_links.push(old);
                        classes.push("peer-comes-back-under-its-identity".into());
                        if recv.is_none() && classes.iter().any(|c| c == "cancel-after-poll") {
                            classes.push("peer-comes-back-after-an-abandoned-recv".into());
                        }
                        collect!();
                    }
                    Op::PeerEnd(j) => {
                        if kind != Kind::Req && links.len() >= 2 {
                            let j = *j % links.len();
                            links[j].to_lib.end_after_all(crate::pipe::ReadEnd::Eof);
                            ended[j] = true;
                            classes.push("peer-ends-between-abandoned-recvs".into());
                        }
                    }
                    Op::TrySend => {
                        // (a reply to a requester whose connection has ended in the meantime has
                        // nowhere to go: not asserted)
                        let requester_gone = kind == Kind::Rep && got.last().and_then(|m| m.first()).and_then(|t| t.iter().position(|c| *c == b'-').and_then(|d| t.get(1..d)).and_then(|x| std::str::from_utf8(x).ok()).and_then(|x| x.parse::<usize>().ok())).map(|j| ended.get(j).copied().unwrap_or(false)).unwrap_or(false);
                        if kind == Kind::Rep && recv.is_none() && rep_owes_reply && requester_gone {
                            let a = sim.send(s, &[b"reply".to_vec()]);
                            let _ = sim.run(a).await;
                            rep_owes_reply = false;
                        }
                        if kind == Kind::Rep && recv.is_none() && rep_owes_reply {
                            // an abandoned recv must not have disturbed the pending reply
                            let before: usize = links.iter().map(|l| l.from_lib.tap_len()).sum();
                            let a = sim.send(s, &[b"reply".to_vec()]);
                            match sim.run(a).await {
                                Ok(Some(Out::Send(Ok(())))) if links.iter().map(|l| l.from_lib.tap_len()).sum::<usize>() > before => {
                                    classes.push("rep-reply-after-abandoned-recv".into());
                                }
                                other => {
                                    fail!(
                                        f,
                                        "C14/REP/abandoned-recv-disturbs-pending-reply",
                                        "a request was received, a further recv was started and abandoned; the reply must still be accepted: {:?}",
                                        other.map(|o| o.map(|o| format!("{:?}", o).chars().take(100).collect::<String>()))
                                    );
                                    return (f, classes);
                                }
                            }
                            rep_owes_reply = false;
                        }
                        if kind == Kind::Req && recv.is_none() && req_outstanding {
                            // the abandoned recv is still owed: a send must be refused
                            let before = links[0].from_lib.tap_len();
                            let m: Frames = vec![b"out-of-turn".to_vec()];
                            let a = sim.send(s, &m);
                            match sim.run(a).await {
                                Ok(Some(Out::Send(Err(e)))) if e.returned.as_ref() == Some(&m) && links[0].from_lib.tap_len() == before => {
                                    classes.push("req-send-refused-after-abandoned-recv".into());
                                }
                                other => {
                                    fail!(
                                        f,
                                        "C14/REQ/abandoned-recv-forgets-outstanding-request",
                                        "a recv for request #{} was abandoned; the next send must be refused (message handed back, nothing written) but: {:?}, {} bytes written",
                                        req_sent - 1,
                                        other.map(|o| o.map(|o| format!("{:?}", o).chars().take(100).collect::<String>())),
                                        links[0].from_lib.tap_len() - before
                                    );
                                    return (f, classes);
                                }
                            }
                        }
                    }
                }
            }
            // complete normally
            let mut guard = 0;
            loop {
                guard += 1;
                if guard > 500 {
                    fail!(f, format!("C14/{}/no-progress", who), "final drain does not finish");
                    break;
                }
                for l in &links {
                    l.to_lib.deliver_all();
                }
                if recv.is_none() {
                    if kind == Kind::Req {
                        req_next!();
                        if !req_outstanding {
                            break;
                        }
                    }
                    recv = Some(sim.recv(s));
                }
                // a reply deposited by req_next above is delivered too
                for l in &links {
                    l.to_lib.deliver_all();
                }
                if sim.settle().await.is_err() {
                    fail!(f, format!("C14/{}/spin", who), "does not settle");
                    break;
                }
                let a = recv.unwrap();
                if sim.done(a) {
                    collect!();
                    continue;
                }
                // pending with everything delivered
                if kind == Kind::Req && req_outstanding {
                    fail!(
                        f,
                        "C14/REQ/reply-lost-after-abandoned-recv",
                        "the reply to request #{} was fully delivered but recv stays pending",
                        req_sent - 1
                    );
                }
                sim.cancel(a);
                break;
            }
            // ---- oracle: nothing lost, duplicated or reordered
            let mut per_peer: Vec<Vec<Frames>> = vec![vec![]; n_peers];
            for m in &got {
                let body: Frames = if kind == Kind::Router { m.get(1..).map(|x| x.to_vec()).unwrap_or_default() } else { m.clone() };
                let mut placed = false;
                for (pi, ex) in expect.iter().enumerate() {
                    if ex.contains(&body) && (kind != Kind::Router || m[0] == ids[pi]) {
                        per_peer[pi].push(body.clone());
                        placed = true;
                        break;
                    }
                }
                if !placed {
                    fail!(f, format!("C14/{}/unattributable-message", who), "recv returned frames {:?} that no peer sent in this form", m.iter().map(|x| x.len()).collect::<Vec<_>>());
                }
            }
            for pi in 0..n_peers {
                let want: &Vec<Frames> = &expect[pi];
                let want = if kind == Kind::Req { &want[..req_sent.min(want.len())] } else { &want[..] };
                if per_peer[pi] != want {
                    let sig = if per_peer[pi].len() < want.len() { "message-lost-across-abandoned-recv" } else if per_peer[pi].len() > want.len() { "message-duplicated-across-abandoned-recv" } else { "messages-reordered-or-mispaired" };
                    fail!(
                        f,
                        format!("C14/{}/{}", who, sig),
                        "peer {}: {} messages returned by completed recv calls, {} were put on the wire (after {} abandoned recv calls)",
                        pi,
                        per_peer[pi].len(),
                        want.len(),
                        classes.iter().filter(|c| c.starts_with("cancel-")).count()
                    );
                }
            }
            if cancels_after_poll_with_partial > 0 {
                classes.push("cancel-after-poll-with-partial-message".into());
            }
            (f, classes)
        })
    });
    if let Some((f, classes)) = r {
        o.failures = f;
        let mut cl = classes;
        cl.sort();
        cl.dedup();
        o.nontrivial = cl.iter().any(|c| c == "cancel-after-poll-with-partial-message");
        o.classes.extend(cl);
    }
    for p in panics {
        o.fail(format!("C14/panic/{}", panic_sig(&p)), format!("{}: {}", c.kind.name(), p));
    }
    o
}

fn gen_cancel(s: &mut Src<'_>) -> CancelCase {
    let kind = s.pick(&KINDS);
    let np = if kind == Kind::Req { 1 } else { s.range(1, 3) };
    let long_run = s.chance(1, 8);
    let peers: Vec<Vec<Vec<usize>>> = (0..np)
        .map(|_| {
            let nm = if long_run { s.range(15, 40) } else { s.range(1, 4) };
            (0..nm)
                .map(|_| {
                    let nf = if kind == Kind::XPub { 1 } else { s.range(1, 4) };
                    (0..nf)
                        .map(|_| match if long_run { 0 } else { s.weighted(&[4, 3, 1]) } {
                            0 => s.range(0, 10),
                            1 => s.range(10, 300),
                            _ => s.range(300, 12_000),
                        })
                        .collect()
                })
                .collect()
        })
        .collect();
    let n = if long_run { s.range(60, 200) } else { s.range(5, 60) };
    let with_rejoin = kind != Kind::Req && s.chance(1, 4);
    let ops = (0..n)
        .map(|_| match s.weighted(&[6, 6, 3, 2, 1, 1, if with_rejoin { 2 } else { 0 }, if with_rejoin { 4 } else { 1 }]) {
            0 => Op::Deliver(s.below(np), if long_run { s.pick(&[0usize, 0, 40, 9]) } else { s.pick(&[1usize, 1, 2, 3, 9, 40, 0]) }),
            1 => Op::Poll(s.range(1, 3)),
            2 => Op::Cancel,
            3 => Op::TrySend,
            4 => Op::Start,
            5 => Op::PeerEnd(s.below(3)),
            6 => Op::Rejoin(s.below(np)),
            _ => Op::DeliverMsg(s.below(np)),
        })
        .collect();
    CancelCase { kind, peers, ops }
}

/// A well-formed COMMAND frame (a redundant READY - the one command the codec accepts after the
/// handshake) arrives while a recv is pending. Whatever the socket does with it - skip it and keep
/// waiting, or end the call with an error - a recv that is still pending afterwards and is then
/// dropped must leave everything as it was: REQ still owes the reply of its outstanding request,
/// and the message that arrives next is returned by the next recv.
#[derive(Debug, Clone, Serialize, Deserialize, PartialEq, Eq, Hash)]
pub struct CmdCase {
    pub kind: Kind,
    /// polls of the recv before the first command byte arrives (0 = the recv is created after)
    pub polls_before: usize,
    /// number of command frames
    pub commands: usize,
    /// the command bytes arrive in two parts, the first of this many bytes (0 = in one piece),
    /// with a poll in between
    pub split: usize,
    /// polls (only when woken) after everything has arrived
    pub polls_after: usize,
}

pub fn cmd_outcome(c: &CmdCase) -> Outcome {
    let mut o = Outcome::new(hash_of(c));
    o.class(format!("kind-{}", c.kind.name()));
    o.class("command-frame-while-recv-pending");
    let c2 = c.clone();
    let (r, panics) = capture_panics(|| {
        run_sim(async move {
            let c = c2;
            let kind = c.kind;
            let who = kind.name();
            let mut f: Vec<Failure> = vec![];
            let mut classes: Vec<String> = vec![];
            let mut sim = Sim::new();
            let s = sim.socket(kind, None);
            let (link, _id) = match simx::attach_raw(&mut sim, s, None).await {
                Ok(x) => x,
                Err(e) => {
                    fail!(f, format!("C14/{}/setup", who), "{}", e);
                    return (f, classes);
                }
            };
            if kind == Kind::Req {
                let a = sim.send(s, &[b"q0".to_vec()]);
                match sim.run(a).await {
                    Ok(Some(Out::Send(Ok(())))) => {}
                    other => {
                        fail!(f, "C14/REQ/in-turn-send-refused", "request 0: {:?}", other);
                        return (f, classes);
                    }
                }
            }
            let mut cmd = vec![];
            for _ in 0..c.commands.max(1) {
                cmd.extend_from_slice(&refcodec::encode_ready(kind.a_compatible_peer(), None));
            }
            let mut recv: Option<usize> = None;
            if c.polls_before > 0 {
                let a = sim.recv(s);
                for _ in 0..c.polls_before {
                    if sim.done(a) || !(sim.polls(a) == 0 || sim.woken(a)) {
                        break;
                    }
                    sim.poll(a);
                }
                recv = Some(a);
            }
            link.to_lib.deposit(&cmd);
            if c.split > 0 && c.split < cmd.len() {
                link.to_lib.deliver(c.split);
                if let Some(a) = recv {
                    if sim.woken(a) {
                        sim.poll(a);
                    }
                }
            }
            link.to_lib.deliver_all();
            let a = match recv {
                Some(a) => a,
                None => sim.recv(s),
            };
            for _ in 0..c.polls_after.max(1) {
                if sim.done(a) || !(sim.polls(a) == 0 || sim.woken(a)) {
                    break;
                }
                sim.poll(a);
            }
            if sim.done(a) {
                match sim.take(a) {
                    Some(Out::Recv(Ok(m))) => {
                        fail!(f, format!("C14/{}/message-invented", who), "no message was sent, only a command frame, but recv returned {} frames", m.len());
                    }
                    _ => {
                        // the call completed (with an error): nothing was abandoned
                        classes.push("command-frame-ended-the-call".into());
                    }
                }
                return (f, classes);
            }
            // still pending after the command frame(s) went by: abandon it
            sim.cancel(a);
            classes.push("recv-abandoned-after-a-skipped-command-frame".into());
            if kind == Kind::Req {
                let before = link.from_lib.tap_len();
                let m: Frames = vec![b"out-of-turn".to_vec()];
                let t = sim.send(s, &m);
                match sim.run(t).await {
                    Ok(Some(Out::Send(Err(e)))) if e.returned.as_ref() == Some(&m) && link.from_lib.tap_len() == before => {}
                    other => {
                        fail!(
                            f,
                            "C14/REQ/abandoned-recv-forgets-outstanding-request",
                            "a recv for request #0 went on waiting after a command frame and was then abandoned; the next send must be refused (message handed back, nothing written) but: {:?}, {} bytes written",
                            other.map(|o| o.map(|o| format!("{:?}", o).chars().take(100).collect::<String>())),
                            link.from_lib.tap_len() - before
                        );
                        return (f, classes);
                    }
                }
            }
            // the message (REQ: the reply of request 0) arrives now: the next recv returns it
            let lens = if kind == Kind::XPub { vec![9usize] } else { vec![3usize, 0, 5] };
            let (w, e) = wire_and_expect(kind, 0, 0, &lens, false);
            link.raw_send_now(&w);
            let a = sim.recv(s);
            match sim.run(a).await {
                Ok(Some(Out::Recv(Ok(m)))) => {
                    let body: Frames = if kind == Kind::Router { m.get(1..).map(|x| x.to_vec()).unwrap_or_default() } else { m.clone() };
                    if Some(&body) != e.as_ref() {
                        fail!(f, format!("C14/{}/message-lost-across-abandoned-recv", who), "the message sent after the abandoned recv came back as {} frames, not as sent", m.len());
                    }
                }
                other => {
                    fail!(
                        f,
                        format!("C14/{}/message-lost-across-abandoned-recv", who),
                        "a recv was abandoned after a command frame; the message that arrived next must be returned by the next recv: {:?}",
                        other.map(|o| o.map(|o| format!("{:?}", o).chars().take(100).collect::<String>()))
                    );
                }
            }
            (f, classes)
        })
    });
    if let Some((f, classes)) = r {
        o.failures = f;
        for cl in classes {
            o.class(cl);
        }
    }
    o.nontrivial = true;
    for p in panics {
        o.fail(format!("C14/panic/{}", panic_sig(&p)), p);
    }
    o
}

pub fn run(ctx: &Ctx) -> (Report, PropertyMeta) {
    let mut report = Report::default();
    let t = ctx.tier;
    {
        let mut cc = vec![];
        for kind in KINDS {
            for polls_before in 0..=2usize {
                for commands in [1usize, 2, 3] {
                    for split in [0usize, 1, 2, 9] {
                        for polls_after in 1..=3usize {
                            cc.push(CmdCase { kind, polls_before, commands, split, polls_after });
                        }
                    }
                }
            }
        }
        let r = run_cases(ctx, "cmd", &cc, cmd_outcome);
        report.exhaustive_parts.push(format!("7 socket types x 1..3 redundant READY command frames arriving (whole / cut after 1, 2, 9 bytes) while a recv is pending (polled 0..2 times before, 1..3 times after); a recv still pending afterwards is dropped, REQ must refuse the next send, the message sent next must be returned: {} cases", cc.len()));
        report.merge(r);
    }
    // exhaustive: one 3-frame message; every delivery prefix x every number of polls <= 4,
    // then cancel, then (REQ) an out-of-turn send, then complete
    let mut cases = vec![];
    for kind in KINDS {
        let lens = if kind == Kind::XPub { vec![9usize] } else { vec![3usize, 0, 5] };
        let (w, _) = wire_and_expect(kind, 0, 0, &lens, false);
        let total = refcodec::encode_message(&w).len();
        for prefix in 0..=total {
            for k in 0..=4usize {
                for second_cancel in [false, true] {
                    let mut ops = vec![];
                    if prefix > 0 {
                        ops.push(Op::Deliver(0, prefix));
                    }
                    if k > 0 {
                        ops.push(Op::Poll(k));
                    } else {
                        ops.push(Op::Start);
                    }
                    ops.push(Op::Cancel);
                    ops.push(Op::TrySend);
                    if second_cancel {
                        ops.push(Op::Deliver(0, 1));
                        ops.push(Op::Poll(1));
                        ops.push(Op::Cancel);
                        ops.push(Op::TrySend);
                    }
                    cases.push(CancelCase { kind, peers: vec![vec![lens.clone(), vec![2]]], ops });
                }
            }
        }
    }
    // long runs: 70 available messages, every recv polled ONCE and then dropped if it has not
    // completed (behaviour that depends on how many messages went before - batching, periodic
    // yields - shows only after dozens of calls)
    for kind in KINDS {
        for polls in [1usize, 2] {
            let lens = if kind == Kind::XPub { vec![9usize] } else { vec![2usize] };
            let mut ops = vec![Op::Deliver(0, 0), Op::Deliver(1, 0)];
            for _ in 0..90 {
                ops.push(Op::Poll(polls));
                ops.push(Op::Cancel);
            }
            let peers = if kind == Kind::Req { vec![vec![lens.clone(); 70]] } else { vec![vec![lens.clone(); 50], vec![lens.clone(); 20]] };
            cases.push(CancelCase { kind, peers, ops });
        }
    }
    // a peer comes back under its identity: with / without an abandoned recv just before, the
    // recv polled 1..3 times, after 0..2 of its 4 messages, next to a bystander
    for kind in KINDS {
        if kind == Kind::Req {
            continue;
        }
        let lens = if kind == Kind::XPub { vec![9usize] } else { vec![2usize, 0] };
        for before in 0..=2usize {
            for abandoned in [false, true] {
                for polls in 1..=3usize {
                    for pending_recv in [false, true] {
                        let mut ops = vec![];
                        for _ in 0..before {
                            ops.push(Op::DeliverMsg(0));
                            ops.push(Op::Poll(3));
                        }
                        if abandoned {
                            ops.push(Op::Poll(polls));
                            ops.push(Op::Cancel);
                        }
                        if pending_recv {
                            ops.push(Op::Poll(polls));
                        }
                        ops.push(Op::Rejoin(0));
                        ops.push(Op::DeliverMsg(0));
                        ops.push(Op::Poll(2));
                        ops.push(Op::DeliverMsg(1));
                        ops.push(Op::Poll(2));
                        cases.push(CancelCase { kind, peers: vec![vec![lens.clone(); 4], vec![lens.clone(); 2]], ops });
                    }
                }
            }
        }
    }
    let r = run_cases(ctx, "cancel", &cases, cancel_outcome);
    report.exhaustive_parts.push(format!("7 socket types x every delivery prefix of one 3-frame message x 0..4 polls before the drop x (one or two abandoned recv calls), REQ followed by an out-of-turn send: {} cases", cases.len()));
    report.merge(r);
    let n = t.pick(60_000, 1_000_000);
    let r = run_random(ctx, "cancel", n, 60..=300, gen_cancel, cancel_outcome);
    report.sections.push(json!({"part": "random scripts: 1..3 peers, byte-wise delivery, recv polled k times and dropped at generated points, repeatedly", "cases": n}));
    report.merge(r);

    if t == Tier::Thorough {
        crate::fuzzing::campaign(ctx, &mut report, "sim", 180);
    }
    let total = report.evaluations;
    health_abs(&mut report, "peer-comes-back-under-its-identity", 300);
    health_abs(&mut report, "peer-comes-back-after-an-abandoned-recv", 100);
    health(&mut report, "cancel-after-poll-with-partial-message", total, 200);
    health_abs(&mut report, "req-send-refused-after-abandoned-recv", 200);
    health(&mut report, "cancel-before-first-poll", total, 20);
    health_abs(&mut report, "peer-ends-between-abandoned-recvs", 300);

    let meta = PropertyMeta {
        level: "exploration",
        rule: "every socket type with recv (PULL, SUB, DEALER, ROUTER, REP, XPUB, REQ) with scripted raw peers whose bytes are delivered in generated portions; the application issues recv, the schedule polls it k times (only when new or woken, as an executor would) and DROPS the future at a generated point, repeatedly, then receives normally. Exhaustive: one 3-frame message, every delivery prefix x 0..4 polls x one or two abandoned calls. Oracle: the concatenation of the results of completed recv calls equals, per peer, exactly the messages put on the wire (nothing lost, duplicated, reordered; ROUTER prefix / REP envelope undone). REQ: after an abandoned recv the reference machine is still Awaiting - a send must be refused with the message handed back and nothing written, and the next recv must return the reply to the outstanding request. Non-trivial = a cancellation after at least one poll with a partially delivered message; distinct by case".into(),
        assumptions: vec!["cancellation points are the suspension points reachable through pipe reads (every await in recv sits on the per-connection reader)".into()],
        exhaustive: false,
    };
    (report, meta)
}

pub fn replay(_ctx: &Ctx, kind: &str, case: &Value) -> Vec<Failure> {
    match kind {
        "cancel" => parse_case::<CancelCase>(case).map(|c| cancel_outcome(&c).failures),
        "cmd" => parse_case::<CmdCase>(case).map(|c| cmd_outcome(&c).failures),
        _ => Err(vec![Failure::new("replay/unknown-kind", kind.to_string())]),
    }
    .unwrap_or_else(|e| e)
}

pub fn gen_cancel_pub(s: &mut Src<'_>) -> CancelCase {
    gen_cancel(s)
}
