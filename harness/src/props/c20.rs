//! C20 — a stalled or malicious handshake never blocks other connections.

use crate::core::*;
use crate::fail;
use crate::props::parse_case;
use crate::realnet::{self, eventually, RawConn, Transport, LIMIT};
use crate::refcodec;
use crate::sim::{AnySocket, Kind, ALL_KINDS};

use serde::{Deserialize, Serialize};
use serde_json::{json, Value};
use std::time::Duration;
use zeromq::SocketEvent;

#[derive(Debug, Clone, Copy, Serialize, Deserialize, PartialEq, Eq, Hash)]
pub enum Then {
    Hold,
    Close,
    /// bytes that cannot continue a valid handshake
    Garbage,
    /// a COMPLETE greeting + READY that is well-formed but must be refused (`offset % 8`; 6 / 7 = an
    /// incompatible / unknown Socket-Type together with the ESTABLISHED peer's Identity; 0 =
    /// unknown Socket-Type, 1 = ZMTP version 2.1, 2 = unknown mechanism, 3 = 256-byte identity,
    /// 4 / 5 = an intact Socket-Type property followed by garbage inside the READY frame)
    Invalid,
    /// a complete, valid greeting and then, where READY is due, the 9-byte header of a command
    /// frame declaring 2^50 (even offset) or 2^63 + 1 (odd offset) bytes - and nothing more: a
    /// client that stalls inside a frame it has only announced. Nobody else may notice.
    Huge,
    /// the client is gone before the listener has taken it from the backlog (byte offset 0):
    /// connect and close with no await in between - on TCP with SO_LINGER 0 (an RST while the
    /// connection waits in the accept queue; even offset) or orderly (odd offset, and always on
    /// IPC). One failed handshake like any other.
    Abort,
}

#[derive(Debug, Clone, Serialize, Deserialize, PartialEq, Eq, Hash)]
pub struct Staller {
    /// bytes of a valid greeting+READY sent before stopping
    pub offset: usize,
    pub then: Then,
}

/// identity the established peer announces when a refused handshake is going to present it too
pub const EST_IDENTITY: &[u8] = b"established-peer";

#[derive(Debug, Clone, Serialize, Deserialize, PartialEq, Eq, Hash)]
pub struct StallCase {
    pub kind: Kind,
    pub transport: Transport,
    pub stallers: Vec<Staller>,
}

fn drain_events(rx: &mut futures::channel::mpsc::Receiver<SocketEvent>, accepted: &mut usize, failed: &mut usize) {
    while let Ok(Some(ev)) = rx.try_next() {
        match ev {
            SocketEvent::Accepted(..) => *accepted += 1,
            SocketEvent::AcceptFailed(_) => *failed += 1,
            _ => {}
        }
    }
}

pub fn stall_outcome(c: &StallCase) -> Outcome {
    let mut o = Outcome::new(hash_of(c));
    o.nontrivial = c.stallers.iter().any(|s| s.then == Then::Hold) || !c.stallers.is_empty();
    if c.stallers.iter().any(|s| s.then == Then::Hold) {
        o.class("staller-holding-while-others-connect");
    }
    if c.stallers.iter().any(|s| s.then == Then::Garbage) {
        o.class("garbage");
    }
    if c.stallers.iter().any(|s| s.then == Then::Close) {
        o.class("close-mid-handshake");
    }
    if c.stallers.iter().any(|s| s.then == Then::Invalid) {
        o.class("complete-but-invalid-handshake");
    }
    o.class(match c.stallers.first().map(|s| s.offset).unwrap_or(0) % 3 {
        0 => "monitor-installed-before-bind",
        1 => "monitor-installed-after-bind",
        _ => "monitor-replaced-after-bind",
    });
    if c.stallers.iter().any(|s| s.then == Then::Abort) {
        o.class("gone-before-accept");
    }
    if c.stallers.iter().any(|s| s.then == Then::Huge) {
        o.class("stalls-inside-an-announced-huge-frame");
    }
    if c.stallers.len() >= 64 {
        o.class("dozens-of-simultaneous-stallers");
    }
    let c2 = c.clone();
    let (r, panics) = capture_panics(|| {
        realnet::run_net(async move {
            let c = c2;
            let kind = c.kind;
            let who = kind.name();
            let mut f: Vec<Failure> = vec![];
            let mut s = AnySocket::new(kind, None);
            // when the monitor is installed (it may be installed or replaced at any time): before
            // the bind, only after it, or before it and replaced after it
            let monitor_mode = c.stallers.first().map(|s| s.offset).unwrap_or(0) % 3;
            let mut monitor = if monitor_mode != 1 { Some(realnet::sock_monitor(&mut s)) } else { None };
            let ep = match realnet::sock_bind(&mut s, &c.transport.bind_text()).await {
                Ok(e) => e.to_string(),
                Err(e) => {
                    fail!(f, format!("C20/{}/setup-bind", who), "{:?}", e);
                    return f;
                }
            };
            if monitor_mode != 0 {
                monitor = Some(realnet::sock_monitor(&mut s));
            }
            let mut monitor = monitor.expect("monitor installed");
            let peer_type = kind.a_compatible_peer();
            let mut accepted = 0usize;
            let mut failed = 0usize;
            let mut want_accepted = 0usize;
            let do_exchange = kind != Kind::Req;
            // established peer
            // (when a client is going to present a refused handshake under the established
            // peer's identity, the established peer announces one)
            let est_identity: Option<&[u8]> = if c.stallers.iter().any(|s| s.then == Then::Invalid && s.offset % 8 >= 6) { Some(EST_IDENTITY) } else { None };
            let mut est: RawConn = match realnet::raw_connect(&ep).await {
                Ok(mut rc) => match rc.handshake(peer_type, est_identity).await {
                    Ok(()) => rc,
                    Err(e) => {
                        fail!(f, format!("C20/{}/setup", who), "{}", e);
                        return f;
                    }
                },
                Err(e) => {
                    fail!(f, format!("C20/{}/setup", who), "{}", e);
                    return f;
                }
            };
            want_accepted += 1;
            if do_exchange {
                if let Err(e) = realnet::exchange(&mut s, kind, &mut est, "e0").await {
                    fail!(f, format!("C20/{}/setup-exchange", who), "{}", e);
                    return f;
                }
            }
            // stallers connect and stop
            let hs = refcodec::handshake_bytes(peer_type, None);
            let mut stallers: Vec<(RawConn, Staller)> = vec![];
            let mut aborted = 0usize;
            for st in &c.stallers {
                if st.then == Then::Abort {
                    match realnet::abort_connect(&ep, st.offset % 2 == 0) {
                        Ok(()) => aborted += 1,
                        Err(e) => {
                            fail!(f, format!("C20/{}/listener-stopped-accepting", who), "a further connection was refused: {}", e);
                            return f;
                        }
                    }
                    continue;
                }
                match realnet::raw_connect(&ep).await {
                    Ok(mut rc) => {
                        let k = if matches!(st.then, Then::Invalid | Then::Huge) { 0 } else { st.offset.min(hs.len() - 1) };
                        let _ = rc.write(&hs[..k]).await;
                        stallers.push((rc, st.clone()));
                    }
                    Err(e) => {
                        fail!(f, format!("C20/{}/listener-stopped-accepting", who), "a further connection was refused while {} stalled clients are connected: {}", stallers.len(), e);
                        return f;
                    }
                }
            }
            tokio::time::sleep(Duration::from_millis(3)).await;
            // a well-behaved client connects DURING the stall
            let n_holding = stallers.len();
            let mut during: Option<RawConn> = None;
            match tokio::time::timeout(LIMIT, async {
                let mut rc = realnet::raw_connect(&ep).await.map_err(|e| format!("connect: {}", e))?;
                rc.handshake(peer_type, None).await?;
                Ok::<RawConn, String>(rc)
            })
            .await
            {
                Ok(Ok(rc)) => {
                    want_accepted += 1;
                    during = Some(rc);
                }
                Ok(Err(e)) => fail!(f, format!("C20/{}/well-behaved-client-blocked-by-stalled-handshake", who), "with {} clients stalled mid-handshake (offsets {:?}) a well-behaved client failed: {}", n_holding, c.stallers.iter().map(|s| s.offset).collect::<Vec<_>>(), e),
                Err(_) => fail!(f, format!("C20/{}/well-behaved-client-blocked-by-stalled-handshake", who), "with {} clients stalled mid-handshake (offsets {:?}) a well-behaved client did not complete its handshake within {:?}", n_holding, c.stallers.iter().map(|s| s.offset).collect::<Vec<_>>(), LIMIT),
            }
            if do_exchange {
                if let Some(d) = during.as_mut() {
                    if let Err(e) = realnet::exchange(&mut s, kind, d, "d1").await {
                        fail!(f, format!("C20/{}/new-peer-cannot-exchange-while-others-stall", who), "{}", e);
                    }
                }
                // established traffic is not interrupted
                if let Err(e) = realnet::exchange(&mut s, kind, &mut est, "e1").await {
                    fail!(f, format!("C20/{}/established-traffic-interrupted", who), "{}", e);
                }
            }
            // no premature events for clients that are merely holding
            drain_events(&mut monitor, &mut accepted, &mut failed);
            if failed > aborted {
                fail!(f, format!("C20/{}/accept-failure-reported-for-a-client-that-is-only-slow", who), "{} AcceptFailed events while all stallers ({} of them already gone) are still connected and silent", failed, aborted);
            }
            // stallers act
            let mut want_failed = aborted;
            for (rc, st) in stallers.iter_mut() {
                match st.then {
                    Then::Hold => {}
                    Then::Close => {}
                    Then::Abort => {}
                    Then::Garbage => {
                        // bytes that, whatever was sent before, can only end in a refusal: zeros
                        // up to the end of the greeting (bad signature / version 0 / empty
                        // mechanism, or - from offset 16 on - a valid greeting) followed by a
                        // MESSAGE frame where READY is due; inside READY, zeros to the end of the
                        // declared frame (empty command / empty name / corrupted Socket-Type)
                        let k = st.offset.min(hs.len() - 1);
                        let g: Vec<u8> = if k < 64 {
                            let mut g = vec![0u8; 64 - k];
                            g.extend_from_slice(&[0x00, 0x01, 0x41]);
                            g
                        } else {
                            vec![0u8; hs.len() - k + 8]
                        };
                        let _ = rc.write(&g).await;
                        want_failed += 1;
                    }
                    Then::Huge => {
                        let mut bytes = refcodec::RefGreeting::valid_null().encode();
                        bytes.push(0x06);
                        let declared: u64 = if st.offset % 2 == 0 { 1 << 50 } else { (1 << 63) + 1 };
                        bytes.extend_from_slice(&declared.to_be_bytes());
                        let _ = rc.write(&bytes).await;
                    }
                    Then::Invalid => {
                        let mut g = refcodec::RefGreeting::valid_null();
                        let mut ty = peer_type.to_string();
                        let mut identity: Option<Vec<u8>> = None;
                        let mut tail: Vec<u8> = vec![];
                        match st.offset % 8 {
                            0 => ty = "BOGUS".into(),
                            1 => g.version = (2, 1),
                            2 => g.mechanism = b"GSSAPI".to_vec(),
                            3 => identity = Some(vec![b'i'; 256]),
                            // an intact Socket-Type property, then garbage inside the READY frame
                            4 => tail = vec![0xFF; 7],
                            5 => tail = vec![3, b'a', b'b'],
                            // a well-formed READY of a known but INCOMPATIBLE type (the socket's
                            // own type is compatible with itself only for DEALER / ROUTER, which
                            // get PUB) that announces the ESTABLISHED peer's identity: refusing
                            // it must not touch the peer registered under that identity
                            6 => {
                                ty = if matches!(kind, Kind::Dealer | Kind::Router | Kind::Pub | Kind::XPub) { "PUB".into() } else { kind.name().to_string() };
                                identity = Some(EST_IDENTITY.to_vec());
                            }
                            // ... and the same with an unknown type
                            _ => {
                                ty = "BOGUS".into();
                                identity = Some(EST_IDENTITY.to_vec());
                            }
                        }
                        let mut bytes = g.encode();
                        if tail.is_empty() {
                            bytes.extend_from_slice(&refcodec::encode_ready(&ty, identity.as_deref()));
                        } else {
                            let mut body = vec![5u8];
                            body.extend_from_slice(b"READY");
                            body.push(11);
                            body.extend_from_slice(b"Socket-Type");
                            body.extend_from_slice(&(ty.len() as u32).to_be_bytes());
                            body.extend_from_slice(ty.as_bytes());
                            body.extend_from_slice(&tail);
                            refcodec::encode_frame(&mut bytes, &body, false, true);
                        }
                        let _ = rc.write(&bytes).await;
                        want_failed += 1;
                    }
                }
            }
            let mut kept: Vec<RawConn> = vec![];
            let mut after: Option<RawConn> = None;
            for (rc, st) in stallers.into_iter() {
                match st.then {
                    Then::Close => {
                        drop(rc);
                        want_failed += 1;
                    }
                    _ => kept.push(rc),
                }
            }
            // each failed handshake is reported exactly once
            let ok = eventually(LIMIT, || {
                drain_events(&mut monitor, &mut accepted, &mut failed);
                failed >= want_failed
            })
            .await;
            if !ok {
                fail!(f, format!("C20/{}/failed-handshake-not-reported-to-monitor", who), "{} handshakes failed (closed or garbage), the monitor reported {} AcceptFailed events within {:?}", want_failed, failed, LIMIT);
            }
            tokio::time::sleep(Duration::from_millis(5)).await;
            drain_events(&mut monitor, &mut accepted, &mut failed);
            if failed > want_failed {
                fail!(f, format!("C20/{}/failed-handshake-reported-more-than-once", who), "{} handshakes failed, {} AcceptFailed events", want_failed, failed);
            }
            // a well-behaved client AFTER
            match tokio::time::timeout(LIMIT, async {
                let mut rc = realnet::raw_connect(&ep).await.map_err(|e| format!("connect: {}", e))?;
                rc.handshake(peer_type, None).await?;
                Ok::<RawConn, String>(rc)
            })
            .await
            {
                Ok(Ok(mut rc)) => {
                    want_accepted += 1;
                    if do_exchange {
                        if let Err(e) = realnet::exchange(&mut s, kind, &mut rc, "a2").await {
                            fail!(f, format!("C20/{}/peer-set-disturbed-by-failed-handshakes", who), "a client that connected after the failed handshakes cannot exchange a message: {}", e);
                        }
                    }
                    after = Some(rc);
                }
                other => fail!(f, format!("C20/{}/well-behaved-client-blocked-after-failed-handshakes", who), "{:?}", other.map(|r| r.map(|_| ()))),
            }
            // ... and the peer that was established before all this still exchanges: a refused
            // or broken handshake touches nobody else's registration
            if do_exchange {
                if let Err(e) = realnet::exchange(&mut s, kind, &mut est, "e2").await {
                    fail!(f, format!("C20/{}/established-peer-disturbed-by-failed-handshakes", who), "{}", e);
                }
            }
            // the peer set contains exactly the well-behaved clients
            let ok = eventually(Duration::from_secs(2), || {
                drain_events(&mut monitor, &mut accepted, &mut failed);
                accepted >= want_accepted
            })
            .await;
            if !ok || accepted != want_accepted {
                fail!(f, format!("C20/{}/accepted-events-differ-from-well-behaved-clients", who), "{} clients completed a handshake, the monitor reported {} Accepted events", want_accepted, accepted);
            }
            // round-robin senders: the rotation is exactly the well-behaved clients - with the
            // stallers that are still holding connected, 2n sends reach each of the n clients
            // exactly twice and none fails
            if matches!(kind, Kind::Push | Kind::Dealer) && f.is_empty() {
                use zeromq::SocketSend;
                let mut good: Vec<&mut RawConn> = vec![&mut est];
                if let Some(d) = during.as_mut() {
                    good.push(d);
                }
                if let Some(a) = after.as_mut() {
                    good.push(a);
                }
                let n = good.len();
                let mut failed_sends = 0;
                for i in 0..2 * n {
                    if tokio::time::timeout(LIMIT, s.send(crate::sim::to_msg(&[format!("fan-{}", i).into_bytes()]))).await.map(|r| r.is_err()).unwrap_or(true) {
                        failed_sends += 1;
                    }
                }
                // count the fan-out messages only (earlier exchanges may still have copies in flight)
                let fan = |c: &RawConn| c.messages().iter().filter(|m| m.first().map(|t| t.starts_with(b"fan-")).unwrap_or(false)).count();
                let start = std::time::Instant::now();
                while start.elapsed() < Duration::from_millis(1500) && good.iter().map(|c| fan(c)).sum::<usize>() < 2 * n {
                    for c in good.iter_mut() {
                        let _ = c.read_some(Duration::from_millis(5)).await;
                    }
                }
                let got: Vec<usize> = good.iter().map(|c| fan(c)).collect();
                if failed_sends > 0 || got.iter().any(|g| *g != 2) {
                    fail!(f, format!("C20/{}/rotation-includes-something-else-than-the-admitted-peers", who), "{} admitted peers, {} sends: {} failed, the peers received {:?} (expected 2 each); {} clients are still stalled mid-handshake", n, 2 * n, failed_sends, got, kept.len());
                }
            }
            // a client that never completed its handshake has been sent nothing but handshake bytes
            for (i, rc) in kept.iter_mut().enumerate() {
                while let Some(Ok(n)) = rc.read_some(Duration::from_millis(if c.stallers.len() > 8 { 1 } else { 10 })).await {
                    if n == 0 {
                        break;
                    }
                }
                let p = refcodec::parse_stream(&rc.inbuf, refcodec::Strictness::EMITTED_WITH_GREETING);
                let msgs = p.items.iter().filter(|it| matches!(it, refcodec::RefItem::Message(_))).count();
                if msgs > 0 {
                    fail!(f, format!("C20/{}/application-message-sent-to-a-peer-that-never-completed-its-handshake", who), "stalled client #{} received {} message(s)", i, msgs);
                }
            }
            drop(kept);
            drop(after);
            drop(during);
            drop(est);
            let _ = realnet::sock_close(s).await;
            f
        })
    });
    if let Some(f) = r {
        o.failures = f;
    }
    for p in panics {
        o.fail(format!("C20/panic/{}", panic_sig(&p)), p);
    }
    o
}

pub fn run(ctx: &Ctx) -> (Report, PropertyMeta) {
    let mut report = Report::default();
    let t = ctx.tier;
    let mut ctx1 = ctx.clone();
    ctx1.threads = 1;
    let ctx = &ctx1;
    let mut cases = vec![];
    let kinds: Vec<Kind> = match t {
        Tier::Quick => vec![Kind::Rep, Kind::Pub, Kind::Router, Kind::Pull, Kind::Dealer],
        Tier::Thorough => ALL_KINDS.to_vec(),
    };
    for kind in &kinds {
        let hs_len = refcodec::handshake_bytes(kind.a_compatible_peer(), None).len();
        let offsets: Vec<usize> = match t {
            Tier::Quick => vec![0, 1, 9, 10, 11, 12, 13, 16, 32, 63, 64, 65, 66, 67, 72, 73, 85, hs_len - 2, hs_len - 1],
            Tier::Thorough => (0..hs_len).collect(),
        };
        for transport in [Transport::TcpV4, Transport::Ipc] {
            for o in &offsets {
                for then in [Then::Hold, Then::Close] {
                    cases.push(StallCase { kind: *kind, transport, stallers: vec![Staller { offset: *o, then }] });
                }
                cases.push(StallCase { kind: *kind, transport, stallers: vec![Staller { offset: *o, then: Then::Garbage }] });
            }
            for v in 0..8 {
                cases.push(StallCase { kind: *kind, transport, stallers: vec![Staller { offset: v, then: Then::Invalid }] });
            }
            for v in 0..2 {
                cases.push(StallCase { kind: *kind, transport, stallers: vec![Staller { offset: v, then: Then::Huge }] });
            }
            // gone before accept: reset / orderly, alone and three in a row next to a holder
            for v in 0..2 {
                cases.push(StallCase { kind: *kind, transport, stallers: vec![Staller { offset: v, then: Then::Abort }] });
            }
            cases.push(StallCase {
                kind: *kind,
                transport,
                stallers: vec![Staller { offset: 0, then: Then::Abort }, Staller { offset: 11, then: Then::Hold }, Staller { offset: 1, then: Then::Abort }, Staller { offset: 2, then: Then::Abort }],
            });
        }
    }
    // MANY simultaneous stallers (any fixed bound on pending handshakes starves everybody else)
    for (kind, transport, n) in [(Kind::Rep, Transport::TcpV4, 70usize), (Kind::Pull, Transport::Ipc, 70), (Kind::Router, Transport::TcpV4, 300), (Kind::Pub, Transport::Ipc, 300)] {
        let hs_len = refcodec::handshake_bytes(kind.a_compatible_peer(), None).len();
        let stallers = (0..n).map(|i| Staller { offset: [0usize, 11, 64, 70][i % 4].min(hs_len - 1), then: Then::Hold }).collect();
        cases.push(StallCase { kind, transport, stallers });
    }
    let r = run_cases(ctx, "stall", &cases, stall_outcome);
    report.exhaustive_parts.push(format!(
        "{} socket types x {{TCP, IPC}} x one staller at {} x {{hold, close, garbage}} + 4 complete-but-invalid handshakes: {} cases",
        kinds.len(),
        if t == Tier::Quick { "19 offsets {0,1,9..13,16,32,63..67,72,73,85,last-2,last-1}" } else { "every byte offset of greeting+READY" },
        cases.len()
    ));
    report.merge(r);
    let n = t.pick(60, 2000);
    let r = run_random(
        ctx,
        "stall",
        n,
        12..=24,
        |s| {
            let kind = s.pick(&ALL_KINDS);
            let hs_len = refcodec::handshake_bytes(kind.a_compatible_peer(), None).len();
            let k = if s.chance(1, 25) { s.range(60, 140) } else { s.range(1, 4) };
            let stallers = (0..k)
                .map(|_| {
                    let offset = s.below(hs_len);
                    let then = s.pick(&[Then::Hold, Then::Hold, Then::Close, Then::Garbage, Then::Garbage, Then::Invalid, Then::Huge, Then::Abort]);
                    Staller { offset, then }
                })
                .collect();
            StallCase {
                kind,
                transport: s.pick(&[Transport::TcpV4, Transport::TcpV6, Transport::Ipc]),
                stallers,
            }
        },
        stall_outcome,
    );
    report.sections.push(json!({"part": "random: every socket type, 1..4 simultaneous stallers at random offsets", "cases": n}));
    report.merge(r);
    realnet::cleanup_scratch();

    let total = report.evaluations;
    health(&mut report, "staller-holding-while-others-connect", total, 200);

    let meta = PropertyMeta {
        level: "fault_enumeration",
        rule: "real bound sockets on TCP and IPC with a monitor installed; 1..4 raw clients (and, in a few cases, 60..300 at once) send a prefix of a valid greeting+READY (enumerated offsets for one staller, random for several) and then hold, close, or send bytes that cannot continue a handshake (at EVERY offset: zeros to the end of the greeting then a message frame where READY is due; inside READY zeros to the end of the declared frame), or announce a command frame of 2^50 / 2^63+1 bytes where READY is due and stall there, or send a complete but unacceptable handshake (unknown Socket-Type, ZMTP 2.1, unknown mechanism, 256-byte identity, garbage after an intact Socket-Type property, an incompatible or unknown Socket-Type presented under the ESTABLISHED peer's announced identity); one well-behaved client is established before, one connects while the stallers are still connected, one afterwards. Oracle: both later clients complete the handshake and a message exchange, and the established peer keeps exchanging, while the stallers hold; no AcceptFailed is reported for a client that is merely slow; each handshake that failed (closed / garbage) produces exactly one AcceptFailed; the number of Accepted events equals the number of well-behaved clients, a client connecting afterwards exchanges normally, PUSH/DEALER rotate over exactly the admitted clients (2n sends reach each of n clients twice while stallers are still connected), and a client that never completed its handshake is sent no application message (peer set undisturbed). Non-trivial = at least one staller; distinct by case".into(),
        assumptions: vec![
            "'never completes' is decided with a 5 s watchdog where a handshake needs ~1 ms; the runtime is single-threaded and otherwise idle".into(),
            "REQ sockets under test only complete handshakes (a message exchange needs a single peer)".into(),
        ],
        exhaustive: false,
    };
    (report, meta)
}

pub fn replay(_ctx: &Ctx, kind: &str, case: &Value) -> Vec<Failure> {
    let r = match kind {
        "stall" => parse_case::<StallCase>(case).map(|c| stall_outcome(&c).failures),
        _ => Err(vec![Failure::new("replay/unknown-kind", kind.to_string())]),
    }
    .unwrap_or_else(|e| e);
    realnet::cleanup_scratch();
    r
}
