#!/usr/bin/env python3
"""prints, for every relative generator-health gate, the measured permille in the current evidence file"""
import re,json,glob
for f in sorted(glob.glob('/verif/harness/src/props/c*.rs')):
    pid=re.search(r'c(\d+)\.rs',f).group(1); pid='C'+pid
    try: e=json.load(open(f'/verif/evidence/{pid}.json'))
    except Exception: continue
    cl=e.get('coverage',{}).get('classes',{}); total=e['coverage'].get('evaluations',0)
    fz=(e['coverage'].get('measures') or {}).get('fuzz_executions_unlabelled',0)
    for m in re.finditer(r'health\(&mut report, "([^"]+)", total, (\d+)\)',open(f).read()):
        c,th=m.group(1),int(m.group(2)); n=cl.get(c,0); of=max(total-fz,1)
        print(f"{pid} {e.get('tier','?'):8} {c:45} {1000*n/of:8.1f}‰ (gate {th}‰) {'  <-- TIGHT' if 1000*n/of < 1.5*th else ''}")
