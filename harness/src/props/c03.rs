//! C03 — bytes from a peer can never crash the process or force unbounded allocation.
//!
//! Runs in the supervised child process (see main.rs): an abort, a stack overflow or an
//! allocation bomb ends the child and is reported by the parent with the cases that were in
//! flight. Cases run on threads with deliberately small stacks so that stack use growing with a
//! peer-chosen frame count is caught well before it would take down a default 2 MiB thread.

use crate::alloc;
use crate::core::*;
use crate::fail;
use crate::hostile::{self, HostileSpec, Mutation};
use crate::libcodec;
use crate::pipe::ReadEnd;
use crate::props::parse_case;
use crate::refcodec;
use crate::sim::{run_sim, Frames, Kind, Out, Sim, ALL_KINDS};
use crate::simx;
use crate::streams;

use serde::{Deserialize, Serialize};
use serde_json::{json, Value};

pub const CODEC_STACK: usize = 256 << 10;
pub const SIM_STACK: usize = 512 << 10;

fn mem_bound(fed: usize) -> isize {
    (256 << 10) + 128 * fed as isize
}
fn req_bound(fed: usize) -> usize {
    (64 << 10) + 64 * fed
}

#[derive(Debug, Clone, Serialize, Deserialize, PartialEq, Eq, Hash)]
pub struct BytesCase {
    /// hex of the complete stream
    pub hex: String,
    /// read size (0 = everything available per read, still capped at 8 KiB by the reader)
    pub chunk: usize,
    pub eof: bool,
}

/// Codec-level oracle for one hostile byte string.
pub fn check_bytes(bytes: &[u8], chunk: usize, eof: bool) -> (Vec<Failure>, usize) {
    let mut f = vec![];
    let fed = bytes.len();
    let start = alloc::reset();
    let (r, panics) = capture_panics(|| {
        libcodec::framed_consume(
            bytes,
            if chunk == 0 { usize::MAX } else { chunk },
            if eof { Some(ReadEnd::Eof) } else { None },
            usize::MAX,
        )
    });
    let growth = alloc::peak() - start;
    let maxreq = alloc::max_request();
    for p in panics {
        fail!(f, format!("C03/panic/{}", panic_sig(&p)), "decoding {} hostile bytes panicked: {} (stream {})", fed, p, refcodec::brief(bytes));
    }
    if growth > mem_bound(fed) {
        fail!(
            f,
            "C03/memory/disproportionate-allocation",
            "peak heap grew by {} bytes while decoding {} bytes (bound 256 KiB + 128 x bytes fed): {}",
            growth,
            fed,
            refcodec::brief(bytes)
        );
    }
    if maxreq > req_bound(fed) {
        fail!(
            f,
            "C03/memory/disproportionate-allocation",
            "a single allocation request of {} bytes while decoding {} bytes: {}",
            maxreq,
            fed,
            refcodec::brief(bytes)
        );
    }
    (f, r.map(|x| x.0).unwrap_or(0))
}

fn bytes_outcome(c: &BytesCase) -> Outcome {
    let bytes = refcodec::unhex(&c.hex);
    bytes_outcome_raw(&bytes, c.chunk, c.eof)
}

fn classify(bytes: &[u8], o: &mut Outcome) {
    // non-trivial: reaches past the greeting check and contains a command frame, a long size
    // or >= 64 MORE frames
    if bytes.len() <= 64 || bytes[0] != 0xFF || bytes[9] != 0x7F {
        return;
    }
    let mut p = 64;
    let mut more = 0usize;
    let mut cmd = false;
    let mut long = false;
    while p < bytes.len() {
        let fl = bytes[p];
        if fl & 4 != 0 {
            cmd = true;
        }
        if fl & 1 != 0 {
            more += 1;
        }
        let (size, hdr) = if fl & 2 != 0 {
            long = true;
            if p + 9 > bytes.len() {
                break;
            }
            let mut b = [0u8; 8];
            b.copy_from_slice(&bytes[p + 1..p + 9]);
            (u64::from_be_bytes(b), 9usize)
        } else {
            if p + 2 > bytes.len() {
                break;
            }
            (bytes[p + 1] as u64, 2usize)
        };
        match (p + hdr).checked_add(size.min(usize::MAX as u64) as usize) {
            Some(n) if n <= bytes.len() => p = n,
            _ => break,
        }
    }
    if cmd {
        o.class("has-command-frame");
    }
    if long {
        o.class("has-long-size");
    }
    if more >= 64 {
        o.class("more-flood>=64");
    }
    o.nontrivial = cmd || long || more >= 64;
}

fn bytes_outcome_raw(bytes: &[u8], chunk: usize, eof: bool) -> Outcome {
    let mut o = Outcome::new(hash_of(&(bytes, chunk, eof)));
    classify(bytes, &mut o);
    let (f, _items) = check_bytes(bytes, chunk, eof);
    o.failures = f;
    o
}

/// A1: every string over the reduced alphabet up to `max_len` after a valid greeting.
fn exhaustive_after_greeting(ctx: &Ctx, max_len: usize) -> Report {
    let shards = ctx.threads.max(1);
    let g = hostile::valid_greeting();
    par_shards(shards, CODEC_STACK, |shard| {
        let mut rep = Report::default();
        let mut buf = g.clone();
        for len in 1..=max_len {
            let total = hostile::ALPHABET.len().pow(len as u32);
            let mut code = shard;
            while code < total {
                buf.truncate(64);
                buf.extend_from_slice(&hostile::alphabet_string(code, len));
                // breadcrumb only every 64 cases: a crash replays the neighbourhood
                if code % 64 == shard % 64 || len <= 2 {
                    crate::crumb::case("alphabet_block", &json!({"len": len, "from": code, "stride": shards, "count": 64}));
                }
                let o = bytes_outcome_raw(&buf, 0, true);
                if let Some(fl) = rep.record(ctx, &o) {
                    rep.violation(ctx, "bytes", &fl, json!({"hex": refcodec::hex(&buf), "chunk": 0, "eof": true}));
                }
                code += shards;
            }
        }
        rep
    })
}

/// A1b: every long-frame header whose 8 size bytes are drawn from {00,01,80,FF}, for the four
/// LONG flag bytes; only the header arrives (then EOF).
fn exhaustive_long_headers(ctx: &Ctx) -> Report {
    let shards = ctx.threads.max(1);
    let g = hostile::valid_greeting();
    const SYM: [u8; 4] = [0x00, 0x01, 0x80, 0xFF];
    par_shards(shards, CODEC_STACK, |shard| {
        let mut rep = Report::default();
        let mut code = shard;
        let total = 4usize.pow(8) * 4;
        while code < total {
            let mut buf = g.clone();
            buf.push([0x02u8, 0x03, 0x06, 0x07][code % 4]);
            let mut c = code / 4;
            for _ in 0..8 {
                buf.push(SYM[c % 4]);
                c /= 4;
            }
            let case = json!({"hex": refcodec::hex(&buf), "chunk": 0, "eof": true});
            crate::crumb::case("bytes", &case);
            let o = bytes_outcome_raw(&buf, 0, true);
            if let Some(fl) = rep.record(ctx, &o) {
                rep.violation(ctx, "bytes", &fl, case);
            }
            code += shards;
        }
        rep
    })
}

fn replay_alphabet_block(ctx: &Ctx, v: &Value) -> Vec<Failure> {
    let len = v["len"].as_u64().unwrap_or(1) as usize;
    let from = v["from"].as_u64().unwrap_or(0) as usize;
    let stride = v["stride"].as_u64().unwrap_or(1) as usize;
    let count = v["count"].as_u64().unwrap_or(64) as usize;
    let g = hostile::valid_greeting();
    let total = hostile::ALPHABET.len().pow(len as u32);
    let mut out = vec![];
    let mut code = from;
    for _ in 0..=count {
        if code >= total {
            break;
        }
        let mut buf = g.clone();
        buf.extend_from_slice(&hostile::alphabet_string(code, len));
        crate::crumb::case("bytes", &json!({"hex": refcodec::hex(&buf), "chunk": 0, "eof": true}));
        let o = bytes_outcome_raw(&buf, 0, true);
        for f in o.failures {
            if !ctx.known.is_known(&f.sig) || true {
                out.push(f);
            }
        }
        code += stride;
    }
    out
}

/// Explicit catalogue: greeting variants, malformed command bodies, bare long headers, floods.
fn catalogue(t: Tier) -> Vec<BytesCase> {
    let mut v: Vec<(Vec<u8>, usize, bool)> = vec![];
    let g = hostile::valid_greeting();
    let ready = refcodec::encode_ready("DEALER", None);
    // A2: short strings in place of the greeting start
    for len in 0..=3usize {
        for code in 0..hostile::ALPHABET.len().pow(len as u32) {
            let h = hostile::alphabet_string(code, len);
            let mut s = h.clone();
            s.extend_from_slice(&g[len..]);
            s.extend_from_slice(&ready);
            v.push((s, 0, true));
            v.push((h.clone(), 0, true));
            let mut s2 = h;
            s2.extend_from_slice(&vec![0u8; 80]);
            v.push((s2, 0, true));
        }
    }
    // greeting field corruption
    for pos in [0usize, 1, 8, 9, 10, 11, 12, 16, 31, 32, 33, 63] {
        for val in [0x00u8, 0x01, 0x7F, 0xFF] {
            let mut s = g.clone();
            s[pos] = val;
            s.extend_from_slice(&ready);
            v.push((s, 0, true));
        }
    }
    // every whole-field rewrite of the greeting (signature intact, so the field is parsed)
    for gv in hostile::greeting_variants() {
        let mut s = gv.clone();
        s.extend_from_slice(&ready);
        v.push((s.clone(), 0, true));
        v.push((s, 1, true));
        v.push((gv, 0, false));
    }
    // A3: command bodies
    for body in hostile::command_bodies() {
        for long in [false, true] {
            for more in [false, true] {
                for prefix in 0..3 {
                    let mut s = g.clone();
                    match prefix {
                        0 => {}
                        1 => s.extend_from_slice(&ready),
                        _ => {
                            s.extend_from_slice(&ready);
                            refcodec::encode_frame(&mut s, b"part", true, false);
                        }
                    }
                    refcodec::encode_frame_opts(&mut s, &body, more, true, long, 0);
                    refcodec::encode_frame(&mut s, b"after", false, false);
                    v.push((s.clone(), 0, true));
                    v.push((s, 1, true));
                }
            }
        }
    }
    // A4: bare headers declaring huge sizes: nothing but the header arrives
    for k in 17..=63u32 {
        for delta in [0i128, -1, 1] {
            let val = ((1i128 << k) + delta) as u64;
            for flags in [0x02u8, 0x03, 0x06, 0x07] {
                let mut s = g.clone();
                s.extend_from_slice(&ready);
                s.push(flags);
                s.extend_from_slice(&val.to_be_bytes());
                v.push((s.clone(), 0, false));
                s.extend_from_slice(b"some body bytes");
                v.push((s, 0, true));
            }
        }
    }
    for val in [u64::MAX, u64::MAX - 1, 1 << 63, (1 << 63) + 1] {
        let mut s = g.clone();
        s.push(0x02);
        s.extend_from_slice(&val.to_be_bytes());
        v.push((s.clone(), 0, false));
        v.push((s, 0, true));
    }
    // A6: floods of MORE frames in large reads
    let floods: &[usize] = match t {
        Tier::Quick => &[63, 64, 600, 4096, 20_000],
        Tier::Thorough => &[63, 64, 600, 4096, 20_000, 100_000, 400_000],
    };
    for n in floods {
        for body_len in [0usize, 1] {
            for finish in [true, false] {
                let mut s = g.clone();
                s.extend_from_slice(&ready);
                let body = vec![7u8; body_len];
                for _ in 0..*n {
                    refcodec::encode_frame(&mut s, &body, true, false);
                }
                if finish {
                    refcodec::encode_frame(&mut s, b"end", false, false);
                }
                v.push((s, 0, true));
            }
        }
        // commands interleaved in a flood
        let mut s = g.clone();
        for i in 0..*n {
            refcodec::encode_frame(&mut s, b"", true, false);
            if i % 100 == 0 {
                s.extend_from_slice(&ready);
            }
        }
        v.push((s, 0, true));
    }
    // many tiny properties (legitimately costs a multiple of its wire size)
    for n in [100usize, 2000, 20000] {
        let props: Vec<(Vec<u8>, Vec<u8>)> = (0..n).map(|i| (format!("{:x}", i).into_bytes(), vec![])).collect();
        let mut s = g.clone();
        s.extend_from_slice(&refcodec::encode_command(b"READY", &props));
        v.push((s, 0, true));
    }
    v.into_iter()
        .map(|(b, chunk, eof)| BytesCase {
            hex: refcodec::hex(&b),
            chunk,
            eof,
        })
        .collect()
}

// --------------------------------------------------------------------------------------------
// socket stages

#[derive(Debug, Clone, Copy, Serialize, Deserialize, PartialEq, Eq, Hash)]
pub enum Stage {
    /// hostile bytes instead of the greeting
    Greeting,
    /// valid greeting, then hostile bytes instead of READY
    Ready,
    /// valid greeting and READY (admitted peer), then hostile bytes as traffic
    Traffic,
}

#[derive(Debug, Clone, Serialize, Deserialize, PartialEq, Eq, Hash)]
pub struct StageCase {
    pub kind: Kind,
    pub stage: Stage,
    /// hex of the hostile part
    pub hex: String,
    pub eof: bool,
    /// deliver in reads of this many bytes (0 = all at once)
    pub chunk: usize,
}

fn stage_outcome(c: &StageCase) -> Outcome {
    let mut o = Outcome::new(hash_of(c));
    let hostile_bytes = refcodec::unhex(&c.hex);
    let kind = c.kind;
    let stage = c.stage;
    let mut stream = vec![];
    if stage != Stage::Greeting {
        stream.extend_from_slice(&hostile::valid_greeting());
    }
    if stage == Stage::Traffic {
        stream.extend_from_slice(&refcodec::encode_ready(kind.a_compatible_peer(), None));
    }
    stream.extend_from_slice(&hostile_bytes);
    {
        let mut probe = hostile::valid_greeting();
        if stage == Stage::Traffic {
            probe.extend_from_slice(&refcodec::encode_ready(kind.a_compatible_peer(), None));
        }
        probe.extend_from_slice(&hostile_bytes);
        if stage != Stage::Greeting {
            classify(&probe, &mut o);
        } else {
            o.nontrivial = hostile_bytes.len() >= 10;
        }
    }
    o.class(format!("stage-{:?}", stage));
    let eof = c.eof;
    let chunk = c.chunk;
    let fed = stream.len();
    let start = alloc::reset();
    let (r, panics) = capture_panics(|| {
        run_sim(async move {
            let mut f = vec![];
            let mut sim = Sim::new();
            let s = sim.socket(kind, None);
            let link = sim.link();
            link.to_lib.deposit(&stream);
            if eof {
                link.to_lib.end_after_all(ReadEnd::Eof);
            }
            let a = sim.attach(s, &link);
            let mut admitted = false;
            let mut sent_req = false;
            // deliver and let the application consume: one recv call is kept in flight and
            // re-issued whenever it completes
            let mut rounds = 0;
            let mut rv: Option<usize> = None;
            let mut results = 0usize;
            // keep the number of delivery rounds bounded
            let chunk = if chunk == 0 { 0 } else { chunk.max(fed / 2000 + 1) };
            loop {
                rounds += 1;
                if chunk == 0 {
                    link.to_lib.deliver_all();
                } else {
                    link.to_lib.deliver(chunk);
                }
                if let Err(e) = sim.settle().await {
                    fail!(f, format!("C03/socket/{}/spin", kind.name()), "socket does not settle on hostile input: {:?}", e);
                    return (f, admitted);
                }
                if sim.done(a) {
                    admitted = matches!(sim.out(a), Some(Out::Attach(Ok(_))));
                }
                if admitted && kind.can_recv() {
                    if kind == Kind::Req && !sent_req {
                        let sa = sim.send(s, &[b"q".to_vec()]);
                        let _ = sim.run(sa).await;
                        sent_req = true;
                    }
                    let limit = if kind == Kind::Req { 1 } else { 60 };
                    loop {
                        if rv.is_none() && results < limit {
                            rv = Some(sim.recv(s));
                            if let Err(e) = sim.settle().await {
                                fail!(f, format!("C03/socket/{}/spin", kind.name()), "recv does not settle on hostile input: {:?}", e);
                                return (f, admitted);
                            }
                        }
                        match rv {
                            Some(r) if sim.done(r) => {
                                results += 1;
                                rv = None;
                            }
                            _ => break,
                        }
                    }
                }
                if link.to_lib.undelivered() == 0 || rounds > 100_000 {
                    break;
                }
            }
            let _ = sim.settle().await;
            // what the peer sent may only surface later, inside the APPLICATION's own calls
            // (a stored subscription, a registered identity, a queued envelope): the
            // application sends a few messages of different shapes; results are irrelevant,
            // only panics / hangs count
            if rv.is_none() && kind.can_send() {
                let id = match sim.out(a) {
                    Some(Out::Attach(Ok(id))) => id.clone(),
                    _ => b"nobody".to_vec(),
                };
                let shapes: Vec<Frames> = vec![vec![vec![]], vec![b"x".to_vec()], vec![b"hi".to_vec(), vec![]], vec![vec![7u8; 300], b"y".to_vec(), vec![]]];
                for m in shapes {
                    let m: Frames = if kind == Kind::Router {
                        let mut r = vec![id.clone()];
                        r.extend(m);
                        r
                    } else {
                        m
                    };
                    let sa = sim.send(s, &m);
                    match sim.run(sa).await {
                        Ok(None) => {
                            sim.cancel(sa);
                        }
                        Ok(Some(_)) => {}
                        Err(e) => {
                            fail!(f, format!("C03/socket/{}/spin", kind.name()), "an application send after hostile input does not settle: {:?}", e);
                            return (f, admitted);
                        }
                    }
                }
            }
            (f, admitted)
        })
    });
    let growth = alloc::peak() - start;
    let maxreq = alloc::max_request();
    let mut admitted = false;
    if let Some((f, adm)) = r {
        o.failures = f;
        admitted = adm;
    }
    if admitted {
        o.class("admitted");
    }
    for p in panics {
        o.fail(format!("C03/panic/{}", panic_sig(&p)), format!("{} socket, hostile bytes at stage {:?}: {}", kind.name(), stage, p));
    }
    if growth > mem_bound(fed) + (256 << 10) || maxreq > req_bound(fed) + (64 << 10) {
        o.fail(
            "C03/memory/disproportionate-allocation",
            format!("{} socket, stage {:?}: peak heap grew by {} bytes (largest single request {}) for {} bytes received", kind.name(), stage, growth, maxreq, fed),
        );
    }
    o
}

/// After hostile input on one connection, other connections of the same socket keep working.
#[derive(Debug, Clone, Serialize, Deserialize, PartialEq, Eq, Hash)]
pub struct OthersCase {
    pub kind: Kind,
    pub stage: Stage,
    pub hex: String,
    pub eof: bool,
}

fn others_outcome(c: &OthersCase) -> Outcome {
    let mut o = Outcome::new(hash_of(c));
    let hostile_bytes = refcodec::unhex(&c.hex);
    let kind = c.kind;
    let stage = c.stage;
    let eof = c.eof;
    o.nontrivial = true;
    o.class(format!("others-{:?}", stage));
    let (r, panics) = capture_panics(|| {
        run_sim(async move {
            let mut f = vec![];
            let mut sim = Sim::new();
            let s = sim.socket(kind, None);
            // an established healthy peer first (not for REQ: its lock-step rotation would
            // send the single probe request to that peer instead of the one we watch)
            let mut pre: Option<(crate::sim::Link, Vec<u8>)> = None;
            if kind != Kind::Req {
                match simx::attach_raw(&mut sim, s, None).await {
                    Ok(p) => pre = Some(p),
                    Err(e) => {
                        fail!(f, format!("C03/others/{}/setup", kind.name()), "{}", e);
                        return f;
                    }
                }
            }
            let link = sim.link();
            let mut stream = vec![];
            if stage != Stage::Greeting {
                stream.extend_from_slice(&hostile::valid_greeting());
            }
            if stage == Stage::Traffic {
                stream.extend_from_slice(&refcodec::encode_ready(kind.a_compatible_peer(), None));
            }
            stream.extend_from_slice(&hostile_bytes);
            link.to_lib.deposit(&stream);
            link.to_lib.deliver_all();
            if eof {
                link.to_lib.end_after_all(ReadEnd::Eof);
            }
            let a = sim.attach(s, &link);
            let _ = sim.settle().await;
            let admitted = matches!(sim.out(a), Some(Out::Attach(Ok(_))));
            if admitted && kind.fair_queue_recv() {
                // let the application run into the hostile traffic
                let _ = simx::recv_until_pending(&mut sim, s, 10).await;
            }
            // REQ's rotation may be parked on the (admitted) hostile peer: inherent to REQ
            let skip_send = kind == Kind::Req && admitted;
            // the connection that was established BEFORE the hostile one still works ...
            if let Some((pl, pid)) = &pre {
                if let Err(e) = simx::roundtrip_on(&mut sim, s, pl, pid, b"established-before", false).await {
                    fail!(f, format!("C03/others/{}/established-connection-stopped-working", kind.name()), "after hostile input on another connection ({:?} stage, admitted={}): {}", stage, admitted, e);
                }
            }
            // ... and so does one that joins afterwards
            if let Err(e) = simx::healthy_roundtrip(&mut sim, s, b"healthy-after", skip_send).await {
                fail!(f, format!("C03/others/{}/stopped-working", kind.name()), "after hostile input on one connection ({:?} stage, admitted={}): {}", stage, admitted, e);
            }
            f
        })
    });
    if let Some(f) = r {
        o.failures = f;
    }
    for p in panics {
        o.fail(format!("C03/panic/{}", panic_sig(&p)), format!("{} socket: {}", kind.name(), p));
    }
    o
}

// --------------------------------------------------------------------------------------------
// proxy: a peer's odd message forwarded into the other side's send()

#[derive(Debug, Clone, Serialize, Deserialize, PartialEq, Eq, Hash)]
pub struct ProxyCase {
    /// which side the odd message arrives on: true = back (DEALER side), false = front (ROUTER)
    pub from_back: bool,
    /// frame lengths of the odd message; the first frame's content: see `first`
    pub lens: Vec<usize>,
    /// 0 = arbitrary bytes, 1 = the identity of the front-side client, 2 = empty frame
    pub first: u8,
}

fn proxy_outcome(c: &ProxyCase) -> Outcome {
    let mut o = Outcome::new(hash_of(c));
    o.nontrivial = true;
    if c.lens.len() == 1 {
        o.class("proxy-one-frame-message");
    }
    let c0 = c.clone();
    let c = c.clone();
    let (r, panics) = capture_panics(|| {
        run_sim(async move {
            let mut f = vec![];
            let mut sim = Sim::new();
            let front = sim.socket(Kind::Router, None);
            let back = sim.socket(Kind::Dealer, None);
            let client = match simx::attach_raw(&mut sim, front, Some(b"client-1")).await {
                Ok(x) => x,
                Err(e) => {
                    fail!(f, "C03/proxy/setup", "{}", e);
                    return f;
                }
            };
            let worker = match simx::attach_raw(&mut sim, back, None).await {
                Ok(x) => x,
                Err(e) => {
                    fail!(f, "C03/proxy/setup", "{}", e);
                    return f;
                }
            };
            let p = sim.proxy(front, back, None);
            let _ = sim.settle().await;
            let mut msg: Vec<Vec<u8>> = c.lens.iter().enumerate().map(|(i, l)| fill(i as u32 + 40, *l)).collect();
            match c.first {
                1 => msg[0] = b"client-1".to_vec(),
                2 => msg[0] = vec![],
                _ => {}
            }
            if c.from_back {
                worker.0.raw_send_now(&msg);
            } else {
                client.0.raw_send_now(&msg);
            }
            if let Err(e) = sim.settle().await {
                fail!(f, "C03/proxy/spin", "proxy does not settle: {:?}", e);
            }
            // the proxy may have ended with an error; it must not have panicked (captured below)
            let _ = sim.out(p);
            f
        })
    });
    if let Some(f) = r {
        o.failures = f;
    }
    for p in panics {
        o.fail(format!("C03/panic/{}", panic_sig(&p)), format!("a peer's message (frame lengths {:?}, from_back={}) forwarded by proxy(): {}", c0.lens, c0.from_back, p));
    }
    o
}

// --------------------------------------------------------------------------------------------

fn gen_bytes_case(src: &mut Src<'_>, flood_max: usize) -> (HostileSpec, usize, bool) {
    let spec = hostile::gen_hostile(src, flood_max);
    let chunk = src.pick(&[0usize, 0, 0, 1, 2, 7, 64, 8192]);
    let eof = src.chance(3, 4);
    (spec, chunk, eof)
}

#[derive(Debug, Clone, Serialize, Deserialize)]
pub struct HostileCase {
    pub spec: HostileSpec,
    pub chunk: usize,
    pub eof: bool,
}

fn hostile_outcome(c: &HostileCase) -> Outcome {
    let bytes = c.spec.encode();
    let mut o = bytes_outcome_raw(&bytes, c.chunk, c.eof);
    for m in &c.spec.mutations {
        o.class(
            match m {
                Mutation::Truncate(_) => "mut-truncate",
                Mutation::Size { .. } => "mut-size",
                Mutation::Flags { .. } => "mut-flags",
                Mutation::CommandBody { .. } => "mut-command-body",
                Mutation::MoreFlood { .. } => "mut-more-flood",
                Mutation::Corrupt { .. } => "mut-corrupt",
                Mutation::AppendRandom { .. } => "mut-append",
                Mutation::ManyProps { .. } => "mut-many-props",
                Mutation::GreetingField { .. } => "mut-greeting-field",
                Mutation::CommandFlood { .. } => "mut-command-flood",
            }
            .to_string(),
        );
    }
    o
}

#[derive(Debug, Clone, Serialize, Deserialize)]
pub struct HostileStageCase {
    pub kind: Kind,
    pub stage: Stage,
    pub spec: HostileSpec,
    pub eof: bool,
    pub chunk: usize,
    pub others: bool,
}

fn hostile_part(spec: &HostileSpec, stage: Stage) -> Vec<u8> {
    // the spec encodes greeting ‖ items; strip what the stage supplies itself
    let full = spec.encode();
    match stage {
        Stage::Greeting => full,
        _ => full.get(64..).map(|x| x.to_vec()).unwrap_or_default(),
    }
}

fn hostile_stage_outcome(c: &HostileStageCase) -> Outcome {
    let part = hostile_part(&c.spec, c.stage);
    if c.others {
        others_outcome(&OthersCase {
            kind: c.kind,
            stage: c.stage,
            hex: refcodec::hex(&part),
            eof: c.eof,
        })
    } else {
        stage_outcome(&StageCase {
            kind: c.kind,
            stage: c.stage,
            hex: refcodec::hex(&part),
            eof: c.eof,
            chunk: c.chunk,
        })
    }
}

fn stage_catalogue(t: Tier) -> Vec<StageCase> {
    let mut v = vec![];
    let mut hostile_parts: Vec<Vec<u8>> = vec![];
    for body in hostile::command_bodies() {
        for long in [false, true] {
            let mut s = vec![];
            refcodec::encode_frame_opts(&mut s, &body, false, true, long, 0);
            hostile_parts.push(s);
        }
    }
    // huge declared sizes
    for val in [1u64 << 20, 1 << 31, 1 << 40, 1 << 63, u64::MAX] {
        for flags in [2u8, 6] {
            let mut s = vec![flags];
            s.extend_from_slice(&val.to_be_bytes());
            hostile_parts.push(s);
        }
    }
    // floods
    for n in [600usize, 4096] {
        let mut s = vec![];
        for _ in 0..n {
            refcodec::encode_frame(&mut s, b"", true, false);
        }
        refcodec::encode_frame(&mut s, b"x", false, false);
        hostile_parts.push(s);
    }
    // floods of VALID commands and of messages a socket ignores: whatever the socket does per
    // ignored item (skip, log, reply) must not accumulate stack or memory per item
    for n in [600usize, 4096, 30_000] {
        for which in 0..4 {
            let mut s = vec![];
            for i in 0..n {
                match which {
                    0 => s.extend_from_slice(&refcodec::encode_command(b"READY", &[])),
                    1 => {
                        let mut body = vec![4u8];
                        body.extend_from_slice(b"PING");
                        body.extend_from_slice(&[0, 0, (i % 251) as u8]);
                        refcodec::encode_frame(&mut s, &body, false, true);
                    }
                    2 => {
                        let mut body = vec![9u8];
                        body.extend_from_slice(b"SUBSCRIBE");
                        body.push(b'a' + (i % 26) as u8);
                        refcodec::encode_frame(&mut s, &body, false, true);
                    }
                    // a one-frame message: REP and REQ treat it as malformed and go on
                    _ => refcodec::encode_frame(&mut s, b"", false, false),
                }
            }
            s.extend_from_slice(&refcodec::encode_message(&[vec![], b"after the flood".to_vec()]));
            hostile_parts.push(s);
        }
    }
    // well-formed subscription MESSAGES with long / odd prefixes (stored by PUB/XPUB, used later
    // when the application publishes something shorter)
    for m in [
        {
            let mut t = vec![1u8];
            t.extend_from_slice(&[b'a'; 40]);
            vec![t]
        },
        {
            let mut t = vec![1u8];
            t.extend_from_slice(&[0xFFu8; 300]);
            vec![t]
        },
        {
            let mut t = vec![0u8];
            t.extend_from_slice(&[b'a'; 40]);
            vec![t]
        },
        vec![vec![1u8, 0, 1, 0]],
        vec![vec![1u8], vec![1u8, b'x']],
    ] {
        hostile_parts.push(refcodec::encode_message(&m));
    }
    // envelope-rule violations and oddities as traffic
    for m in [vec![vec![]], vec![vec![], vec![]], vec![b"x".to_vec()], vec![vec![0u8]], vec![vec![1u8]], vec![vec![2u8, 3]], vec![vec![1u8], vec![1u8]], vec![vec![9u8; 300]; 3]] {
        hostile_parts.push(refcodec::encode_message(&m));
    }
    hostile_parts.push(vec![0xFF; 70]);
    hostile_parts.push(vec![0x00; 70]);
    // a perfectly well-formed READY announcing each of the twelve socket types of RFC 23 (among
    // them the ones this crate never announces itself: PAIR, XSUB, STREAM), with and without an
    // identity: whatever the local type, the answer is "admitted" or "refused", never a crash
    for name in crate::props::c04::TYPE_NAMES {
        hostile_parts.push(refcodec::encode_ready(name, None));
        hostile_parts.push(refcodec::encode_ready(name, Some(b"id")));
    }
    hostile_parts.push(hostile::valid_greeting());
    for gv in hostile::greeting_variants() {
        let mut s = gv;
        s.extend_from_slice(&refcodec::encode_ready("DEALER", None));
        hostile_parts.push(s);
    }
    let kinds: Vec<Kind> = ALL_KINDS.to_vec();
    for kind in kinds {
        for stage in [Stage::Greeting, Stage::Ready, Stage::Traffic] {
            for (i, h) in hostile_parts.iter().enumerate() {
                let eofs: &[bool] = if t == Tier::Thorough || i % 3 == 0 { &[true, false] } else { &[true] };
                for eof in eofs {
                    v.push(StageCase {
                        kind,
                        stage,
                        hex: refcodec::hex(h),
                        eof: *eof,
                        chunk: 0,
                    });
                }
            }
        }
    }
    v
}

pub fn run(ctx: &Ctx) -> (Report, PropertyMeta) {
    let mut report = Report::default();
    let t = ctx.tier;
    alloc::SINGLE_REQUEST_LIMIT.store(1 << 30, std::sync::atomic::Ordering::SeqCst);

    // A1 exhaustive alphabet
    let l = t.pick(6, 7);
    let r = exhaustive_after_greeting(ctx, l);
    report.exhaustive_parts.push(format!("every string of length 1..={} over {{00,01,02,04,05,06,FF,'R'}} after a valid greeting, then EOF: {} streams", l, r.evaluations));
    report.merge(r);

    let r = exhaustive_long_headers(ctx);
    report.exhaustive_parts.push(format!("every long-frame header (flags 02/03/06/07) whose 8 size bytes are drawn from {{00,01,80,FF}}, header only then EOF: {} streams", r.evaluations));
    report.merge(r);

    // catalogue (codec level, small stack)
    let cat = catalogue(t);
    let mut small = ctx.clone();
    small.stack = CODEC_STACK;
    let r = run_cases(&small, "bytes", &cat, bytes_outcome);
    report.exhaustive_parts.push(format!(
        "catalogue: all strings of length <= 3 in place of the greeting start, greeting field corruptions, {} malformed command bodies x short/long size x MORE x 3 contexts, bare long headers declaring 2^k (k=17..63, +-1) x 4 flag bytes, floods of MORE frames: {} streams",
        hostile::command_bodies().len(),
        cat.len()
    ));
    report.merge(r);

    // A5 random structure-aware mutations
    let n = t.pick(30_000, 600_000);
    let flood_max = t.pick(6000, 120_000);
    let r = run_random(
        &small,
        "hostile",
        n,
        40..=200,
        |s| {
            let (spec, chunk, eof) = gen_bytes_case(s, flood_max);
            HostileCase { spec, chunk, eof }
        },
        hostile_outcome,
    );
    report.sections.push(json!({"part": "random structure-aware mutations of valid streams through the real framed reader", "cases": n}));
    report.merge(r);
    // pure random bytes after a greeting
    let n2 = t.pick(20_000, 400_000);
    let r = run_random(
        &small,
        "bytes",
        n2,
        2..=40,
        |s| {
            let mut b = hostile::valid_greeting();
            let len = s.range(1, 64);
            for _ in 0..len {
                // bias towards small values so flags/sizes are often plausible
                let x = if s.bool() { s.below(8) as u8 } else { s.next() as u8 };
                b.push(x);
            }
            BytesCase {
                hex: refcodec::hex(&b),
                chunk: s.pick(&[0usize, 1, 3]),
                eof: s.bool(),
            }
        },
        bytes_outcome,
    );
    report.merge(r);

    // B sockets
    let mut simctx = ctx.clone();
    simctx.stack = SIM_STACK;
    let sc = stage_catalogue(t);
    let r = run_cases(&simctx, "stage", &sc, stage_outcome);
    report.exhaustive_parts.push(format!("9 socket types x 3 handshake stages x catalogue of hostile parts: {} socket cases", sc.len()));
    report.merge(r);
    let n3 = t.pick(12_000, 300_000);
    let r = run_random(
        &simctx,
        "hostile_stage",
        n3,
        40..=200,
        |s| {
            let kind = s.pick(&ALL_KINDS);
            let stage = s.pick(&[Stage::Greeting, Stage::Ready, Stage::Traffic, Stage::Traffic]);
            let spec = hostile::gen_hostile(s, 5000);
            HostileStageCase {
                kind,
                stage,
                spec,
                eof: s.bool(),
                chunk: s.pick(&[0usize, 0, 1, 5, 100]),
                others: s.chance(1, 3),
            }
        },
        hostile_stage_outcome,
    );
    report.sections.push(json!({"part": "random hostile streams at a random handshake stage of a random socket type (1/3 of them followed by a healthy peer's round trip)", "cases": n3}));
    report.merge(r);
    // others keep working: catalogue
    let mut oc = vec![];
    for kind in ALL_KINDS {
        for stage in [Stage::Greeting, Stage::Ready, Stage::Traffic] {
            for h in [vec![0xFFu8; 64], refcodec::encode_message(&[vec![]]), refcodec::encode_message(&[b"x".to_vec()]), vec![4, 0], vec![2, 0, 0, 0, 0, 0x10, 0, 0, 0], {
                let mut s = vec![];
                refcodec::encode_frame(&mut s, b"partial", true, false);
                s
            }] {
                for eof in [true, false] {
                    oc.push(OthersCase {
                        kind,
                        stage,
                        hex: refcodec::hex(&h),
                        eof,
                    });
                }
            }
        }
    }
    let r = run_cases(&simctx, "others", &oc, others_outcome);
    report.merge(r);

    // C proxy
    let mut pc = vec![];
    for from_back in [true, false] {
        for lens in [vec![0usize], vec![1], vec![5], vec![300], vec![0, 0], vec![5, 5], vec![300, 1], vec![8, 0, 3], vec![1, 1, 1, 1]] {
            for first in [0u8, 1, 2] {
                pc.push(ProxyCase {
                    from_back,
                    lens: lens.clone(),
                    first,
                });
            }
        }
    }
    let r = run_cases(&simctx, "proxy", &pc, proxy_outcome);
    report.exhaustive_parts.push(format!("proxy(ROUTER, DEALER): {} odd messages (1..4 frames, identity-like / empty / arbitrary first frame) from either side", pc.len()));
    report.merge(r);

    {
        // real transports, one thread (see C17): hostile / truncated handshakes left open
        use crate::props::c20::{StallCase, Staller, Then};
        use crate::realnet::Transport;
        let mut netctx = ctx.clone();
        netctx.threads = 1;
        let mut nc = vec![];
        for kind in [Kind::Pull, Kind::Router, Kind::Pub, Kind::Rep] {
            for transport in [Transport::TcpV4, Transport::Ipc] {
                for st in [
                    Staller { offset: 0, then: Then::Hold },
                    Staller { offset: 11, then: Then::Hold },
                    Staller { offset: 70, then: Then::Hold },
                    Staller { offset: 5, then: Then::Garbage },
                    Staller { offset: 0, then: Then::Huge },
                    Staller { offset: 1, then: Then::Huge },
                ] {
                    nc.push(StallCase { kind, transport, stallers: vec![st] });
                }
            }
        }
        let r = run_cases(&netctx, "net", &nc, net_outcome);
        report.exhaustive_parts.push(format!("real TCP and IPC endpoints of PULL/ROUTER/PUB/REP: a client leaves a truncated greeting / truncated READY / garbage / an announced 2^50-byte frame open while an established peer exchanges and new peers connect: {} cases", nc.len()));
        report.merge(r);
        crate::realnet::cleanup_scratch();
    }
    if t == Tier::Thorough {
        crate::fuzzing::campaign(ctx, &mut report, "hostile", 420);
    }
    if t == Tier::Thorough {
        crate::fuzzing::campaign(ctx, &mut report, "wire", 240);
    }
    let total = report.evaluations;
    health(&mut report, "has-command-frame", total, 100);
    health(&mut report, "has-long-size", total, 100);
    health_abs(&mut report, "more-flood>=64", 200);
    health_abs(&mut report, "admitted", 500);
    health_abs(&mut report, "proxy-one-frame-message", 6);
    health_abs(&mut report, "hostile-handshake-left-open-on-a-real-transport", 40);

    let _ = streams::catalogue_small;
    let meta = PropertyMeta {
        level: "fault_enumeration",
        rule: format!(
            "hostile byte streams: exhaustive strings of length <= {} over an 8-symbol flag/size alphabet after a valid greeting; catalogue of malformed greetings, malformed command bodies (lengths pointing past the frame, non-UTF-8 names, unknown names) in short and long encodings, bare long-frame headers declaring 2^17..2^64-1 bytes, floods of up to {} MORE frames delivered in 8 KiB reads; proptest structure-aware mutations of valid streams (truncate, overwrite size fields with boundary values, OR flag bits, replace command bodies, insert floods, corrupt bytes) and random bytes. Each fed to the real framed reader on a 256 KiB-stack thread under a counting allocator, and as greeting / READY / traffic of a real attach to all 9 socket types with the application calling recv; odd messages forwarded by proxy(). Oracle: no panic, no abort/stack overflow (supervising parent), peak heap growth <= 256 KiB + 128 x bytes fed, no single allocation request above 64 KiB + 64 x bytes fed (hard stop at 1 GiB), sockets settle, and a healthy second connection still completes a round trip; on real TCP and IPC endpoints a hostile or truncated handshake left open must not keep an established peer from exchanging nor new peers from connecting. Non-trivial = stream passes the greeting check and contains a command frame, a long size or >= 64 MORE frames; distinct by bytes",
            l, flood_max
        ),
        assumptions: vec![
            "the 256 KiB / 512 KiB thread stacks are a sensitivity choice: constant-depth decoding needs < 40 KiB; the property violated is 'stack depth grows with a peer-chosen frame count'".into(),
            "memory bound deliberately loose (128x): thousands of zero-length frames or tiny properties legitimately cost a multiple of their wire size".into(),
        ],
        exhaustive: false,
    };
    (report, meta)
}

/// "Other connections of the same socket keep working" on the REAL transports: a peer that
/// leaves an incomplete / hostile handshake open on a bound TCP or IPC endpoint, while an
/// established peer keeps exchanging and new well-behaved peers connect (the scenario machinery
/// is C20's; a failure is this property's when the hostile bytes are what C03 quantifies over).
pub fn net_outcome(c: &crate::props::c20::StallCase) -> Outcome {
    let mut o = crate::props::c20::stall_outcome(c);
    for f in o.failures.iter_mut() {
        f.sig = format!("C03/real-transport/{}", f.sig.trim_start_matches("C20/"));
    }
    o.classes = vec!["hostile-handshake-left-open-on-a-real-transport".into()];
    o
}

pub fn replay(ctx: &Ctx, kind: &str, case: &Value) -> Vec<Failure> {
    alloc::SINGLE_REQUEST_LIMIT.store(1 << 30, std::sync::atomic::Ordering::SeqCst);
    let case = case.clone();
    let kind = kind.to_string();
    let ctx = ctx.clone();
    // replays also run on a small stack
    std::thread::Builder::new()
        .stack_size(SIM_STACK)
        .spawn(move || {
            match kind.as_str() {
                "bytes" => parse_case::<BytesCase>(&case).map(|c| bytes_outcome(&c).failures),
                "hostile" => parse_case::<HostileCase>(&case).map(|c| hostile_outcome(&c).failures),
                "stage" => parse_case::<StageCase>(&case).map(|c| stage_outcome(&c).failures),
                "hostile_stage" => parse_case::<HostileStageCase>(&case).map(|c| hostile_stage_outcome(&c).failures),
                "others" => parse_case::<OthersCase>(&case).map(|c| others_outcome(&c).failures),
                "proxy" => parse_case::<ProxyCase>(&case).map(|c| proxy_outcome(&c).failures),
                "net" => parse_case::<crate::props::c20::StallCase>(&case).map(|c| net_outcome(&c).failures),
                "alphabet_block" => Ok(replay_alphabet_block(&ctx, &case)),
                _ => Err(vec![Failure::new("replay/unknown-kind", kind.to_string())]),
            }
            .unwrap_or_else(|e| e)
        })
        .unwrap()
        .join()
        .unwrap_or_else(|_| vec![Failure::new("C03/panic/replay-thread", "replay thread panicked")])
}
