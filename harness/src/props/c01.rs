//! C01 — message framing conforms to ZMTP 3.0 and round-trips exactly.

use crate::core::*;
use crate::fail;
use crate::libcodec::{self, End, LItem};
use crate::props::parse_case;
use crate::refcodec::{self, RefItem, Strictness};
use crate::sim::{run_sim, Frames, Kind, Out, Sim, ALL_KINDS};

use bytes::Bytes;
use serde::{Deserialize, Serialize};
use serde_json::{json, Value};
use zeromq::__verif::codec::Item;

pub const GRID: [usize; 10] = [0, 1, 2, 254, 255, 256, 257, 65535, 65536, 65537];

#[derive(Debug, Clone, Serialize, Deserialize, PartialEq, Eq, Hash)]
pub enum Fill {
    Seed(u32),
    Zero,
    Ones,
    /// body that looks like frame headers (01 00 01 00 ..)
    HeaderLike,
}

#[derive(Debug, Clone, Serialize, Deserialize, PartialEq, Eq, Hash)]
pub struct FrameSpec {
    pub len: usize,
    pub fill: Fill,
}

#[derive(Debug, Clone, Serialize, Deserialize, PartialEq, Eq, Hash)]
pub struct MsgCase {
    pub frames: Vec<FrameSpec>,
}

impl FrameSpec {
    pub fn bytes(&self) -> Vec<u8> {
        match self.fill {
            Fill::Seed(s) => fill(s, self.len),
            Fill::Zero => vec![0u8; self.len],
            Fill::Ones => vec![0xFFu8; self.len],
            Fill::HeaderLike => (0..self.len).map(|i| [1u8, 0, 3, 2, 4, 6][i % 6]).collect(),
        }
    }
}

impl MsgCase {
    pub fn frames(&self) -> Frames {
        self.frames.iter().map(|f| f.bytes()).collect()
    }
    pub fn nontrivial(&self) -> bool {
        self.frames.len() >= 2 || self.frames.iter().any(|f| f.len == 0 || f.len >= 256)
    }
    pub fn brief(&self) -> Value {
        json!(self.frames.iter().map(|f| format!("{}:{:?}", f.len, f.fill)).collect::<Vec<_>>())
    }
}

/// shared generator of message shapes (also used by other properties)
pub fn gen_fill(src: &mut Src<'_>) -> Fill {
    match src.weighted(&[6, 1, 1, 1]) {
        0 => Fill::Seed(src.next() as u32),
        1 => Fill::Zero,
        2 => Fill::Ones,
        _ => Fill::HeaderLike,
    }
}

pub fn gen_len(src: &mut Src<'_>, max_exp: usize) -> usize {
    if src.chance(1, 4) {
        return src.pick(&GRID);
    }
    let e = src.range(0, max_exp);
    let hi = 1usize << e;
    // uniform in [hi/2, hi) (log-uniform overall), 0 when e == 0
    if e == 0 {
        0
    } else {
        hi / 2 + src.below(hi - hi / 2)
    }
}

pub fn gen_msg(src: &mut Src<'_>, max_frames: usize, max_exp: usize, max_total: usize) -> MsgCase {
    let n = src.range(1, max_frames);
    let mut total = 0usize;
    let mut frames = vec![];
    for _ in 0..n {
        let mut len = gen_len(src, max_exp);
        if total + len > max_total {
            len = max_total.saturating_sub(total).min(len);
        }
        total += len;
        frames.push(FrameSpec { len, fill: gen_fill(src) });
    }
    MsgCase { frames }
}

fn first_diff(a: &[u8], b: &[u8]) -> String {
    let n = a.len().min(b.len());
    for i in 0..n {
        if a[i] != b[i] {
            let lo = i.saturating_sub(4);
            return format!(
                "first difference at byte {}: library ..{} vs reference ..{} (lengths {} / {})",
                i,
                refcodec::hex(&a[lo..(i + 8).min(a.len())]),
                refcodec::hex(&b[lo..(i + 8).min(b.len())]),
                a.len(),
                b.len()
            );
        }
    }
    format!("lengths differ: library {} vs reference {}", a.len(), b.len())
}

/// The oracle for one message through the bare codec.
pub fn check_message(frames: &Frames) -> Vec<Failure> {
    let mut f = vec![];
    let ref_enc = refcodec::encode_message(frames);
    let lib_enc = match libcodec::lib_encode_message(frames) {
        Ok(b) => b,
        Err(e) => {
            fail!(f, "C01/encode/error", "library encode failed: {}", e);
            return f;
        }
    };
    if lib_enc != ref_enc {
        fail!(f, "C01/encode/bytes-differ-from-rfc", "{}", first_diff(&lib_enc, &ref_enc));
    }
    // independent strict parse of what the library produced
    let p = refcodec::parse_stream(&lib_enc, Strictness::EMITTED);
    if p.error.is_some() || p.residue != 0 || p.items != vec![RefItem::Message(frames.clone())] {
        fail!(
            f,
            "C01/encode/reference-decoder-disagrees",
            "reference decoder: error {:?}, residue {}, {} items (expected exactly the message with {} frames)",
            p.error,
            p.residue,
            p.items.len(),
            frames.len()
        );
    }
    // library decode of its own bytes and of the reference bytes
    let greeting = refcodec::RefGreeting::valid_null().encode();
    for (name, enc) in [("own", &lib_enc), ("reference", &ref_enc)] {
        let mut stream = greeting.clone();
        stream.extend_from_slice(enc);
        let (items, end, _st) = libcodec::lib_decode_all(&stream);
        let ok = items.len() == 2
            && matches!(items[0], LItem::Greeting { .. })
            && items[1] == LItem::Message(frames.clone())
            && end == (End::NeedMore { buffered: 0 });
        if !ok {
            let got = items
                .iter()
                .map(|i| match i {
                    LItem::Message(m) => format!("Message{:?}", m.iter().map(|x| x.len()).collect::<Vec<_>>()),
                    other => format!("{:?}", other),
                })
                .collect::<Vec<_>>();
            fail!(
                f,
                format!("C01/decode/roundtrip-{}-bytes", name),
                "library decode of {} encoding gave {:?}, end {:?}; expected the message with frame lengths {:?}",
                name,
                got,
                end,
                frames.iter().map(|x| x.len()).collect::<Vec<_>>()
            );
        }
    }
    // ... and as it arrives on a transport: through the library's REAL framed reader, which hands
    // the decoder the stream in reads of at most 8 KiB, i.e. a large frame is seen incomplete
    // hundreds of times before it is whole
    {
        let mut stream = greeting.clone();
        stream.extend_from_slice(&lib_enc);
        let run = libcodec::framed_run(&stream, &[stream.len()], None, 1 << 20);
        let ok = run.errors.is_empty() && run.items.len() == 2 && matches!(run.items[0], LItem::Greeting { .. }) && run.items[1] == LItem::Message(frames.clone()) && run.buffered == 0;
        if !ok {
            fail!(
                f,
                "C01/decode/roundtrip-through-framed-reader",
                "the framed reader (8 KiB reads) gave {} items, errors {:?}, end {:?}, {} bytes left; expected the greeting and the message with frame lengths {:?}",
                run.items.len(),
                run.errors,
                run.end,
                run.buffered,
                frames.iter().map(|x| x.len()).collect::<Vec<_>>()
            );
        }
    }
    f
}

fn msg_outcome(c: &MsgCase) -> Outcome {
    let frames = c.frames();
    let mut o = Outcome::new(hash_of(c));
    o.nontrivial = c.nontrivial();
    if c.frames.iter().any(|f| f.len == 0) {
        o.class("has-empty-frame");
    }
    if c.frames.iter().any(|f| f.len > 255) {
        o.class("has-long-frame");
    }
    if c.frames.iter().any(|f| f.len >= 1 << 20) {
        o.class("has-MiB-frame");
    }
    if c.frames.len() >= 2 {
        o.class("multipart");
    }
    let (r, panics) = capture_panics(|| check_message(&frames));
    if let Some(fs) = r {
        o.failures = fs;
    }
    for p in panics {
        o.fail(format!("C01/panic/{}", panic_sig(&p)), p);
    }
    o
}

// ------------------------------------------------------------------------------------------
// greeting / READY captured from the wire of a real socket

#[derive(Debug, Clone, Serialize, Deserialize, PartialEq, Eq, Hash)]
pub struct ReadyCase {
    pub kind: Kind,
    /// identity option (hex), None = not configured
    pub identity: Option<String>,
}

pub fn identity_options() -> Vec<Option<Vec<u8>>> {
    vec![
        None,
        Some(vec![b'a']),
        Some(vec![0x00, 0x01]),
        Some(fill(7, 100)),
        Some(fill(8, 254)),
        Some(fill(9, 255)),
        Some(vec![0x04, 0x06, 0x01, 0x02, 0xFF, 0x7F]),
    ]
}

fn eq_ci(a: &[u8], b: &str) -> bool {
    a.eq_ignore_ascii_case(b.as_bytes())
}

/// Checks the library's own greeting + READY at the start of a tap. Returns the offset where
/// application traffic starts.
pub fn check_lib_handshake(tap: &[u8], kind: Kind, identity: Option<&[u8]>, f: &mut Vec<Failure>) -> Option<usize> {
    if tap.len() < 64 {
        fail!(f, "C01/greeting/short", "library wrote only {} bytes, greeting needs 64", tap.len());
        return None;
    }
    let g = &tap[..64];
    let mut mech = [0u8; 20];
    mech[..4].copy_from_slice(b"NULL");
    if g[0] != 0xFF || g[9] != 0x7F {
        fail!(f, "C01/greeting/signature", "signature bytes {:02x}..{:02x}", g[0], g[9]);
    }
    if (g[10], g[11]) != (3, 0) {
        fail!(f, "C01/greeting/version", "version {}.{} (expected 3.0)", g[10], g[11]);
    }
    if g[12..32] != mech {
        fail!(f, "C01/greeting/mechanism", "mechanism field {}", refcodec::hex(&g[12..32]));
    }
    if g[32] != 0 {
        fail!(f, "C01/greeting/as-server", "as-server {:02x} for NULL mechanism", g[32]);
    }
    if g[33..64].iter().any(|b| *b != 0) {
        fail!(f, "C01/greeting/filler", "filler not zero: {}", refcodec::hex(&g[33..64]));
    }
    let p = refcodec::parse_stream(tap, Strictness::EMITTED_WITH_GREETING);
    if let Some(e) = &p.error {
        fail!(f, "C01/ready/non-canonical", "after the greeting: {:?} at byte {}", e, p.consumed);
        return None;
    }
    let Some(RefItem::Command { name, props }) = p.items.get(1) else {
        fail!(f, "C01/ready/missing", "second item on the wire is {:?}", p.items.get(1).map(|i| format!("{:?}", i).chars().take(80).collect::<String>()));
        return None;
    };
    if name != b"READY" {
        fail!(f, "C01/ready/name", "command name {:?}", String::from_utf8_lossy(name));
    }
    let body_len = refcodec::command_body(name, props).len();
    let flag = tap[64];
    let want = if body_len <= 255 { 0x04 } else { 0x06 };
    if flag != want {
        fail!(f, "C01/ready/flags", "READY flags {:02x}, expected {:02x} for a {}-byte body", flag, want, body_len);
    }
    let st: Vec<_> = props.iter().filter(|(k, _)| eq_ci(k, "Socket-Type")).collect();
    if st.len() != 1 || st[0].1 != kind.name().as_bytes() {
        fail!(
            f,
            "C01/ready/socket-type",
            "Socket-Type properties: {:?} (expected exactly one = {})",
            st.iter().map(|(_, v)| String::from_utf8_lossy(v).to_string()).collect::<Vec<_>>(),
            kind.name()
        );
    }
    let ids: Vec<_> = props.iter().filter(|(k, _)| eq_ci(k, "Identity")).collect();
    match identity {
        None => {
            if !ids.is_empty() {
                fail!(f, "C01/ready/identity-unexpected", "Identity announced though not configured: {}", refcodec::brief(&ids[0].1));
            }
        }
        Some(id) => {
            if ids.len() != 1 || ids[0].1 != id {
                fail!(
                    f,
                    "C01/ready/identity",
                    "Identity properties {:?}, expected exactly one = {}",
                    ids.iter().map(|(_, v)| refcodec::brief(v)).collect::<Vec<_>>(),
                    refcodec::brief(id)
                );
            }
        }
    }
    let extra: Vec<_> = props
        .iter()
        .filter(|(k, _)| !eq_ci(k, "Socket-Type") && !eq_ci(k, "Identity"))
        .collect();
    if !extra.is_empty() {
        fail!(f, "C01/ready/extra-properties", "unexpected properties {:?}", extra.iter().map(|(k, _)| String::from_utf8_lossy(k).to_string()).collect::<Vec<_>>());
    }
    p.item_ends.get(1).copied()
}

fn ready_outcome(c: &ReadyCase) -> Outcome {
    let mut o = Outcome::new(hash_of(c));
    o.nontrivial = true;
    let id = c.identity.as_ref().map(|h| refcodec::unhex(h));
    if id.as_ref().map(|i| i.len() >= 200).unwrap_or(false) {
        o.class("long-ready-command");
    }
    let kind = c.kind;
    let (r, panics) = capture_panics(|| {
        run_sim(async {
            let mut f = vec![];
            let mut sim = Sim::new();
            let s = sim.socket(kind, id.as_deref());
            let link = sim.link();
            link.raw_handshake(kind.a_compatible_peer(), None);
            let a = sim.attach(s, &link);
            match sim.run(a).await {
                Ok(Some(out)) if out.is_ok() => {}
                other => {
                    fail!(f, "C01/ready/attach-failed", "handshake with a well-behaved peer did not succeed: {:?}", other);
                }
            }
            let tap = link.from_lib.tap();
            if let Some(end) = check_lib_handshake(&tap, kind, id.as_deref(), &mut f) {
                // SUB may follow up with subscriptions; nothing else may follow for other kinds
                if end != tap.len() {
                    fail!(f, "C01/ready/trailing-bytes", "{} unexpected bytes after READY", tap.len() - end);
                }
            }
            f
        })
    });
    if let Some(fs) = r {
        o.failures = fs;
    }
    for p in panics {
        o.fail(format!("C01/panic/{}", panic_sig(&p)), p);
    }
    o
}

// ------------------------------------------------------------------------------------------
// messages through real sockets

#[derive(Debug, Clone, Serialize, Deserialize, PartialEq, Eq, Hash)]
pub struct SockSendCase {
    pub kind: Kind,
    pub msgs: Vec<MsgCase>,
    /// REQ only: this many earlier peers connected and failed (stale entries in the rotation)
    #[serde(default)]
    pub stale: usize,
}

fn sock_send_outcome(c: &SockSendCase) -> Outcome {
    let mut o = Outcome::new(hash_of(c));
    o.nontrivial = c.msgs.iter().any(|m| m.nontrivial());
    let kind = c.kind;
    let c = c.clone();
    let msgs: Vec<Frames> = c.msgs.iter().map(|m| m.frames()).collect();
    let (r, panics) = capture_panics(|| {
        run_sim(async {
            let mut f = vec![];
            let mut sim = Sim::new();
            let s = sim.socket(kind, None);
            if kind == Kind::Req {
                for _ in 0..c.stale {
                    let dead = sim.link();
                    dead.raw_handshake("REP", None);
                    let a = sim.attach(s, &dead);
                    let _ = sim.run(a).await;
                    dead.from_lib.break_writer(std::io::ErrorKind::BrokenPipe);
                    let a = sim.send(s, &[b"probe".to_vec()]);
                    let _ = sim.run(a).await;
                }
            }
            let link = sim.link();
            link.raw_handshake(kind.a_compatible_peer(), None);
            let a = sim.attach(s, &link);
            let id: Vec<u8> = match sim.run(a).await {
                Ok(Some(Out::Attach(Ok(id)))) => id,
                _ => vec![],
            };
            if matches!(kind, Kind::Pub | Kind::XPub) {
                // subscribe to everything
                link.raw_send_now(&[vec![1u8]]);
                let _ = sim.settle().await;
                if kind == Kind::XPub {
                    let r = sim.recv(s);
                    let _ = sim.run(r).await;
                }
            }
            let mut expect = vec![];
            let mut nreq = 0usize;
            for m in &msgs {
                // what the application passes to send, and what must appear on the wire
                let (app, wire): (Frames, Frames) = match kind {
                    Kind::Router => {
                        let mut a = vec![id.clone()];
                        a.extend(m.clone());
                        (a, m.clone())
                    }
                    Kind::Req | Kind::Rep => {
                        let mut w = vec![vec![]];
                        w.extend(m.clone());
                        (m.clone(), w)
                    }
                    _ => (m.clone(), m.clone()),
                };
                if kind == Kind::Rep {
                    // a reply needs a request; its payload may itself contain empty frames -
                    // the reply still goes out behind exactly one delimiter
                    nreq += 1;
                    let req: Frames = match (nreq + msgs.len()) % 3 {
                        0 => vec![vec![], b"q".to_vec()],
                        1 => vec![vec![], b"a".to_vec(), vec![], b"c".to_vec()],
                        _ => vec![vec![], vec![], b"x".to_vec(), vec![]],
                    };
                    link.raw_send_now(&req);
                    let r = sim.recv(s);
                    let _ = sim.run(r).await;
                }
                let a = sim.send(s, &app);
                match sim.run(a).await {
                    Ok(Some(out)) if out.is_ok() => {}
                    other => {
                        fail!(f, format!("C01/socket-send/{}/send-failed", kind.name()), "send did not succeed: {:?}", other.map(|o| o.map(|o| o.err_text().map(|s| s.to_string()))));
                    }
                }
                expect.extend_from_slice(&refcodec::encode_message(&wire));
                if kind == Kind::Req {
                    // the reply makes the next request legal
                    link.raw_send_now(&[vec![], b"r".to_vec()]);
                    let r = sim.recv(s);
                    let _ = sim.run(r).await;
                }
            }
            match link.lib_traffic() {
                Ok(t) => {
                    if t != expect {
                        fail!(f, format!("C01/socket-send/{}/bytes-differ-from-rfc", kind.name()), "{}", first_diff(&t, &expect));
                    }
                }
                Err(e) => fail!(f, format!("C01/socket-send/{}/handshake", kind.name()), "{}", e),
            }
            f
        })
    });
    if let Some(fs) = r {
        o.failures = fs;
    }
    for p in panics {
        o.fail(format!("C01/panic/{}", panic_sig(&p)), p);
    }
    o
}

// ------------------------------------------------------------------------------------------
// READY / greeting through the bare encoder

#[derive(Debug, Clone, Serialize, Deserialize, PartialEq, Eq, Hash)]
pub struct CmdCase {
    pub socket_type: String,
    /// extra properties: (name, value length, fill seed)
    pub extra: Vec<(String, usize, u32)>,
}

fn cmd_outcome(c: &CmdCase) -> Outcome {
    let mut o = Outcome::new(hash_of(c));
    let mut props: Vec<(String, Bytes)> = vec![("Socket-Type".into(), Bytes::from(c.socket_type.clone().into_bytes()))];
    for (k, l, s) in &c.extra {
        props.push((k.clone(), Bytes::from(fill(*s, *l))));
    }
    let mut want: Vec<(Vec<u8>, Vec<u8>)> = vec![];
    for (k, v) in &props {
        if let Some(e) = want.iter_mut().find(|e| e.0 == k.as_bytes()) {
            e.1 = v.to_vec();
        } else {
            want.push((k.as_bytes().to_vec(), v.to_vec()));
        }
    }
    want.sort();
    let body_len = refcodec::command_body(b"READY", &want).len();
    o.nontrivial = !c.extra.is_empty();
    if body_len > 255 {
        o.class("long-command");
    }
    if (250..=260).contains(&body_len) {
        o.class("command-near-255");
    }
    let (r, panics) = capture_panics(|| {
        let mut f = vec![];
        match libcodec::lib_encode_item(Item::Command {
            name: "READY".into(),
            properties: props.clone(),
        }) {
            Err(e) => fail!(f, "C01/command-encode/error", "{}", e),
            Ok(bytes) => {
                let p = refcodec::parse_stream(&bytes, Strictness::EMITTED);
                match (&p.error, p.residue, p.items.as_slice()) {
                    (None, 0, [RefItem::Command { name, props: got }]) => {
                        let mut got = got.clone();
                        got.sort();
                        if name != b"READY" || got != want {
                            fail!(f, "C01/command-encode/content", "READY re-parsed to name {:?} with {} properties (expected {})", String::from_utf8_lossy(name), got.len(), want.len());
                        }
                        let flag = bytes[0];
                        let exp = if body_len <= 255 { 4 } else { 6 };
                        if flag != exp {
                            fail!(f, "C01/command-encode/flags", "flags {:02x}, expected {:02x} for body of {} bytes", flag, exp, body_len);
                        }
                    }
                    other => fail!(f, "C01/command-encode/reference-decoder-disagrees", "reference parse of encoded READY (body {} bytes): error {:?} residue {} items {}", body_len, other.0, other.1, other.2.len()),
                }
                // and the library must read back its own command
                let mut stream = refcodec::RefGreeting::valid_null().encode();
                stream.extend_from_slice(&bytes);
                let (items, end, _) = libcodec::lib_decode_all(&stream);
                let exp_props: Vec<(String, Vec<u8>)> = want.iter().map(|(k, v)| (String::from_utf8(k.clone()).unwrap(), v.clone())).collect();
                let ok = items.len() == 2
                    && items[1]
                        == LItem::Command {
                            name: "READY".into(),
                            props: exp_props,
                        }
                    && end == (End::NeedMore { buffered: 0 });
                if !ok {
                    fail!(f, "C01/command-decode/roundtrip", "library decode of its own READY (body {} bytes) gave {} items, end {:?}", body_len, items.len(), end);
                }
            }
        }
        f
    });
    if let Some(fs) = r {
        o.failures = fs;
    }
    for p in panics {
        o.fail(format!("C01/panic/{}", panic_sig(&p)), p);
    }
    o
}

#[derive(Debug, Clone, Serialize, Deserialize, PartialEq, Eq, Hash)]
pub struct GreetCase {
    pub version: (u8, u8),
    pub mechanism: String,
    pub as_server: bool,
}

fn greet_outcome(c: &GreetCase) -> Outcome {
    let mut o = Outcome::new(hash_of(c));
    o.nontrivial = true;
    let (r, panics) = capture_panics(|| {
        let mut f = vec![];
        match libcodec::lib_encode_item(Item::Greeting {
            version: c.version,
            mechanism: c.mechanism.clone(),
            as_server: c.as_server,
        }) {
            Err(e) => fail!(f, "C01/greeting-encode/error", "{}", e),
            Ok(b) => {
                let mut want = refcodec::RefGreeting::valid_null();
                want.version = c.version;
                want.mechanism = c.mechanism.as_bytes().to_vec();
                want.as_server = c.as_server as u8;
                let mut got = b.clone();
                if got.len() == 64 {
                    // signature padding is "not significant" in the RFC
                    for x in &mut got[1..9] {
                        *x = 0;
                    }
                }
                if got != want.encode() {
                    fail!(f, "C01/greeting-encode/bytes", "{}", first_diff(&b, &want.encode()));
                }
                let (items, end, _) = libcodec::lib_decode_all(&b);
                let exp = LItem::Greeting {
                    version: c.version,
                    mechanism: c.mechanism.clone(),
                    as_server: c.as_server,
                };
                if items != vec![exp] || end != (End::NeedMore { buffered: 0 }) {
                    fail!(f, "C01/greeting-decode/roundtrip", "library decode of its own greeting gave {:?} end {:?}", items, end);
                }
            }
        }
        f
    });
    if let Some(fs) = r {
        o.failures = fs;
    }
    for p in panics {
        o.fail(format!("C01/panic/{}", panic_sig(&p)), p);
    }
    o
}

// ------------------------------------------------------------------------------------------

pub fn grid_cases() -> Vec<MsgCase> {
    let mut v = vec![];
    let fs = |len: usize, i: u32| FrameSpec {
        len,
        fill: Fill::Seed(i),
    };
    for a in GRID {
        v.push(MsgCase { frames: vec![fs(a, 1)] });
        for b in GRID {
            v.push(MsgCase {
                frames: vec![fs(a, 1), fs(b, 2)],
            });
            for c in GRID {
                v.push(MsgCase {
                    frames: vec![fs(a, 1), fs(b, 2), fs(c, 3)],
                });
            }
        }
    }
    v
}

fn gen_cmd(src: &mut Src<'_>) -> CmdCase {
    let socket_type = src.pick(&["REQ", "REP", "DEALER", "ROUTER", "PUB", "SUB", "XPUB", "XSUB", "PUSH", "PULL", "PAIR"]).to_string();
    let n = src.range(0, 4);
    let mut extra = vec![];
    // aim some cases exactly at the 255/256 body boundary
    let base = 1 + 5 + 1 + 11 + 4 + socket_type.len();
    for i in 0..n {
        let name = src.pick(&["Identity", "X-a", "Resource", "X-long-name-property"]).to_string();
        let len = if src.chance(1, 3) && i == 0 {
            // body = base + 1 + name + 4 + len  → target 254..257
            let target = src.range(254, 257);
            target.saturating_sub(base + 1 + name.len() + 4)
        } else {
            match src.weighted(&[4, 2, 1]) {
                0 => src.range(0, 40),
                1 => src.range(200, 300),
                _ => src.range(60000, 70000),
            }
        };
        extra.push((name, len, src.next() as u32));
    }
    CmdCase { socket_type, extra }
}

pub fn run(ctx: &Ctx) -> (Report, PropertyMeta) {
    let mut report = Report::default();
    let t = ctx.tier;

    // (a) exhaustive boundary grid, 1..3 frames
    let grid = grid_cases();
    let r = run_cases(ctx, "msg", &grid, msg_outcome);
    report.sections.push(json!({"part": "a: boundary grid 1..3 frames (exhaustive)", "cases": grid.len()}));
    report.exhaustive_parts.push(format!("boundary grid {:?}^(1..3): {} messages", GRID, grid.len()));
    report.merge(r);

    // (b) random messages
    let n = t.pick(3000, 60_000);
    let max_exp = t.pick(22, 24);
    let max_total = t.pick(6 << 20, 40 << 20);
    let r = run_random(ctx, "msg", n, 4..=40, |s| gen_msg(s, 8, max_exp, max_total), msg_outcome);
    report.sections.push(json!({"part": "b: random messages", "cases": n, "max_frame_bytes": 1usize << max_exp}));
    report.merge(r);

    // (c) greeting + READY from the wire of real sockets
    let mut rc = vec![];
    for k in ALL_KINDS {
        for id in identity_options() {
            rc.push(ReadyCase {
                kind: k,
                identity: id.map(|i| refcodec::hex(&i)),
            });
        }
        // every identity length: the READY body crosses the 255/256 boundary somewhere in
        // 215..=223 depending on the length of the socket type's name
        for len in 1..=255usize {
            rc.push(ReadyCase {
                kind: k,
                identity: Some(refcodec::hex(&fill(len as u32, len))),
            });
        }
    }
    let r = run_cases(ctx, "ready", &rc, ready_outcome);
    report.sections.push(json!({"part": "c: greeting+READY captured from real sockets", "cases": rc.len()}));
    report.exhaustive_parts.push(format!("9 socket types x ({} identity options + every identity length 1..=255)", identity_options().len()));
    report.merge(r);

    // bare encoder: READY with arbitrary properties, greeting variants
    let n = t.pick(20_000, 400_000);
    let r = run_random(ctx, "command", n, 2..=24, gen_cmd, cmd_outcome);
    report.sections.push(json!({"part": "c2: READY through the bare encoder, body sizes around 255/256 and 64 KiB", "cases": n}));
    report.merge(r);
    let mut gc = vec![];
    for v in [(3u8, 0u8), (3, 1), (1, 0), (2, 1), (4, 0), (255, 255)] {
        for m in ["NULL", "PLAIN", "CURVE"] {
            for s in [false, true] {
                gc.push(GreetCase {
                    version: v,
                    mechanism: m.into(),
                    as_server: s,
                });
            }
        }
    }
    let r = run_cases(ctx, "greeting", &gc, greet_outcome);
    report.merge(r);

    // (d) messages through real sockets (send().await and the PUB try_send path)
    let n = t.pick(2400, 40_000);
    let max_exp_s = t.pick(18, 21);
    let r = run_random(
        ctx,
        "socket_send",
        n,
        6..=60,
        |s| {
            let kind = s.pick(&[Kind::Push, Kind::Dealer, Kind::Pub, Kind::XPub, Kind::Req, Kind::Router, Kind::Rep]);
            let k = s.range(1, 3);
            let msgs = (0..k).map(|_| gen_msg(s, 4, max_exp_s, 1 << 21)).collect();
            SockSendCase { kind, msgs, stale: if kind == Kind::Req { s.pick(&[0usize, 0, 1, 2]) } else { 0 } }
        },
        sock_send_outcome,
    );
    report.sections.push(json!({"part": "d: messages through real PUSH/DEALER/PUB/XPUB/REQ/ROUTER/REP sockets to a raw peer (REQ / REP: behind exactly one delimiter, ROUTER: minus the identity frame; REQ also after earlier peers have failed)", "cases": n}));
    report.merge(r);
    // grid through sockets as well (single-frame + two-frame boundary shapes)
    let mut sc = vec![];
    for kind in [Kind::Push, Kind::Dealer, Kind::Pub, Kind::XPub, Kind::Req, Kind::Router, Kind::Rep] {
        for a in GRID {
            for stale in if kind == Kind::Req { vec![0usize, 2] } else { vec![0usize] } {
                sc.push(SockSendCase {
                    kind,
                    msgs: vec![MsgCase {
                        frames: vec![FrameSpec { len: a, fill: Fill::Seed(5) }, FrameSpec { len: 255, fill: Fill::Seed(6) }, FrameSpec { len: 256, fill: Fill::Seed(7) }],
                    }],
                    stale,
                });
            }
        }
    }
    let r = run_cases(ctx, "socket_send", &sc, sock_send_outcome);
    report.merge(r);

    if t == Tier::Thorough {
        crate::fuzzing::campaign(ctx, &mut report, "wire", 240);
    }
    let total = report.evaluations;
    health(&mut report, "has-long-frame", total, 40);
    health(&mut report, "has-empty-frame", total, 20);
    health(&mut report, "long-command", total, 20);

    let meta = PropertyMeta {
        level: "exploration",
        rule: "messages: exhaustive cross product of frame lengths {0,1,2,254,255,256,257,65535,65536,65537} for 1..3 frames plus proptest-generated 1..8 frames with log-uniform lengths (quick: to 4 MiB, thorough: to 16 MiB) and four body fills; greeting/READY captured from the wire of all 9 real socket types x 7 identity options; READY with generated property lists through the bare encoder; messages through real PUSH/DEALER/PUB/XPUB sockets. Oracle: byte equality with an independent RFC-23 encoder, strict independent decoder, and library decode round trip - of the whole buffer at once and through the real framed reader in 8 KiB reads (a multi-MiB frame is seen incomplete hundreds of times). Non-trivial = a frame of length 0 or >= 256, or >= 2 frames (for handshake cases: every case); distinct by hash of the case (length tuple + body fill)".into(),
        assumptions: vec![
            "the reference codec in harness/src/refcodec.rs transcribes RFC 23 correctly".into(),
            "signature padding bytes 1..8 of the greeting are not significant (RFC 23)".into(),
        ],
        exhaustive: false,
    };
    (report, meta)
}

pub fn replay(_ctx: &Ctx, kind: &str, case: &Value) -> Vec<Failure> {
    match kind {
        "msg" => parse_case::<MsgCase>(case).map(|c| msg_outcome(&c).failures),
        "ready" => parse_case::<ReadyCase>(case).map(|c| ready_outcome(&c).failures),
        "socket_send" => parse_case::<SockSendCase>(case).map(|c| sock_send_outcome(&c).failures),
        "command" => parse_case::<CmdCase>(case).map(|c| cmd_outcome(&c).failures),
        "greeting" => parse_case::<GreetCase>(case).map(|c| greet_outcome(&c).failures),
        _ => Err(vec![Failure::new("replay/unknown-kind", kind.to_string())]),
    }
    .unwrap_or_else(|e| e)
}
