//! Fair-queue schedule strings (DESIGN §2.4): the library's private fair queue is driven through
//! `__verif::FairQueueProbe` with scripted streams whose `poll_next` is harness code. Tokens of
//! the schedule that fall inside a stream poll run while the queue has released its lock — the
//! window in which other tasks insert, wake or close streams.

use crate::core::Failure;
use crate::fail;

use futures::Stream;
use serde::{Deserialize, Serialize};
use zeromq::__verif::{FairQueueHandle, FairQueueProbe};

use std::collections::VecDeque;
use std::pin::Pin;
use std::sync::atomic::{AtomicBool, AtomicU32, Ordering};
use std::sync::{Arc, Mutex};
use std::task::{Context, Poll, Wake, Waker};

#[derive(Debug, Clone, Copy, PartialEq, Eq, Hash, Serialize, Deserialize)]
pub enum Tok {
    /// one item becomes available on stream i (its stored waker fires)
    Push(u8),
    /// a burst of items becomes available on stream i
    Burst(u8),
    /// stream i reaches end-of-stream after its queued items
    Close(u8),
    /// a stream is inserted under key i (accept path)
    Insert(u8),
    /// the owning socket removes key i (only between polls)
    Remove(u8),
    /// an old, superseded waker clone of stream i fires
    StaleWake(u8),
    /// outside a poll: the receiver polls once. Inside a stream poll: delimiter between
    /// window-before / decision / window-after / return.
    Recv,
    /// outside a poll: run the receiver like an executor would until it parks, then check
    Settle,
    /// the receiving task's cooperative budget is used up: until the receiver's poll returns to
    /// the executor, every stream poll yields - it wakes its own waker immediately and returns
    /// Pending (what tokio I/O resources do outside a scheduler context, e.g. in the body of
    /// #[tokio::main])
    Exhaust,
    /// the receiver moves to another task (a `recv` future that was pending in one task - a
    /// timeout, a select! arm - is dropped and the socket is awaited from a different task):
    /// from now on the receiver is polled with a NEW waker, the new task polls it at least once,
    /// and wake-ups delivered to the old waker reach nobody. Only valid outside a stream poll
    /// and after the receiver has been polled at least once since the last migration.
    Migrate,
    /// a NEW stream is inserted under key i while the old one is still registered (a peer that
    /// comes back under its identity before the socket noticed that the old connection is
    /// dead): the old stream and whatever it still held are discarded, the new one must be
    /// polled. Only between polls.
    Replace(u8),
}

pub type Item = (u8, u32, u32); // key, generation, seq

struct StreamSt {
    live: bool, // inserted and neither ended nor removed
    gen: u32,
    queue: VecDeque<Item>,
    closed: bool,
    waker: Option<Waker>,
    old_wakers: Vec<Waker>,
    next_seq: u32,
    /// items the queue must eventually deliver for the current generation
    pending_expect: VecDeque<Item>,
    ever_inserted: bool,
    /// deliveries from other streams since this one became non-empty (None = empty / not waiting)
    bypass: Option<u32>,
    polled_after_end: bool,
}

pub struct World {
    streams: Vec<StreamSt>,
    toks: Vec<Tok>,
    pos: usize,
    in_poll: bool,
    pub invalid_at: Option<usize>,
    pub window_tokens: u32,
    pub window_wakes: u32,
    pub stream_polls: u64,
    pub burst: usize,
    dropped: Vec<(u8, u32)>,
    handle: Option<FairQueueHandle<ScriptStream, u8>>,
    pub two_busy: bool,
    /// budget exhausted: streams yield until the receiver's poll returns
    exhausted: bool,
    pub exhausted_used: bool,
    /// stream polls at the start of the current receiver poll
    polls_at_recv_start: u64,
    pub spin_detected: bool,
    pub migrated: bool,
    pub replaced: bool,
    /// key of the stream whose poll_next is executing
    in_poll_key: Option<u8>,
    in_poll_gen: u32,
    /// (key, generation) whose item may still be delivered by the receiver poll in progress
    grace: Option<(u8, u32)>,
    pub replaced_during_own_poll: bool,
}

pub struct ScriptStream {
    key: u8,
    gen: u32,
    world: Arc<Mutex<World>>,
}

impl Drop for ScriptStream {
    fn drop(&mut self) {
        if let Ok(mut w) = self.world.lock() {
            let k = (self.key, self.gen);
            w.dropped.push(k);
        }
    }
}

struct RecvFlag {
    woken: AtomicBool,
    count: AtomicU32,
}

impl Wake for RecvFlag {
    fn wake(self: Arc<Self>) {
        self.wake_by_ref();
    }
    fn wake_by_ref(self: &Arc<Self>) {
        self.woken.store(true, Ordering::SeqCst);
        self.count.fetch_add(1, Ordering::SeqCst);
    }
}

/// Execute one non-Recv token "on another thread". Returns false if the token is not valid in
/// the current state (sound-generator rule), in which case nothing happened.
fn exec(world: &Arc<Mutex<World>>, t: Tok, in_window: bool) -> bool {
    let n = world.lock().unwrap().streams.len();
    let idx = |i: u8| -> Option<usize> {
        if (i as usize) < n {
            Some(i as usize)
        } else {
            None
        }
    };
    match t {
        Tok::Push(i) | Tok::Burst(i) => {
            let Some(i) = idx(i) else { return false };
            let wk = {
                let mut w = world.lock().unwrap();
                let burst = w.burst;
                let s = &mut w.streams[i];
                if !s.live || s.closed {
                    return false;
                }
                let count = if matches!(t, Tok::Burst(_)) { burst } else { 1 };
                for _ in 0..count {
                    let it = (i as u8, s.gen, s.next_seq);
                    s.next_seq += 1;
                    s.queue.push_back(it);
                    s.pending_expect.push_back(it);
                }
                if s.bypass.is_none() {
                    s.bypass = Some(0);
                }
                let wk = s.waker.take();
                let busy = w.streams.iter().filter(|s| s.live && s.queue.len() >= 2).count();
                if busy >= 2 {
                    w.two_busy = true;
                }
                if in_window && wk.is_some() {
                    w.window_wakes += 1;
                }
                wk
            };
            if let Some(wk) = wk {
                wk.wake();
            }
            true
        }
        Tok::Close(i) => {
            let Some(i) = idx(i) else { return false };
            let wk = {
                let mut w = world.lock().unwrap();
                let s = &mut w.streams[i];
                if !s.live || s.closed {
                    return false;
                }
                s.closed = true;
                let wk = s.waker.take();
                if in_window && wk.is_some() {
                    w.window_wakes += 1;
                }
                wk
            };
            if let Some(wk) = wk {
                wk.wake();
            }
            true
        }
        Tok::Insert(i) => {
            let Some(i) = idx(i) else { return false };
            let (stream, handle) = {
                let mut w = world.lock().unwrap();
                // symmetry breaking: keys are first used in order
                if i > 0 && !w.streams[i - 1].ever_inserted {
                    return false;
                }
                let s = &mut w.streams[i];
                if s.live {
                    return false; // never reuse a live key
                }
                s.live = true;
                s.ever_inserted = true;
                s.gen += 1;
                s.queue.clear();
                s.pending_expect.clear();
                s.closed = false;
                s.waker = None;
                s.bypass = None;
                let gen = s.gen;
                if in_window {
                    w.window_wakes += 1;
                }
                (
                    ScriptStream {
                        key: i as u8,
                        gen,
                        world: world.clone(),
                    },
                    w.handle.clone().unwrap(),
                )
            };
            handle.insert(i as u8, stream);
            true
        }
        Tok::Replace(i) => {
            // also INSIDE a poll window (the accept path runs on another thread): if the stream
            // being polled is the one replaced, the item that poll is just handing out was
            // received before the replacement and is still delivered
            let Some(i) = idx(i) else { return false };
            let (stream, handle) = {
                let mut w = world.lock().unwrap();
                let polled = w.in_poll_key;
                let s = &mut w.streams[i];
                if !s.live {
                    return false;
                }
                let old_gen = s.gen;
                s.gen += 1;
                s.queue.clear();
                s.pending_expect.clear();
                s.closed = false;
                s.bypass = None;
                if let Some(wk) = s.waker.take() {
                    s.old_wakers.push(wk);
                }
                let gen = s.gen;
                w.replaced = true;
                if in_window {
                    w.window_wakes += 1;
                    if polled == Some(i as u8) {
                        let _ = old_gen;
                        w.grace = Some((i as u8, w.in_poll_gen));
                        w.replaced_during_own_poll = true;
                    }
                }
                (ScriptStream { key: i as u8, gen, world: world.clone() }, w.handle.clone().unwrap())
            };
            handle.insert(i as u8, stream);
            true
        }
        Tok::Remove(i) => {
            let Some(i) = idx(i) else { return false };
            if in_window {
                return false;
            }
            let handle = {
                let mut w = world.lock().unwrap();
                let s = &mut w.streams[i];
                if !s.live {
                    return false;
                }
                s.live = false;
                s.queue.clear();
                s.pending_expect.clear();
                s.bypass = None;
                if let Some(wk) = s.waker.take() {
                    s.old_wakers.push(wk);
                }
                w.handle.clone().unwrap()
            };
            handle.remove(&(i as u8));
            true
        }
        Tok::StaleWake(i) => {
            let Some(i) = idx(i) else { return false };
            let wk = {
                let mut w = world.lock().unwrap();
                let s = &mut w.streams[i];
                if s.old_wakers.is_empty() {
                    return false;
                }
                s.old_wakers.last().cloned()
            };
            if let Some(wk) = wk {
                wk.wake_by_ref();
            }
            true
        }
        Tok::Exhaust => {
            let mut w = world.lock().unwrap();
            if w.exhausted {
                return false;
            }
            w.exhausted = true;
            w.exhausted_used = true;
            true
        }
        Tok::Recv | Tok::Settle | Tok::Migrate => false,
    }
}

/// Run window tokens: consume tokens up to (and including) the next Recv delimiter.
fn run_window(world: &Arc<Mutex<World>>) {
    loop {
        let t = {
            let mut w = world.lock().unwrap();
            if w.invalid_at.is_some() || w.pos >= w.toks.len() {
                return;
            }
            let t = w.toks[w.pos];
            w.pos += 1;
            t
        };
        if t == Tok::Recv {
            return;
        }
        let ok = exec(world, t, true);
        let mut w = world.lock().unwrap();
        if !ok {
            w.invalid_at = Some(w.pos - 1);
            return;
        }
        w.window_tokens += 1;
    }
}

impl Stream for ScriptStream {
    type Item = Item;

    fn poll_next(self: Pin<&mut Self>, cx: &mut Context<'_>) -> Poll<Option<Item>> {
        let world = self.world.clone();
        {
            let mut w = world.lock().unwrap();
            w.stream_polls += 1;
            w.in_poll = true;
            w.in_poll_key = Some(self.key);
            w.in_poll_gen = self.gen;
            let me = self.key as usize;
            if w.streams[me].gen != self.gen || !w.streams[me].live {
                // a stream object the queue should no longer hold at all
                w.streams[me].polled_after_end = true;
                w.in_poll = false;
                w.in_poll_key = None;
                return Poll::Ready(None);
            }
            if w.stream_polls > 100_000 {
                // runaway: park without a waker so the queue can finish its loop
                return Poll::Pending;
            }
        }
        // window-before: other tasks act after check-out, before this stream decides
        run_window(&world);
        let res = {
            let mut w = world.lock().unwrap();
            let me = self.key as usize;
            let stale = w.streams[me].gen != self.gen || !w.streams[me].live;
            if stale {
                // replaced (or removed) in the window before it decided: behaves like the dead
                // connection it is - silent, or ended
                if self.gen % 2 == 0 {
                    Poll::Pending
                } else {
                    Poll::Ready(None)
                }
            } else if w.exhausted {
                // yield: wake ourselves right away, hand nothing over
                if w.stream_polls - w.polls_at_recv_start > 2_000 {
                    // the queue keeps re-polling a stream that only yields: stop feeding the loop
                    w.spin_detected = true;
                } else {
                    cx.waker().wake_by_ref();
                }
                Poll::Pending
            } else {
                let s = &mut w.streams[me];
                if let Some(it) = s.queue.pop_front() {
                    Poll::Ready(Some(it))
                } else if s.closed {
                    s.live = false;
                    s.bypass = None;
                    if let Some(wk) = s.waker.take() {
                        s.old_wakers.push(wk);
                    }
                    Poll::Ready(None)
                } else {
                    if let Some(old) = s.waker.replace(cx.waker().clone()) {
                        s.old_wakers.push(old);
                        if s.old_wakers.len() > 4 {
                            s.old_wakers.remove(0);
                        }
                    }
                    Poll::Pending
                }
            }
        };
        // window-after: other tasks act after the decision, before the queue puts the stream back
        run_window(&world);
        {
            let mut w = world.lock().unwrap();
            w.in_poll = false;
            w.in_poll_key = None;
        }
        res
    }
}

#[derive(Debug, Clone, Default, Serialize, Deserialize)]
pub struct RunStats {
    pub window_tokens: u32,
    pub window_wakes: u32,
    pub deliveries: u32,
    pub max_bypass: u32,
    pub two_busy: bool,
    pub invalid_at: Option<usize>,
    pub n_streams: usize,
    #[serde(default)]
    pub migrated: bool,
    #[serde(default)]
    pub replaced: bool,
    #[serde(default)]
    pub replaced_during_own_poll: bool,
}

pub struct RunResult {
    pub stats: RunStats,
    pub c05: Vec<Failure>,
    pub c06: Vec<Failure>,
}

pub const BURST: usize = 14;

/// Interpret one schedule string against the real fair queue.
pub fn run_schedule(toks: &[Tok], n_keys: usize, block_on_no_clients: bool) -> RunResult {
    let mut c05: Vec<Failure> = vec![];
    let mut c06: Vec<Failure> = vec![];
    let mut probe: FairQueueProbe<ScriptStream, u8> = FairQueueProbe::new(block_on_no_clients);
    let world = Arc::new(Mutex::new(World {
        streams: (0..n_keys)
            .map(|_| StreamSt {
                live: false,
                gen: 0,
                queue: VecDeque::new(),
                closed: false,
                waker: None,
                old_wakers: vec![],
                next_seq: 0,
                pending_expect: VecDeque::new(),
                ever_inserted: false,
                bypass: None,
                polled_after_end: false,
            })
            .collect(),
        toks: toks.to_vec(),
        pos: 0,
        in_poll: false,
        invalid_at: None,
        window_tokens: 0,
        window_wakes: 0,
        stream_polls: 0,
        burst: BURST,
        dropped: vec![],
        handle: Some(probe.handle()),
        two_busy: false,
        exhausted: false,
        exhausted_used: false,
        polls_at_recv_start: 0,
        spin_detected: false,
        migrated: false,
        replaced: false,
        in_poll_key: None,
        in_poll_gen: 0,
        grace: None,
        replaced_during_own_poll: false,
    }));
    // one (flag, waker) per task the receiver lives in; `cur` is the current one
    let flags: Vec<Arc<RecvFlag>> = (0..64)
        .map(|_| {
            Arc::new(RecvFlag {
                woken: AtomicBool::new(false),
                count: AtomicU32::new(0),
            })
        })
        .collect();
    let wakers: Vec<Waker> = flags.iter().map(|f| Waker::from(f.clone())).collect();
    let cur = std::cell::Cell::new(0usize);
    let mut stats = RunStats {
        n_streams: n_keys,
        ..Default::default()
    };
    // last receiver poll result: None = never polled, Some(true) = parked (Pending)
    let mut parked: Option<bool> = None;
    let mut ended_none = false;

    // one receiver poll + oracle bookkeeping
    let mut do_poll = |probe: &mut FairQueueProbe<ScriptStream, u8>,
                       parked: &mut Option<bool>,
                       stats: &mut RunStats,
                       c05: &mut Vec<Failure>,
                       c06: &mut Vec<Failure>,
                       ended_none: &mut bool| {
        flags[cur.get()].woken.store(false, Ordering::SeqCst);
        {
            let mut w = world.lock().unwrap();
            w.polls_at_recv_start = w.stream_polls;
            w.grace = None;
        }
        let mut cx = Context::from_waker(&wakers[cur.get()]);
        let r = Pin::new(&mut *probe).poll_next(&mut cx);
        let mut w = world.lock().unwrap();
        // back at the executor: the next poll starts with a fresh budget
        w.exhausted = false;
        if w.spin_detected {
            w.spin_detected = false;
            fail!(
                c06,
                "C06/queue/spins-on-a-stream-that-yields",
                "within ONE poll of the receiver the queue polled its streams more than 2000 times: a stream that returns Pending after waking itself (a yield, e.g. tokio I/O with the task's cooperative budget used up) is re-polled in a loop instead of the receiver returning to its executor"
            );
        }
        match r {
            Poll::Ready(Some((key, item))) => {
                *parked = Some(false);
                stats.deliveries += 1;
                // "number of peers" = connections ever inserted: a key that is removed and
                // inserted again is a new peer. (The queue cannot delete a removed stream's
                // ready events, so each earlier incarnation of a key can grant the current one
                // one extra turn - bounded by the number of connections, never by traffic.)
                let n_ever: u32 = w.streams.iter().map(|s| s.gen).sum();
                if item.0 != key {
                    fail!(c05, "C05/queue/wrong-key", "item {:?} of stream {} was returned under key {}", item, item.0, key);
                }
                let k = item.0 as usize;
                let grace = w.grace;
                // history invariant: exactly the next expected item of that stream
                let s = &mut w.streams[k];
                if s.gen != item.1 && grace == Some((key, item.1)) {
                    // handed out by the poll during which its stream was replaced: fine
                } else if s.gen != item.1 {
                    fail!(c05, "C05/queue/delivery-after-removal", "item {:?} of a removed/ended stream generation was delivered (current generation {})", item, s.gen);
                } else {
                    match s.pending_expect.pop_front() {
                        Some(e) if e == item => {}
                        Some(e) => {
                            fail!(c05, "C05/queue/out-of-order-or-duplicate", "stream {}: delivered {:?} but the next undelivered item is {:?}", k, item, e);
                        }
                        None => {
                            fail!(c05, "C05/queue/out-of-order-or-duplicate", "stream {}: delivered {:?} but nothing is outstanding (duplicate)", k, item);
                        }
                    }
                }
                // fairness: count this delivery against every other waiting stream
                let waited = s.bypass.unwrap_or(0);
                stats.max_bypass = stats.max_bypass.max(waited);
                s.bypass = if s.queue.is_empty() { None } else { Some(0) };
                for (j, o) in w.streams.iter_mut().enumerate() {
                    if j != k && o.live {
                        if let Some(b) = o.bypass.as_mut() {
                            *b += 1;
                            if *b > 2 * n_ever {
                                fail!(
                                    c06,
                                    "C06/queue/starvation",
                                    "stream {} has had an item ready while {} deliveries from other streams went ahead (bound 2n = {}, n = connections ever inserted)",
                                    j,
                                    *b,
                                    2 * n_ever
                                );
                            }
                        }
                    }
                }
            }
            Poll::Ready(None) => {
                *parked = Some(false);
                *ended_none = true;
                let live: Vec<usize> = w.streams.iter().enumerate().filter(|(_, s)| s.live).map(|x| x.0).collect();
                if block_on_no_clients {
                    fail!(c06, "C06/queue/end-of-stream-while-blocking", "the queue reported end-of-stream although it is configured to wait for clients");
                } else if !live.is_empty() {
                    fail!(c06, "C06/queue/end-of-stream-with-live-streams", "the queue reported end-of-stream while streams {:?} are still connected", live);
                }
            }
            Poll::Pending => {
                *parked = Some(true);
            }
        }
    };

    // executor-mode drain: poll again only when a real executor would
    let drain = |probe: &mut FairQueueProbe<ScriptStream, u8>,
                     parked: &mut Option<bool>,
                     stats: &mut RunStats,
                     c05: &mut Vec<Failure>,
                     c06: &mut Vec<Failure>,
                     ended_none: &mut bool,
                     do_poll: &mut dyn FnMut(&mut FairQueueProbe<ScriptStream, u8>, &mut Option<bool>, &mut RunStats, &mut Vec<Failure>, &mut Vec<Failure>, &mut bool),
                     what: &str| {
        let mut guard = 0;
        loop {
            guard += 1;
            if guard > 10_000 {
                fail!(c06, "C06/queue/spin", "receiver keeps being woken without ever parking ({})", what);
                break;
            }
            let must_poll = match *parked {
                None | Some(false) => !*ended_none,
                Some(true) => flags[cur.get()].woken.load(Ordering::SeqCst),
            };
            if !must_poll {
                break;
            }
            do_poll(probe, parked, stats, c05, c06, ended_none);
        }
        // parked with no pending wake: nothing deliverable may remain
        if !*ended_none {
            let w = world.lock().unwrap();
            for (i, s) in w.streams.iter().enumerate() {
                if s.live && !s.queue.is_empty() {
                    fail!(
                        c06,
                        "C06/queue/lost-wakeup",
                        "receiver is parked with no wake pending ({}), but connected stream {} holds {} undelivered item(s)",
                        what,
                        i,
                        s.queue.len()
                    );
                }
                if s.live && s.closed && s.queue.is_empty() && s.waker.is_none() {
                    // closed but its end was never observed and nobody will poll it again:
                    // a leak, not a lost message; not asserted here (C16)
                }
            }
        }
    };

    loop {
        let t = {
            let mut w = world.lock().unwrap();
            if w.invalid_at.is_some() || w.pos >= w.toks.len() {
                break;
            }
            let t = w.toks[w.pos];
            w.pos += 1;
            t
        };
        match t {
            Tok::Recv => {
                if ended_none {
                    // a finished queue is not polled again
                    let mut w = world.lock().unwrap();
                    w.invalid_at = Some(w.pos - 1);
                    break;
                }
                do_poll(&mut probe, &mut parked, &mut stats, &mut c05, &mut c06, &mut ended_none);
            }
            Tok::Migrate => {
                // pointless (and pruned) before the first poll or right after a migration
                if ended_none || parked.is_none() || cur.get() + 1 >= flags.len() {
                    let mut w = world.lock().unwrap();
                    w.invalid_at = Some(w.pos - 1);
                    break;
                }
                cur.set(cur.get() + 1);
                parked = None;
                world.lock().unwrap().migrated = true;
            }
            Tok::Settle => {
                if ended_none {
                    let mut w = world.lock().unwrap();
                    w.invalid_at = Some(w.pos - 1);
                    break;
                }
                drain(&mut probe, &mut parked, &mut stats, &mut c05, &mut c06, &mut ended_none, &mut do_poll, "at a Settle token");
            }
            other => {
                if !exec(&world, other, false) {
                    let mut w = world.lock().unwrap();
                    w.invalid_at = Some(w.pos - 1);
                    break;
                }
            }
        }
    }
    let invalid = world.lock().unwrap().invalid_at;
    if invalid.is_none() {
        drain(&mut probe, &mut parked, &mut stats, &mut c05, &mut c06, &mut ended_none, &mut do_poll, "after the schedule");
        // C05: after the final drain everything pushed to connected streams was delivered
        let w = world.lock().unwrap();
        if !ended_none {
            for (i, s) in w.streams.iter().enumerate() {
                if s.live && !s.pending_expect.is_empty() {
                    fail!(c05, "C05/queue/message-never-delivered", "stream {}: {} pushed item(s) were never delivered (first {:?})", i, s.pending_expect.len(), s.pending_expect.front());
                }
            }
        }
        for (i, s) in w.streams.iter().enumerate() {
            if s.polled_after_end {
                fail!(c05, "C05/queue/stream-polled-after-end", "stream {} was polled again after it had ended or been removed", i);
            }
        }
    }
    {
        let w = world.lock().unwrap();
        stats.window_tokens = w.window_tokens;
        stats.window_wakes = w.window_wakes;
        stats.two_busy = w.two_busy;
        stats.migrated = w.migrated;
        stats.replaced = w.replaced;
        stats.replaced_during_own_poll = w.replaced_during_own_poll;
        stats.invalid_at = w.invalid_at;
        if w.stream_polls > 100_000 {
            fail!(c06, "C06/queue/spin", "more than 100000 stream polls in one schedule");
        }
    }
    // break the Arc cycle world -> handle -> queue -> streams -> world
    let h = world.lock().unwrap().handle.take();
    drop(h);
    drop(probe);
    RunResult { stats, c05, c06 }
}

pub fn alphabet(n_keys: usize, with_stale: bool) -> Vec<Tok> {
    let mut v = vec![Tok::Recv, Tok::Settle, Tok::Exhaust];
    for i in 0..n_keys as u8 {
        v.push(Tok::Insert(i));
        v.push(Tok::Push(i));
        v.push(Tok::Burst(i));
        v.push(Tok::Close(i));
        v.push(Tok::Remove(i));
        if with_stale {
            v.push(Tok::StaleWake(i));
        }
    }
    v
}

/// `alphabet` plus the Migrate token (kept separate: byte-level fuzz inputs and their saved
/// replays index into `alphabet`)
pub fn alphabet_m(n_keys: usize, with_stale: bool) -> Vec<Tok> {
    let mut v = alphabet(n_keys, with_stale);
    v.push(Tok::Migrate);
    for i in 0..n_keys as u8 {
        v.push(Tok::Replace(i));
    }
    v
}

pub fn show(toks: &[Tok]) -> String {
    toks.iter()
        .map(|t| match t {
            Tok::Push(i) => format!("P{}", i),
            Tok::Burst(i) => format!("B{}", i),
            Tok::Close(i) => format!("C{}", i),
            Tok::Insert(i) => format!("I{}", i),
            Tok::Remove(i) => format!("X{}", i),
            Tok::StaleWake(i) => format!("W{}", i),
            Tok::Recv => "R".into(),
            Tok::Settle => "S".into(),
            Tok::Exhaust => "E".into(),
            Tok::Migrate => "M".into(),
            Tok::Replace(i) => format!("N{}", i),
        })
        .collect::<Vec<_>>()
        .join(" ")
}


/// Depth-first enumeration of all schedule strings up to `depth` with prefix pruning at the
/// first invalid token. `first` restricts the first token (sharding). Every valid prefix is
/// itself visited as a complete schedule.
pub fn enumerate(
    alphabet: &[Tok],
    n_keys: usize,
    depth: usize,
    block: bool,
    first: &[Tok],
    visit: &mut dyn FnMut(&[Tok], &RunResult),
) {
    fn rec(alphabet: &[Tok], n_keys: usize, depth: usize, block: bool, cur: &mut Vec<Tok>, visit: &mut dyn FnMut(&[Tok], &RunResult)) {
        let r = run_schedule(cur, n_keys, block);
        if r.stats.invalid_at.is_some() {
            return;
        }
        visit(cur, &r);
        if cur.len() >= depth {
            return;
        }
        for t in alphabet {
            cur.push(*t);
            rec(alphabet, n_keys, depth, block, cur, visit);
            cur.pop();
        }
    }
    let mut cur = first.to_vec();
    rec(alphabet, n_keys, depth, block, &mut cur, visit);
}
