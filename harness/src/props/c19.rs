//! C19 — endpoint parsing is total, strict, and round-trips through its text form.

use crate::core::*;
use crate::fail;
use crate::props::parse_case;

use serde::{Deserialize, Serialize};
use serde_json::{json, Value};
use zeromq::{Endpoint, Host};

use std::net::{Ipv4Addr, Ipv6Addr};

#[derive(Debug, Clone, PartialEq, Eq)]
pub enum RefHost {
    V4(Ipv4Addr),
    V6(Ipv6Addr),
    Domain(String),
    /// the statement does not settle how this host text is classified
    Unspecified,
}

#[derive(Debug, Clone, PartialEq, Eq)]
pub enum RefEndpoint {
    Tcp { host_text: String, host: RefHost, port: u16 },
    Ipc(String),
}

#[derive(Debug, Clone, PartialEq, Eq)]
pub enum RefVerdict {
    MustAccept(RefEndpoint),
    MustReject(&'static str),
    Unspecified(&'static str),
}

/// canonical dotted quad: four decimal octets 0..255 without leading zeros
fn ref_ipv4(s: &str) -> Option<Ipv4Addr> {
    let parts: Vec<&str> = s.split('.').collect();
    if parts.len() != 4 {
        return None;
    }
    let mut o = [0u8; 4];
    for (i, p) in parts.iter().enumerate() {
        if p.is_empty() || p.len() > 3 || !p.bytes().all(|b| b.is_ascii_digit()) {
            return None;
        }
        if p.len() > 1 && p.starts_with('0') {
            return None;
        }
        let v: u32 = p.parse().ok()?;
        if v > 255 {
            return None;
        }
        o[i] = v as u8;
    }
    Some(Ipv4Addr::new(o[0], o[1], o[2], o[3]))
}

/// RFC 4291 §2.2 text forms: 8 hex groups, one "::" compression, optional dotted-quad tail.
/// No zone ids. Returns None for anything else.
fn ref_ipv6(s: &str) -> Option<Ipv6Addr> {
    if s.is_empty() || !s.is_ascii() {
        return None;
    }
    fn groups(part: &str, allow_v4_tail: bool) -> Option<Vec<u16>> {
        if part.is_empty() {
            return Some(vec![]);
        }
        let toks: Vec<&str> = part.split(':').collect();
        let mut out = vec![];
        for (i, t) in toks.iter().enumerate() {
            if t.contains('.') {
                if !(allow_v4_tail && i + 1 == toks.len()) {
                    return None;
                }
                let v4 = ref_ipv4(t)?;
                let o = v4.octets();
                out.push(((o[0] as u16) << 8) | o[1] as u16);
                out.push(((o[2] as u16) << 8) | o[3] as u16);
            } else {
                if t.is_empty() || t.len() > 4 || !t.bytes().all(|b| b.is_ascii_hexdigit()) {
                    return None;
                }
                out.push(u16::from_str_radix(t, 16).ok()?);
            }
        }
        Some(out)
    }
    let g: Vec<u16> = if let Some(idx) = s.find("::") {
        let (a, b) = (&s[..idx], &s[idx + 2..]);
        if b.contains("::") {
            return None;
        }
        let ga = groups(a, false)?;
        let gb = groups(b, true)?;
        if ga.len() + gb.len() > 7 {
            return None;
        }
        let mut v = ga.clone();
        v.extend(std::iter::repeat(0).take(8 - ga.len() - gb.len()));
        v.extend(gb);
        v
    } else {
        let v = groups(s, true)?;
        if v.len() != 8 {
            return None;
        }
        v
    };
    Some(Ipv6Addr::new(g[0], g[1], g[2], g[3], g[4], g[5], g[6], g[7]))
}

fn ref_host(h: &str) -> RefHost {
    let std4 = h.parse::<Ipv4Addr>().ok();
    let my4 = ref_ipv4(h);
    if my4.is_some() || std4.is_some() {
        return if my4 == std4 { RefHost::V4(my4.unwrap()) } else { RefHost::Unspecified };
    }
    let inner = if h.len() >= 2 && h.starts_with('[') && h.ends_with(']') {
        &h[1..h.len() - 1]
    } else {
        h
    };
    let std6 = inner.parse::<Ipv6Addr>().ok();
    let my6 = ref_ipv6(inner);
    if my6.is_some() || std6.is_some() {
        return if my6 == std6 { RefHost::V6(my6.unwrap()) } else { RefHost::Unspecified };
    }
    // also a bare (unbracketed) std/my parse of the whole text, when brackets were stripped
    if inner.len() != h.len() {
        if h.parse::<Ipv6Addr>().is_ok() {
            return RefHost::Unspecified;
        }
    }
    // a host made only of address-like characters that neither parser accepts: domain by
    // the library's rule; the statement only promises literals are recognised, so Domain is
    // what "not an address literal" means here.
    RefHost::Domain(h.to_string())
}

/// Independent reference for the statement of C19 (no regexes).
pub fn ref_parse(s: &str) -> RefVerdict {
    if s.contains('\n') {
        return RefVerdict::Unspecified("contains a newline");
    }
    let Some(idx) = s.find("://") else {
        return RefVerdict::MustReject("no ://");
    };
    let scheme = &s[..idx];
    let rest = &s[idx + 3..];
    match scheme {
        "tcp" | "ipc" => {}
        _ => return RefVerdict::MustReject("scheme is not exactly tcp or ipc"),
    }
    if rest.is_empty() {
        return RefVerdict::MustReject("empty address");
    }
    if scheme == "ipc" {
        return RefVerdict::MustAccept(RefEndpoint::Ipc(rest.to_string()));
    }
    let Some(c) = rest.rfind(':') else {
        return RefVerdict::MustReject("no port separator");
    };
    let host = &rest[..c];
    let port = &rest[c + 1..];
    if host.is_empty() {
        return RefVerdict::MustReject("empty host");
    }
    if port.is_empty() || !port.bytes().all(|b| b.is_ascii_digit()) {
        return RefVerdict::MustReject("port is not ASCII decimal");
    }
    let trimmed = port.trim_start_matches('0');
    let val: u32 = if trimmed.is_empty() {
        0
    } else if trimmed.len() > 5 {
        70000
    } else {
        trimmed.parse().unwrap()
    };
    if val > 65535 {
        return RefVerdict::MustReject("port out of range");
    }
    RefVerdict::MustAccept(RefEndpoint::Tcp {
        host_text: host.to_string(),
        host: ref_host(host),
        port: val as u16,
    })
}

/// The oracle for one input string. Returns (failures, got past the scheme check).
pub fn check_str(s: &str) -> (Vec<Failure>, bool) {
    let mut f = vec![];
    let verdict = ref_parse(s);
    let past_scheme = s.starts_with("tcp://") || s.starts_with("ipc://");
    let got = match std::panic::catch_unwind(|| s.parse::<Endpoint>()) {
        Ok(r) => r,
        Err(_) => {
            fail!(f, "C19/panic/parse", "parsing {:?} panicked", s);
            return (f, past_scheme);
        }
    };
    match (&verdict, &got) {
        (RefVerdict::MustReject(why), Ok(e)) => {
            fail!(f, "C19/accepts-invalid", "{:?} was accepted as {:?} but must be rejected ({})", s, e, why);
        }
        (RefVerdict::MustAccept(r), Err(e)) => {
            fail!(f, "C19/rejects-valid", "{:?} was rejected ({}) but must be accepted as {:?}", s, e, r);
        }
        (RefVerdict::MustAccept(r), Ok(e)) => match (r, e) {
            (RefEndpoint::Ipc(p), Endpoint::Ipc(Some(got))) => {
                if got.to_str() != Some(p.as_str()) {
                    fail!(f, "C19/value/ipc-path", "{:?} parsed to path {:?}", s, got);
                }
            }
            (RefEndpoint::Tcp { host_text, host, port }, Endpoint::Tcp(gh, gp)) => {
                if gp != port {
                    fail!(f, "C19/value/port", "{:?} parsed to port {} (expected {})", s, gp, port);
                }
                match (host, gh) {
                    (RefHost::Unspecified, _) => {}
                    (RefHost::V4(a), Host::Ipv4(b)) if a == b => {}
                    (RefHost::V6(a), Host::Ipv6(b)) if a == b => {}
                    (RefHost::Domain(a), Host::Domain(b)) if a == b => {}
                    (want, got) => {
                        let sig = match want {
                            RefHost::V4(_) => "C19/classify/ipv4-literal",
                            RefHost::V6(_) => "C19/classify/ipv6-literal",
                            _ => "C19/classify/domain",
                        };
                        fail!(f, sig, "{:?}: host {:?} classified as {:?}, expected {:?}", s, host_text, got, want);
                    }
                }
            }
            (r, e) => fail!(f, "C19/value/transport", "{:?} parsed to {:?}, expected {:?}", s, e, r),
        },
        _ => {}
    }
    if let Ok(e) = &got {
        // parse(format(e)) == e for every endpoint obtained by parsing
        let text = match std::panic::catch_unwind(|| e.to_string()) {
            Ok(t) => t,
            Err(_) => {
                fail!(f, "C19/panic/display", "formatting the endpoint parsed from {:?} panicked", s);
                return (f, past_scheme);
            }
        };
        match std::panic::catch_unwind(|| text.parse::<Endpoint>()) {
            Err(_) => fail!(f, "C19/panic/parse", "parsing {:?} panicked", text),
            Ok(Err(err)) => fail!(f, "C19/roundtrip/reparse-fails", "{:?} -> {:?} -> text {:?} does not parse: {}", s, e, text, err),
            Ok(Ok(e2)) => {
                if &e2 != e {
                    fail!(f, "C19/roundtrip/not-equal", "{:?} -> {:?} -> text {:?} -> {:?}", s, e, text, e2);
                }
            }
        }
        if let Endpoint::Tcp(Host::Ipv6(_), port) = e {
            let ok = text.starts_with("tcp://[") && text.ends_with(&format!("]:{}", port));
            if !ok {
                fail!(f, "C19/display/ipv6-not-bracketed", "IPv6 endpoint parsed from {:?} prints as {:?}", s, text);
            }
        }
    }
    (f, past_scheme)
}

#[derive(Debug, Clone, Serialize, Deserialize)]
pub struct StrCase {
    pub s: String,
}

fn str_outcome(c: &StrCase) -> Outcome {
    let mut o = Outcome::new(hash_of(&c.s));
    let (r, panics) = capture_panics(|| check_str(&c.s));
    if let Some((f, past)) = r {
        o.failures = f;
        o.nontrivial = past;
        if past {
            o.class("past-scheme");
        }
    }
    match ref_parse(&c.s) {
        RefVerdict::MustAccept(RefEndpoint::Tcp { host, .. }) => {
            o.class("ref-accept");
            match host {
                RefHost::V4(_) => o.class("host-ipv4"),
                RefHost::V6(_) => o.class("host-ipv6"),
                RefHost::Domain(_) => o.class("host-domain"),
                RefHost::Unspecified => o.class("host-unspecified"),
            }
        }
        RefVerdict::MustAccept(_) => o.class("ref-accept"),
        RefVerdict::MustReject(_) => o.class("ref-reject"),
        RefVerdict::Unspecified(_) => o.class("ref-unspecified"),
    }
    for p in panics {
        o.fail(format!("C19/panic/{}", panic_sig(&p)), p);
    }
    o
}

pub const ALPHABET: [&str; 15] = ["t", "c", "p", "i", ":", "/", "[", "]", ".", "0", "1", "9", "a", "\n", "é"];

/// exhaustive: prefix + every string over ALPHABET up to `max_len`
fn exhaustive(ctx: &Ctx, prefixes: &[&str], max_len: usize) -> Report {
    let n = ALPHABET.len();
    // shard by the first character (and the empty string in shard 0)
    par_shards(n, DEFAULT_STACK, |shard| {
        let mut rep = Report::default();
        let run = |s: &str, rep: &mut Report| {
            let c = StrCase { s: s.to_string() };
            let o = str_outcome(&c);
            if let Some(f) = rep.record(ctx, &o) {
                rep.violation(ctx, "str", &f, json!({"s": s}));
            }
        };
        for p in prefixes {
            if shard == 0 {
                run(p, &mut rep);
            }
            if max_len == 0 {
                continue;
            }
            for len in 1..=max_len {
                let rest = len - 1;
                let total = n.pow(rest as u32);
                for mut code in 0..total {
                    let mut s = String::with_capacity(p.len() + len * 2);
                    s.push_str(p);
                    s.push_str(ALPHABET[shard]);
                    for _ in 0..rest {
                        s.push_str(ALPHABET[code % n]);
                        code /= n;
                    }
                    run(&s, &mut rep);
                }
            }
        }
        rep
    })
}

const V6_FORMS: [&str; 22] = [
    "::", "::1", "1::", "::ffff:1.2.3.4", "::1.2.3.4", "fe80::1", "2001:db8::8a2e:370:7334", "1:2:3:4:5:6:7:8", "1:2:3:4:5:6:1.2.3.4",
    "0:0:0:0:0:0:0:0", "::0", "1::8", "1:2:3:4:5:6:7::", "::2:3:4:5:6:7:8", "ABCD:EF01::", "fe80::1%eth0", "1:2:3:4:5:6:7", "1:2:3:4:5:6:7:8:9",
    "1::2::3", "12345::", ":::", "::g",
];
const V4_FORMS: [&str; 14] = [
    "127.0.0.1", "0.0.0.0", "255.255.255.255", "1.2.3.4", "256.1.1.1", "01.2.3.4", "1.2.3", "1.2.3.4.5", "1..2.3", "1.2.3.04", "999.9.9.9", "1.2.3.4.", ".1.2.3.4",
    "0x7f.0.0.1",
];
const DOMAINS: [&str; 12] = ["localhost", "example.com", "a", "a-b.c", "x_y", "*", "UPPER.case", "münchen.de", "a b", "a:b", "[", "]"];
const PORTS: [&str; 18] = [
    "0", "1", "80", "65535", "65536", "99999", "00080", "0000000000000000000000000000080", "123456789012345678901234567890", "+80", "-1", "", " 80", "80 ", "8a", "٣٤", "８０", "1e3",
];
const SCHEMES: [&str; 12] = ["tcp", "ipc", "TCP", "Tcp", "udp", "inproc", "tcp ", " tcp", "", "t", "tcpx", "ｔｃｐ"];

fn gen_grammar(src: &mut Src<'_>) -> StrCase {
    let scheme = if src.chance(3, 4) { src.pick(&["tcp", "tcp", "tcp", "ipc"]).to_string() } else { src.pick(&SCHEMES).to_string() };
    let sep = if src.chance(15, 16) { "://" } else { src.pick(&[":/", "//", ":///", "", "::/"]) };
    let mut host = match src.weighted(&[3, 3, 3, 1]) {
        // the first four IPv4 forms and the first fifteen IPv6 forms are valid literals
        0 => if src.bool() { src.pick(&V4_FORMS[..4]).to_string() } else { src.pick(&V4_FORMS).to_string() },
        1 => if src.bool() { src.pick(&V6_FORMS[..15]).to_string() } else { src.pick(&V6_FORMS).to_string() },
        2 => src.pick(&DOMAINS).to_string(),
        _ => String::new(),
    };
    match src.weighted(&[6, 3, 1, 1, 1]) {
        0 => {}
        1 => host = format!("[{}]", host),
        2 => host = format!("[{}", host),
        3 => host = format!("{}]", host),
        _ => host = format!("[[{}]]", host),
    }
    let port = if src.bool() { src.pick(&PORTS[..4]).to_string() } else { src.pick(&PORTS).to_string() };
    let colon = if src.chance(15, 16) { ":" } else { "" };
    let tail = if src.chance(1, 12) { src.pick(&["\n", "/", ":", " ", "\u{0}"]) } else { "" };
    StrCase {
        s: format!("{}{}{}{}{}{}", scheme, sep, host, colon, port, tail),
    }
}

const PALETTE: [&str; 40] = [
    "t", "c", "p", "i", ":", "/", "[", "]", ".", "0", "1", "2", "5", "6", "9", "a", "f", "z", "A", "-", "_", "%", " ", "\n", "\t", "\r", "\u{0}", "é", "٣", "８", "𝟡", "中", "😀", "\u{202e}", "\u{feff}", "//",
    "://", "tcp://", "ipc://", "::",
];

fn gen_unicode(src: &mut Src<'_>) -> StrCase {
    let n = src.range(0, 24);
    let mut s = String::new();
    if src.chance(2, 3) {
        s.push_str(src.pick(&["tcp://", "ipc://"]));
    }
    for _ in 0..n {
        if src.chance(1, 10) {
            // arbitrary scalar value
            let v = src.u32() % 0x11_0000;
            if let Some(c) = char::from_u32(v) {
                s.push(c);
            }
        } else {
            s.push_str(src.pick(&PALETTE));
        }
    }
    StrCase { s }
}

pub fn run(ctx: &Ctx) -> (Report, PropertyMeta) {
    let mut report = Report::default();
    let t = ctx.tier;
    let l = t.pick(5, 6);
    let r = exhaustive(ctx, &["tcp://", "ipc://"], l);
    report.exhaustive_parts.push(format!("'tcp://' and 'ipc://' followed by every string of length <= {} over {:?} ({} strings)", l, ALPHABET, r.evaluations));
    report.merge(r);
    // the scheme part itself
    let r = exhaustive(ctx, &[""], 4);
    report.exhaustive_parts.push(format!("every string of length <= 4 over the alphabet alone ({} strings)", r.evaluations));
    report.merge(r);
    // scheme × separator × short bodies
    let mut sc = vec![];
    for s in SCHEMES {
        for body in ["a:1", "[::1]:1", "/tmp/x", "", ":1", "a:"] {
            sc.push(StrCase { s: format!("{}://{}", s, body) });
            sc.push(StrCase { s: format!("{}{}", s, body) });
        }
    }
    // full cross product of hand-written host forms x bracket styles x ports
    for h in V4_FORMS.iter().chain(V6_FORMS.iter()).chain(DOMAINS.iter()) {
        for p in PORTS {
            for hb in [h.to_string(), format!("[{}]", h)] {
                sc.push(StrCase { s: format!("tcp://{}:{}", hb, p) });
            }
        }
    }
    let r = run_cases(ctx, "str", &sc, str_outcome);
    report.exhaustive_parts.push(format!("host forms x bracket styles x port forms cross product ({} strings)", sc.len()));
    report.merge(r);
    let n = t.pick(200_000, 4_000_000);
    report.merge(run_random(ctx, "str", n, 4..=16, gen_grammar, str_outcome));
    report.merge(run_random(ctx, "str", n, 2..=60, gen_unicode, str_outcome));
    report.sections.push(json!({"random_grammar_cases": n, "random_unicode_cases": n}));

    if t == Tier::Thorough {
        crate::fuzzing::campaign(ctx, &mut report, "endpoint", 240);
    }
    let total = report.evaluations;
    health(&mut report, "past-scheme", total, 500);
    health(&mut report, "ref-accept", total, 20);
    health_abs(&mut report, "host-ipv6", 500);
    health_abs(&mut report, "host-ipv4", 300);
    health_abs(&mut report, "host-domain", 1000);

    let meta = PropertyMeta {
        level: "exploration",
        rule: format!("exhaustive: 'tcp://'/'ipc://' + all strings of length <= {} over a 15-symbol alphabet (incl. newline and a non-ASCII letter), all strings of length <= 4 alone; cross product of hand-written IPv4/IPv6/domain forms x bracket styles x port forms; proptest grammar-based and random-Unicode strings. Oracle: independent three-valued reference parser (must-accept with value / must-reject / unspecified for strings with a newline or borderline address literals), parse-format-parse equality, IPv6 bracketed in the text form, no panic. Non-trivial = the string gets past the scheme check (starts with tcp:// or ipc://); distinct by the string", l),
        assumptions: vec![
            "strings containing a newline are 'unspecified' (the statement does not settle them); only totality and round-trip are asserted there".into(),
            "address literals on which the harness's own RFC-4291/dotted-quad recogniser and std::net disagree (leading zeros, zone ids) are 'unspecified' for classification".into(),
        ],
        exhaustive: false,
    };
    (report, meta)
}

pub fn replay(_ctx: &Ctx, kind: &str, case: &Value) -> Vec<Failure> {
    match kind {
        "str" => parse_case::<StrCase>(case).map(|c| str_outcome(&c).failures),
        _ => Err(vec![Failure::new("replay/unknown-kind", kind.to_string())]),
    }
    .unwrap_or_else(|e| e)
}

#[cfg(test)]
mod tests {
    use super::*;
    #[test]
    fn reference_v6() {
        for s in V6_FORMS {
            assert_eq!(ref_ipv6(s), s.parse::<Ipv6Addr>().ok(), "{}", s);
        }
        for s in V4_FORMS {
            assert_eq!(ref_ipv4(s), s.parse::<Ipv4Addr>().ok(), "{}", s);
        }
    }
}
