//! Real zeromq sockets under a harness-owned step scheduler (DESIGN §2.3).
//!
//! Every API call is a boxed future polled one step at a time; sockets live in
//! `Arc<tokio::sync::Mutex<Option<_>>>` so a call can be dropped (cancelled) after k polls and
//! the socket reused. Runs inside `block_on` of a current-thread tokio runtime (PUB spawns).

use crate::pipe::{activity, Pipe};

use async_trait::async_trait;
use bytes::Bytes;
use zeromq::util::PeerIdentity;
use zeromq::{
    CaptureSocket, DealerSocket, MultiPeerBackend, PubSocket, PullSocket, PushSocket, RepSocket,
    ReqSocket, RouterSocket, Socket, SocketOptions, SocketRecv, SocketSend, SubSocket, XPubSocket,
    ZmqError, ZmqMessage, ZmqResult,
};

use serde::{Deserialize, Serialize};
use std::convert::TryFrom;
use std::future::Future;
use std::pin::Pin;
use std::sync::atomic::{AtomicBool, AtomicU32, Ordering};
use std::sync::Arc;
use std::task::{Context, Poll, Wake, Waker};

#[derive(Debug, Clone, Copy, PartialEq, Eq, Hash, Serialize, Deserialize, PartialOrd, Ord)]
pub enum Kind {
    Pub,
    Sub,
    Req,
    Rep,
    Dealer,
    Router,
    Pull,
    Push,
    XPub,
}

pub const ALL_KINDS: [Kind; 9] = [
    Kind::Pub,
    Kind::Sub,
    Kind::Req,
    Kind::Rep,
    Kind::Dealer,
    Kind::Router,
    Kind::Pull,
    Kind::Push,
    Kind::XPub,
];

impl Kind {
    pub fn name(self) -> &'static str {
        match self {
            Kind::Pub => "PUB",
            Kind::Sub => "SUB",
            Kind::Req => "REQ",
            Kind::Rep => "REP",
            Kind::Dealer => "DEALER",
            Kind::Router => "ROUTER",
            Kind::Pull => "PULL",
            Kind::Push => "PUSH",
            Kind::XPub => "XPUB",
        }
    }
    pub fn can_recv(self) -> bool {
        !matches!(self, Kind::Pub | Kind::Push)
    }
    pub fn can_send(self) -> bool {
        !matches!(self, Kind::Sub | Kind::Pull)
    }
    /// A socket type a raw peer can announce to be admitted by this kind.
    pub fn a_compatible_peer(self) -> &'static str {
        match self {
            Kind::Pub => "SUB",
            Kind::Sub => "PUB",
            Kind::Req => "REP",
            Kind::Rep => "REQ",
            Kind::Dealer => "ROUTER",
            Kind::Router => "DEALER",
            Kind::Pull => "PUSH",
            Kind::Push => "PULL",
            Kind::XPub => "SUB",
        }
    }
    /// uses the fair queue for receiving
    pub fn fair_queue_recv(self) -> bool {
        matches!(self, Kind::Sub | Kind::Rep | Kind::Dealer | Kind::Router | Kind::Pull | Kind::XPub)
    }
}

pub enum AnySocket {
    Pub(PubSocket),
    Sub(SubSocket),
    Req(ReqSocket),
    Rep(RepSocket),
    Dealer(DealerSocket),
    Router(RouterSocket),
    Pull(PullSocket),
    Push(PushSocket),
    XPub(XPubSocket),
}

impl AnySocket {
    pub fn new(kind: Kind, identity: Option<&[u8]>) -> AnySocket {
        let mut o = SocketOptions::default();
        if let Some(id) = identity {
            o.peer_identity(PeerIdentity::try_from(id.to_vec()).expect("identity option"));
        }
        match kind {
            Kind::Pub => AnySocket::Pub(PubSocket::with_options(o)),
            Kind::Sub => AnySocket::Sub(SubSocket::with_options(o)),
            Kind::Req => AnySocket::Req(ReqSocket::with_options(o)),
            Kind::Rep => AnySocket::Rep(RepSocket::with_options(o)),
            Kind::Dealer => AnySocket::Dealer(DealerSocket::with_options(o)),
            Kind::Router => AnySocket::Router(RouterSocket::with_options(o)),
            Kind::Pull => AnySocket::Pull(PullSocket::with_options(o)),
            Kind::Push => AnySocket::Push(PushSocket::with_options(o)),
            Kind::XPub => AnySocket::XPub(XPubSocket::with_options(o)),
        }
    }
    pub fn backend(&self) -> Arc<dyn MultiPeerBackend> {
        match self {
            AnySocket::Pub(s) => s.backend(),
            AnySocket::Sub(s) => s.backend(),
            AnySocket::Req(s) => s.backend(),
            AnySocket::Rep(s) => s.backend(),
            AnySocket::Dealer(s) => s.backend(),
            AnySocket::Router(s) => s.backend(),
            AnySocket::Pull(s) => s.backend(),
            AnySocket::Push(s) => s.backend(),
            AnySocket::XPub(s) => s.backend(),
        }
    }
    pub fn into_capture(self) -> Box<dyn CaptureSocket> {
        match self {
            AnySocket::Pub(s) => Box::new(s),
            AnySocket::Dealer(s) => Box::new(s),
            AnySocket::Push(s) => Box::new(s),
            AnySocket::XPub(s) => Box::new(s),
            _ => panic!("not a capture socket"),
        }
    }
}

#[async_trait]
impl SocketRecv for AnySocket {
    async fn recv(&mut self) -> ZmqResult<ZmqMessage> {
        match self {
            AnySocket::Sub(s) => s.recv().await,
            AnySocket::Req(s) => s.recv().await,
            AnySocket::Rep(s) => s.recv().await,
            AnySocket::Dealer(s) => s.recv().await,
            AnySocket::Router(s) => s.recv().await,
            AnySocket::Pull(s) => s.recv().await,
            AnySocket::XPub(s) => s.recv().await,
            AnySocket::Pub(_) | AnySocket::Push(_) => panic!("harness: recv on a send-only socket"),
        }
    }
}

#[async_trait]
impl SocketSend for AnySocket {
    async fn send(&mut self, m: ZmqMessage) -> ZmqResult<()> {
        match self {
            AnySocket::Pub(s) => s.send(m).await,
            AnySocket::Req(s) => s.send(m).await,
            AnySocket::Rep(s) => s.send(m).await,
            AnySocket::Dealer(s) => s.send(m).await,
            AnySocket::Router(s) => s.send(m).await,
            AnySocket::Push(s) => s.send(m).await,
            AnySocket::XPub(s) => s.send(m).await,
            AnySocket::Sub(_) | AnySocket::Pull(_) => panic!("harness: send on a recv-only socket"),
        }
    }
}

pub type Frames = Vec<Vec<u8>>;

pub fn to_msg(frames: &[Vec<u8>]) -> ZmqMessage {
    let v: Vec<Bytes> = frames.iter().map(|f| Bytes::from(f.clone())).collect();
    ZmqMessage::try_from(v).expect("harness: empty message")
}

pub fn from_msg(m: ZmqMessage) -> Frames {
    m.into_vec().into_iter().map(|b| b.to_vec()).collect()
}

#[derive(Debug, Clone)]
pub struct CallErr {
    pub text: String,
    /// message handed back by ReturnToSender
    pub returned: Option<Frames>,
}

fn call_err(e: ZmqError) -> CallErr {
    let text = format!("{:?}", e);
    let text = if text.len() > 300 { format!("{}..", &text[..300]) } else { text };
    match e {
        ZmqError::ReturnToSender { message, .. } => CallErr {
            text: "ReturnToSender".to_string(),
            returned: Some(from_msg(message)),
        },
        _ => CallErr { text, returned: None },
    }
}

#[derive(Debug, Clone)]
pub enum Out {
    Attach(Result<Vec<u8>, CallErr>),
    Send(Result<(), CallErr>),
    Recv(Result<Frames, CallErr>),
    Unit(Result<(), CallErr>),
}

impl Out {
    pub fn is_ok(&self) -> bool {
        matches!(self, Out::Attach(Ok(_)) | Out::Send(Ok(())) | Out::Recv(Ok(_)) | Out::Unit(Ok(())))
    }
    pub fn err_text(&self) -> Option<&str> {
        match self {
            Out::Attach(Err(e)) | Out::Send(Err(e)) | Out::Recv(Err(e)) | Out::Unit(Err(e)) => Some(&e.text),
            _ => None,
        }
    }
}

pub struct WakeFlag {
    pub woken: AtomicBool,
    pub count: AtomicU32,
}

impl Wake for WakeFlag {
    fn wake(self: Arc<Self>) {
        self.wake_by_ref();
    }
    fn wake_by_ref(self: &Arc<Self>) {
        self.woken.store(true, Ordering::SeqCst);
        self.count.fetch_add(1, Ordering::SeqCst);
    }
}

pub type ActorId = usize;
pub type SockId = usize;

struct Actor {
    fut: Option<Pin<Box<dyn Future<Output = Out>>>>,
    flag: Arc<WakeFlag>,
    out: Option<Out>,
    polls: u32,
    cancelled: bool,
}

struct SockSlot {
    kind: Kind,
    sock: Arc<tokio::sync::Mutex<Option<AnySocket>>>,
    backend: Arc<dyn MultiPeerBackend>,
}

/// A raw peer's connection, or one direction pair of a lib-to-lib link.
#[derive(Clone)]
pub struct Link {
    /// bytes towards the library socket (harness deposits + delivers)
    pub to_lib: Pipe,
    /// bytes the library socket writes (tap)
    pub from_lib: Pipe,
}

impl Link {
    pub fn new() -> Link {
        Link {
            to_lib: Pipe::new(),
            from_lib: Pipe::new(),
        }
    }
}

impl Default for Link {
    fn default() -> Self {
        Link::new()
    }
}

#[derive(Debug, Clone, PartialEq, Eq)]
pub enum SettleErr {
    /// futures keep waking themselves without any byte moving
    Spin,
    /// absolute step budget exceeded
    Budget,
}

pub struct Sim {
    /// ids of actors whose future is still alive (kept small: finished/cancelled ones leave)
    live: Vec<ActorId>,
    actors: Vec<Actor>,
    socks: Vec<SockSlot>,
    pub pipes: Vec<Pipe>,
    pub step: u64,
    pub total_polls: u64,
}

impl Default for Sim {
    fn default() -> Self {
        Sim::new()
    }
}

impl Sim {
    pub fn new() -> Sim {
        Sim {
            live: vec![],
            actors: vec![],
            socks: vec![],
            pipes: vec![],
            step: 0,
            total_polls: 0,
        }
    }

    pub fn socket(&mut self, kind: Kind, identity: Option<&[u8]>) -> SockId {
        let s = AnySocket::new(kind, identity);
        let backend = s.backend();
        self.socks.push(SockSlot {
            kind,
            sock: Arc::new(tokio::sync::Mutex::new(Some(s))),
            backend,
        });
        self.socks.len() - 1
    }

    pub fn kind(&self, s: SockId) -> Kind {
        self.socks[s].kind
    }

    pub fn link(&mut self) -> Link {
        let l = Link::new();
        self.pipes.push(l.to_lib.clone());
        self.pipes.push(l.from_lib.clone());
        l
    }

    fn add_actor(&mut self, fut: Pin<Box<dyn Future<Output = Out>>>) -> ActorId {
        self.actors.push(Actor {
            fut: Some(fut),
            flag: Arc::new(WakeFlag {
                woken: AtomicBool::new(true),
                count: AtomicU32::new(0),
            }),
            out: None,
            polls: 0,
            cancelled: false,
        });
        self.live.push(self.actors.len() - 1);
        self.actors.len() - 1
    }

    /// Start the real greeting+READY handshake of socket `s` over the given pipes.
    pub fn attach(&mut self, s: SockId, link: &Link) -> ActorId {
        self.attach_pipes(s, &link.to_lib, &link.from_lib)
    }

    pub fn attach_pipes(&mut self, s: SockId, read_from: &Pipe, write_to: &Pipe) -> ActorId {
        let backend = self.socks[s].backend.clone();
        let r = read_from.reader();
        let w = write_to.writer();
        self.add_actor(Box::pin(async move {
            let res = zeromq::__verif::attach(backend, r, w).await;
            Out::Attach(res.map(|id| id.to_vec()).map_err(call_err))
        }))
    }

    /// Connect two library sockets with a pair of pipes. Returns (actor a, actor b, a->b, b->a).
    pub fn connect_libs(&mut self, a: SockId, b: SockId, auto: bool) -> (ActorId, ActorId, Pipe, Pipe) {
        let ab = if auto { Pipe::auto() } else { Pipe::new() };
        let ba = if auto { Pipe::auto() } else { Pipe::new() };
        self.pipes.push(ab.clone());
        self.pipes.push(ba.clone());
        let x = self.attach_pipes(a, &ba, &ab);
        let y = self.attach_pipes(b, &ab, &ba);
        (x, y, ab, ba)
    }

    fn guard(&self, s: SockId) -> tokio::sync::OwnedMutexGuard<Option<AnySocket>> {
        self.socks[s]
            .sock
            .clone()
            .try_lock_owned()
            .expect("harness: socket already has a call in flight")
    }

    pub fn busy(&self, s: SockId) -> bool {
        self.socks[s].sock.try_lock().is_err()
    }

    pub fn send(&mut self, s: SockId, frames: &[Vec<u8>]) -> ActorId {
        let mut g = self.guard(s);
        let m = to_msg(frames);
        self.add_actor(Box::pin(async move {
            let sock = g.as_mut().expect("socket gone");
            Out::Send(sock.send(m).await.map_err(call_err))
        }))
    }

    pub fn recv(&mut self, s: SockId) -> ActorId {
        let mut g = self.guard(s);
        self.add_actor(Box::pin(async move {
            let sock = g.as_mut().expect("socket gone");
            Out::Recv(sock.recv().await.map(from_msg).map_err(call_err))
        }))
    }

    pub fn subscribe(&mut self, s: SockId, topic: &str, on: bool) -> ActorId {
        let mut g = self.guard(s);
        let topic = topic.to_string();
        self.add_actor(Box::pin(async move {
            let sock = match g.as_mut().expect("socket gone") {
                AnySocket::Sub(s) => s,
                _ => panic!("harness: subscribe on non-SUB"),
            };
            let r = if on {
                sock.subscribe(&topic).await
            } else {
                sock.unsubscribe(&topic).await
            };
            Out::Unit(r.map_err(call_err))
        }))
    }

    /// zeromq::proxy(front, back, capture) as one actor; the sockets move into it.
    pub fn proxy(&mut self, front: SockId, back: SockId, capture: Option<SockId>) -> ActorId {
        let f = self.guard(front).take().expect("socket gone");
        let b = self.guard(back).take().expect("socket gone");
        let c = capture.map(|c| self.guard(c).take().expect("socket gone").into_capture());
        self.add_actor(Box::pin(async move {
            let r = zeromq::proxy(f, b, c).await;
            Out::Unit(r.map_err(call_err))
        }))
    }

    /// Drop the socket object (what an application's `drop(socket)` does).
    pub fn drop_socket(&mut self, s: SockId) {
        let mut g = self.guard(s);
        let sock = g.take();
        drop(sock);
    }

    /// One poll of one actor. Returns true if the actor has finished.
    pub fn poll(&mut self, a: ActorId) -> bool {
        self.step += 1;
        let step = self.step;
        for p in &self.pipes {
            p.set_step(step);
        }
        let act = &mut self.actors[a];
        let Some(fut) = act.fut.as_mut() else { return true };
        act.flag.woken.store(false, Ordering::SeqCst);
        let waker = Waker::from(act.flag.clone());
        let mut cx = Context::from_waker(&waker);
        act.polls += 1;
        self.total_polls += 1;
        match fut.as_mut().poll(&mut cx) {
            Poll::Ready(out) => {
                act.out = Some(out);
                act.fut = None;
                self.live.retain(|x| *x != a);
                true
            }
            Poll::Pending => false,
        }
    }

    /// Drop an in-flight call (cancellation).
    pub fn cancel(&mut self, a: ActorId) {
        let act = &mut self.actors[a];
        if act.fut.take().is_some() {
            act.cancelled = true;
            self.live.retain(|x| *x != a);
        }
    }

    pub fn done(&self, a: ActorId) -> bool {
        self.actors[a].fut.is_none()
    }
    pub fn cancelled(&self, a: ActorId) -> bool {
        self.actors[a].cancelled
    }
    pub fn woken(&self, a: ActorId) -> bool {
        self.actors[a].fut.is_some() && self.actors[a].flag.woken.load(Ordering::SeqCst)
    }
    pub fn polls(&self, a: ActorId) -> u32 {
        self.actors[a].polls
    }
    pub fn out(&self, a: ActorId) -> Option<&Out> {
        self.actors[a].out.as_ref()
    }
    pub fn take(&mut self, a: ActorId) -> Option<Out> {
        self.actors[a].out.take()
    }
    pub fn runnable(&self) -> Vec<ActorId> {
        self.live.iter().copied().filter(|a| self.woken(*a)).collect()
    }
    pub fn live_actors(&self) -> Vec<ActorId> {
        self.live.clone()
    }

    /// Let tokio run the tasks the library spawned (PUB reader tasks).
    pub async fn tokio_yield(&self) {
        tokio::task::yield_now().await;
    }

    /// Run every woken actor and every woken tokio task until nothing moves.
    pub async fn settle(&mut self) -> Result<(), SettleErr> {
        let mut idle_rounds = 0u32;
        let mut rounds = 0u64;
        loop {
            rounds += 1;
            if rounds > 2_000_000 {
                return Err(SettleErr::Budget);
            }
            let a0 = activity();
            let mut polled = false;
            for a in self.live.clone() {
                if self.woken(a) {
                    self.poll(a);
                    polled = true;
                }
            }
            tokio::task::yield_now().await;
            let moved = activity() != a0;
            if !polled && !moved {
                // one more yield to be sure no tokio task was left runnable
                let a1 = activity();
                tokio::task::yield_now().await;
                if activity() == a1 && !self.live.iter().any(|a| self.woken(*a)) {
                    return Ok(());
                }
                continue;
            }
            if moved {
                idle_rounds = 0;
            } else {
                idle_rounds += 1;
                if idle_rounds > 2000 {
                    return Err(SettleErr::Spin);
                }
            }
        }
    }

    /// Settle, then report the outcome of `a` if it finished.
    pub async fn run(&mut self, a: ActorId) -> Result<Option<Out>, SettleErr> {
        self.settle().await?;
        Ok(self.actors[a].out.clone())
    }

    /// Deliver everything on every pipe and open every write window, to quiescence.
    pub async fn drain_all(&mut self) -> Result<(), SettleErr> {
        for _ in 0..10_000 {
            let mut any = false;
            for p in &self.pipes {
                if p.deliver_all() > 0 {
                    any = true;
                }
            }
            self.settle().await?;
            if !any && self.pipes.iter().all(|p| p.undelivered() == 0) {
                return Ok(());
            }
        }
        Err(SettleErr::Budget)
    }
}

/// Run one simulation case on a fresh current-thread runtime.
pub fn run_sim<T>(f: impl Future<Output = T>) -> T {
    let rt = tokio::runtime::Builder::new_current_thread()
        .build()
        .expect("tokio runtime");
    let r = rt.block_on(f);
    drop(rt);
    r
}

// ---------------------------------------------------------------------------------------------
// Helpers for raw peers

use crate::refcodec;

impl Link {
    /// Deposit and deliver a well-formed greeting+READY for a raw peer of the given type.
    pub fn raw_handshake(&self, socket_type: &str, identity: Option<&[u8]>) {
        self.to_lib.deposit(&refcodec::handshake_bytes(socket_type, identity));
        self.to_lib.deliver_all();
    }
    pub fn raw_send(&self, frames: &[Vec<u8>]) {
        self.to_lib.deposit(&refcodec::encode_message(frames));
    }
    pub fn raw_send_now(&self, frames: &[Vec<u8>]) {
        self.to_lib.deposit(&refcodec::encode_message(frames));
        self.to_lib.deliver_all();
    }
    /// Everything the library wrote after its own greeting and READY, as bytes.
    /// Returns Err if the greeting/READY prefix is not (yet) complete or malformed.
    pub fn lib_traffic(&self) -> Result<Vec<u8>, String> {
        let tap = self.from_lib.tap();
        let p = refcodec::parse_stream(&tap, refcodec::Strictness::EMITTED_WITH_GREETING);
        if p.items.len() < 2 {
            return Err(format!("library handshake incomplete: {} items, error {:?}", p.items.len(), p.error));
        }
        match (&p.items[0], &p.items[1]) {
            (refcodec::RefItem::Greeting(_), refcodec::RefItem::Command { .. }) => {}
            other => return Err(format!("library handshake malformed: {:?}", other)),
        }
        Ok(tap[p.item_ends[1]..].to_vec())
    }
    /// Length of the library's own greeting+READY at the start of its output (None until both
    /// are complete). Cheap: only the first bytes of the tap are parsed.
    pub fn lib_handshake_len(&self) -> Option<usize> {
        let st = self.from_lib.0.lock().unwrap();
        let head = &st.buf[..st.buf.len().min(700)];
        let p = refcodec::parse_stream(head, refcodec::Strictness::LENIENT);
        if p.items.len() >= 2 {
            p.item_ends.get(1).copied()
        } else {
            None
        }
    }
    /// Number of application bytes the library has written on this connection.
    pub fn lib_traffic_len(&self) -> usize {
        match self.lib_handshake_len() {
            Some(h) => self.from_lib.tap_len().saturating_sub(h),
            None => 0,
        }
    }
    pub fn lib_traffic_from(&self, from: usize) -> Vec<u8> {
        match self.lib_handshake_len() {
            Some(h) => self.from_lib.tap_from(h + from),
            None => vec![],
        }
    }
    /// Complete messages the library wrote after its handshake (strict: no residue allowed).
    pub fn lib_messages(&self) -> Result<Vec<Frames>, String> {
        refcodec::decode_messages_strict(&self.lib_traffic()?)
    }
    pub fn lib_messages_prefix(&self) -> Result<(Vec<Frames>, usize), String> {
        refcodec::decode_messages_prefix(&self.lib_traffic()?)
    }
}
