#!/opt/veriftools/pyvenv/bin/python
import json, jsonschema, glob, sys
m=json.load(open('/verif/MANIFEST.json')); s=json.load(open('/root/.vp/MANIFEST.schema.json')); jsonschema.validate(m,s)
print('manifest ok: checks', len(m['checks']), 'n/a', len(m['not_applicable']))
s=json.load(open('/root/.vp/EVIDENCE.schema.json'))
for f in sorted(glob.glob('/verif/evidence/*.json')):
    e=json.load(open(f)); jsonschema.validate(e,s)
    c=e['coverage']; print(f.split('/')[-1], e['tier'], 'eval', c.get('evaluations'), 'nontrivial', c.get('distinct_nontrivial'), 'viol', e.get('violations'), 'wall', round(e['wall_s'],1))
