#!/bin/bash
# usage: [WT=<worktree>] tools/seeded_verify.sh <ID> [check ids...]   (parallel-safe: scratch /tmp/sv-<ID>, logs /tmp/seedlog-<ID>)
# Confirms a sub-agent's seeded change in its scratch worktree /tmp/seed/<ID> (existing suite passes with it;
# demo fails with it and passes without it), stores it under /verif/seeded/<ID>/, then applies it to /repo,
# runs the given quick checks (default: the property's own) and reverts.
ID="$1"; shift
CHECKS="${@:-$ID}"
WT=${WT:-${SEEDROOT:-/tmp/seed}/$ID}
L=/tmp/seedlog-$ID; mkdir -p $L
OUT=/verif/seeded/$ID${OUTSUFFIX:-}
export CARGO_NET_OFFLINE=true
[ -f $WT/SEEDED/patch.diff ] || { echo "no SEEDED/patch.diff in $WT"; exit 2; }
mkdir -p $OUT
cp $WT/SEEDED/patch.diff $OUT/patch.diff
for f in $WT/SEEDED/*; do case "$f" in */patch.diff) ;; *) cp -r "$f" $OUT/;; esac; done
cd $WT
DEMO=$(ls tests/ | grep -i -E "seeded|demo" | head -1 | sed 's/\.rs$//')
echo "== demo test: $DEMO"
# 1. with the change
git -C $WT diff --quiet -- src && { echo "src change is not applied in worktree; applying"; git -C $WT apply $OUT/patch.diff || exit 2; }
timeout 900 cargo test --offline --test "$DEMO" > $L/demo_with.log 2>&1; WITH=$?
timeout 1500 cargo test --workspace --no-fail-fast --offline > $L/suite_with.log 2>&1
SUITE_FAILS=$(grep -E "^test .* FAILED|^test result: FAILED" $L/suite_with.log | grep -v "$DEMO" | grep -v "pub_sub_compliant" | grep -c "^test .* FAILED")
# which test binaries failed other than the demo
DEMO_FAILS=$(grep -E "^test .* FAILED" $L/demo_with.log | awk '{print $2}' | sort -u)
FAILED_TESTS=$(grep -E "^test .* FAILED" $L/suite_with.log | grep -v "test_their_pub_our_sub" | awk '{print $2}' | sort -u | grep -v -x -F "$DEMO_FAILS")
# 2. without the change
# (no git stash: the stash is shared between all worktrees of /repo)
git -C $WT apply -R $OUT/patch.diff || { echo "cannot revert the change in the worktree"; exit 2; }
timeout 900 cargo test --offline --test "$DEMO" > $L/demo_without.log 2>&1; WITHOUT=$?
git -C $WT apply $OUT/patch.diff
echo "demo with change: exit=$WITH (expect non-zero)   without change: exit=$WITHOUT (expect 0)"
echo "existing-suite failures with change (other than the known-bad compliance test): "
echo "$FAILED_TESTS" | grep -v "^$" | sed 's/^/   /'
# 3. my checks - in a SCRATCH copy of /repo and of the harness (so that /repo itself is never
# patched and a long run that builds from /repo is not disturbed)
SV=/tmp/sv-$ID
rm -rf $SV; mkdir -p $SV/verif
git -C /repo worktree prune
git -C /repo worktree add -q --detach $SV/repo HEAD || { echo "cannot create scratch worktree"; exit 2; }
cp -r /verif/harness $SV/harness
sed -i 's#path = "/repo"#path = "'$SV'/repo"#' $SV/harness/Cargo.toml
cp /verif/known_findings.json $SV/verif/; cp -r /verif/replays $SV/verif/replays; rm -rf $SV/verif/replays/found
( cd $SV/repo && git apply $OUT/patch.diff ) || { echo "patch does not apply to the current tree"; git -C /repo worktree remove --force $SV/repo; exit 2; }
( cd $SV/harness && cargo build --release --offline -q 2>$SV/build.log ) || { echo "harness does not build with the change"; tail -5 $SV/build.log; }
RES=""
for c in $CHECKS; do
  VCHECK_STUCK_SECS=${VCHECK_STUCK_SECS:-120} timeout 1500 $SV/harness/target/release/vcheck $c quick --verif-dir $SV/verif > $L/check_$c.log 2>&1; code=$?
  sig=$(grep -m2 "signature:" $L/check_$c.log | sed 's/ *signature: //' | tr '\n' ' ')
  echo "check $c: exit=$code $sig"
  RES="$RES $c:exit=$code"
done
cd /; git -C /repo worktree remove --force $SV/repo; rm -rf $SV
python3 - "$ID" "$WITH" "$WITHOUT" "$RES" "$DEMO" <<'PY'
import json, sys, os
pid, w, wo, res, demo = sys.argv[1:6]
out = '/verif/seeded/%s%s' % (pid, os.environ.get('OUTSUFFIX',''))
notes = ''
for n in ('notes.md',):
    p = os.path.join(out, n)
    if os.path.exists(p): notes = open(p).read()
meta = {
 "property": pid,
 "origin": "independent sub-agent given only the property text and a scratch worktree of /repo",
 "needs_to_manifest": "see notes.md (written by the sub-agent)",
 "confirmed": {"demo_exit_with_change": int(w), "demo_exit_without_change": int(wo), "existing_suite": "see ran"},
 "ran": ["cargo test --offline --test %s (with and without the src change)" % demo, "cargo test --workspace --no-fail-fast --offline (with the change)", "patch.diff applied to a scratch worktree of /repo; harness rebuilt against it; vcheck <ids> quick"],
 "checks": res.strip().split(),
}
json.dump(meta, open(os.path.join(out, 'meta.json'), 'w'), indent=1)
PY
