//! In-memory one-directional byte pipes whose segmentation, back-pressure, EOF and errors are
//! owned by the harness. Every pipe is also a wire tap.

use futures::io::{AsyncRead, AsyncWrite};

use std::io;
use std::pin::Pin;
use std::sync::atomic::AtomicU64;
use std::sync::{Arc, Mutex};
use std::task::{Context, Poll, Waker};

/// Global activity counter: bumped by every poll_read / poll_write / poll_flush on any pipe of
/// this thread's simulations. Used to detect quiescence.
pub static ACTIVITY: AtomicU64 = AtomicU64::new(0);

thread_local! {
    /// per-thread activity counter (sims are single threaded; shards run in parallel)
    pub static T_ACTIVITY: std::cell::Cell<u64> = const { std::cell::Cell::new(0) };
}

fn bump() {
    T_ACTIVITY.with(|c| c.set(c.get() + 1));
}

pub fn activity() -> u64 {
    T_ACTIVITY.with(|c| c.get())
}

#[derive(Debug, Clone, Copy, PartialEq, Eq)]
pub enum Window {
    /// accept everything
    Open,
    /// accept at most this many more bytes in total, then stall
    Budget(usize),
    /// accept at most k bytes per write call (partial writes), never stall
    PerCall(usize),
}

#[derive(Debug, Clone, Copy, PartialEq, Eq)]
pub enum ReadEnd {
    Eof,
    Err(io::ErrorKind),
}

#[derive(Debug)]
pub struct PipeState {
    /// every byte ever put into the pipe (by the library writer or deposited by the harness)
    pub buf: Vec<u8>,
    /// how many bytes of `buf` the reader is allowed to see
    pub delivered: usize,
    /// how many bytes the reader has consumed
    pub read_pos: usize,
    /// deliver automatically whatever is written
    pub auto_deliver: bool,
    /// once read_pos reaches this position the reader sees the end
    pub end_at: Option<(usize, ReadEnd)>,
    pub end_reported: u32,
    pub reader_waker: Option<Waker>,
    pub window: Window,
    pub write_err: Option<io::ErrorKind>,
    pub writer_waker: Option<Waker>,
    pub reader_dropped: bool,
    pub writer_dropped: bool,
    pub writer_closed: bool,
    pub reads: u64,
    pub writes: u64,
    pub pending_writes: u64,
    /// write calls that returned an injected error
    pub failed_writes: u64,
    pub max_read: usize,
    /// (step, total bytes in buf after the write) for every accepted write
    pub write_log: Vec<(u64, usize)>,
    pub step: u64,
}

#[derive(Clone, Debug)]
pub struct Pipe(pub Arc<Mutex<PipeState>>);

pub struct PipeReader(Pipe);
pub struct PipeWriter(Pipe);

impl Pipe {
    pub fn new() -> Pipe {
        Pipe(Arc::new(Mutex::new(PipeState {
            buf: Vec::new(),
            delivered: 0,
            read_pos: 0,
            auto_deliver: false,
            end_at: None,
            end_reported: 0,
            reader_waker: None,
            window: Window::Open,
            write_err: None,
            writer_waker: None,
            reader_dropped: false,
            writer_dropped: false,
            writer_closed: false,
            reads: 0,
            writes: 0,
            pending_writes: 0,
            failed_writes: 0,
            max_read: usize::MAX,
            write_log: Vec::new(),
            step: 0,
        })))
    }
    pub fn auto() -> Pipe {
        let p = Pipe::new();
        p.0.lock().unwrap().auto_deliver = true;
        p
    }
    pub fn reader(&self) -> PipeReader {
        PipeReader(self.clone())
    }
    pub fn writer(&self) -> PipeWriter {
        PipeWriter(self.clone())
    }

    fn wake_reader(st: &mut PipeState) -> Option<Waker> {
        st.reader_waker.take()
    }

    /// harness: put bytes into the pipe without delivering them
    pub fn deposit(&self, data: &[u8]) {
        let w = {
            let mut st = self.0.lock().unwrap();
            st.buf.extend_from_slice(data);
            if st.auto_deliver {
                st.delivered = st.buf.len();
                Self::wake_reader(&mut st)
            } else {
                None
            }
        };
        if let Some(w) = w {
            w.wake();
        }
    }
    /// harness: let the reader see n more bytes; returns how many were actually released
    pub fn deliver(&self, n: usize) -> usize {
        let (w, k) = {
            let mut st = self.0.lock().unwrap();
            let avail = st.buf.len() - st.delivered;
            let k = n.min(avail);
            st.delivered += k;
            let at_end = matches!(st.end_at, Some((pos, _)) if st.delivered >= pos);
            if k > 0 || at_end {
                (Self::wake_reader(&mut st), k)
            } else {
                (None, k)
            }
        };
        if let Some(w) = w {
            w.wake();
        }
        k
    }
    pub fn deliver_all(&self) -> usize {
        self.deliver(usize::MAX)
    }
    pub fn set_auto(&self, on: bool) {
        let w = {
            let mut st = self.0.lock().unwrap();
            st.auto_deliver = on;
            if on {
                st.delivered = st.buf.len();
                Self::wake_reader(&mut st)
            } else {
                None
            }
        };
        if let Some(w) = w {
            w.wake();
        }
    }
    pub fn undelivered(&self) -> usize {
        let st = self.0.lock().unwrap();
        st.buf.len() - st.delivered
    }
    pub fn unread(&self) -> usize {
        let st = self.0.lock().unwrap();
        st.delivered - st.read_pos
    }
    /// harness: the stream ends (EOF or error) once everything deposited so far has been read
    pub fn end_after_all(&self, how: ReadEnd) {
        let pos = self.0.lock().unwrap().buf.len();
        self.end_at(pos, how);
    }
    /// the stream ends when the reader reaches byte position `pos`
    pub fn end_at(&self, pos: usize, how: ReadEnd) {
        let w = {
            let mut st = self.0.lock().unwrap();
            st.end_at = Some((pos, how));
            if st.read_pos >= pos || st.delivered >= pos {
                Self::wake_reader(&mut st)
            } else {
                None
            }
        };
        if let Some(w) = w {
            w.wake();
        }
    }
    pub fn set_window(&self, wnd: Window) {
        let w = {
            let mut st = self.0.lock().unwrap();
            st.window = wnd;
            match wnd {
                Window::Budget(0) => None,
                _ => st.writer_waker.take(),
            }
        };
        if let Some(w) = w {
            w.wake();
        }
    }
    pub fn break_writer(&self, kind: io::ErrorKind) {
        let w = {
            let mut st = self.0.lock().unwrap();
            st.write_err = Some(kind);
            st.writer_waker.take()
        };
        if let Some(w) = w {
            w.wake();
        }
    }
    pub fn set_step(&self, step: u64) {
        self.0.lock().unwrap().step = step;
    }
    pub fn tap(&self) -> Vec<u8> {
        self.0.lock().unwrap().buf.clone()
    }
    /// heap bytes the harness itself holds for this pipe (to be excluded from library heap
    /// measurements)
    pub fn harness_bytes(&self) -> usize {
        let st = self.0.lock().unwrap();
        st.buf.capacity() + st.write_log.capacity() * std::mem::size_of::<(u64, usize)>()
    }
    pub fn tap_len(&self) -> usize {
        self.0.lock().unwrap().buf.len()
    }
    pub fn tap_from(&self, from: usize) -> Vec<u8> {
        self.0.lock().unwrap().buf[from..].to_vec()
    }
    pub fn reader_dropped(&self) -> bool {
        self.0.lock().unwrap().reader_dropped
    }
    pub fn writer_dropped(&self) -> bool {
        self.0.lock().unwrap().writer_dropped
    }
    pub fn read_pos(&self) -> usize {
        self.0.lock().unwrap().read_pos
    }
    pub fn end_reported(&self) -> u32 {
        self.0.lock().unwrap().end_reported
    }
    pub fn failed_writes(&self) -> u64 {
        self.0.lock().unwrap().failed_writes
    }
    pub fn writer_stalled(&self) -> bool {
        let st = self.0.lock().unwrap();
        st.writer_waker.is_some() || st.pending_writes > 0 && matches!(st.window, Window::Budget(0))
    }
    pub fn has_parked_reader(&self) -> bool {
        self.0.lock().unwrap().reader_waker.is_some()
    }
    pub fn set_max_read(&self, n: usize) {
        self.0.lock().unwrap().max_read = n.max(1);
    }
}

impl Default for Pipe {
    fn default() -> Self {
        Pipe::new()
    }
}

impl AsyncRead for PipeReader {
    fn poll_read(self: Pin<&mut Self>, cx: &mut Context<'_>, out: &mut [u8]) -> Poll<io::Result<usize>> {
        bump();
        let mut st = self.0 .0.lock().unwrap();
        st.reads += 1;
        let limit = match st.end_at {
            Some((pos, _)) => st.delivered.min(pos),
            None => st.delivered,
        };
        if st.read_pos < limit && !out.is_empty() {
            let n = (limit - st.read_pos).min(out.len()).min(st.max_read);
            let rp = st.read_pos;
            out[..n].copy_from_slice(&st.buf[rp..rp + n]);
            st.read_pos += n;
            return Poll::Ready(Ok(n));
        }
        if let Some((pos, how)) = st.end_at {
            if st.read_pos >= pos {
                st.end_reported += 1;
                return match how {
                    ReadEnd::Eof => Poll::Ready(Ok(0)),
                    ReadEnd::Err(kind) => {
                        // a reset connection reports the error once, then EOF
                        st.end_at = Some((pos, ReadEnd::Eof));
                        Poll::Ready(Err(io::Error::new(kind, "injected read error")))
                    }
                };
            }
        }
        st.reader_waker = Some(cx.waker().clone());
        Poll::Pending
    }
}

impl AsyncWrite for PipeWriter {
    fn poll_write(self: Pin<&mut Self>, cx: &mut Context<'_>, data: &[u8]) -> Poll<io::Result<usize>> {
        bump();
        let (res, wake) = {
            let mut st = self.0 .0.lock().unwrap();
            st.writes += 1;
            if let Some(kind) = st.write_err {
                st.failed_writes += 1;
                return Poll::Ready(Err(io::Error::new(kind, "injected write error")));
            }
            if data.is_empty() {
                return Poll::Ready(Ok(0));
            }
            let n = match st.window {
                Window::Open => data.len(),
                Window::PerCall(k) => data.len().min(k.max(1)),
                Window::Budget(b) => data.len().min(b),
            };
            if n == 0 {
                st.pending_writes += 1;
                st.writer_waker = Some(cx.waker().clone());
                return Poll::Pending;
            }
            if let Window::Budget(b) = st.window {
                st.window = Window::Budget(b - n);
            }
            st.buf.extend_from_slice(&data[..n]);
            let total = st.buf.len();
            let step = st.step;
            st.write_log.push((step, total));
            let wake = if st.auto_deliver {
                st.delivered = total;
                st.reader_waker.take()
            } else {
                None
            };
            (n, wake)
        };
        if let Some(w) = wake {
            w.wake();
        }
        Poll::Ready(Ok(res))
    }

    fn poll_flush(self: Pin<&mut Self>, _cx: &mut Context<'_>) -> Poll<io::Result<()>> {
        bump();
        let st = self.0 .0.lock().unwrap();
        if let Some(kind) = st.write_err {
            return Poll::Ready(Err(io::Error::new(kind, "injected write error")));
        }
        Poll::Ready(Ok(()))
    }

    fn poll_close(self: Pin<&mut Self>, _cx: &mut Context<'_>) -> Poll<io::Result<()>> {
        bump();
        let mut st = self.0 .0.lock().unwrap();
        st.writer_closed = true;
        Poll::Ready(Ok(()))
    }
}

impl Drop for PipeReader {
    fn drop(&mut self) {
        if let Ok(mut st) = self.0 .0.lock() {
            st.reader_dropped = true;
            st.reader_waker = None;
        }
    }
}

impl Drop for PipeWriter {
    fn drop(&mut self) {
        let w = if let Ok(mut st) = self.0 .0.lock() {
            st.writer_dropped = true;
            st.writer_waker = None;
            // for library-to-library links: the reader sees EOF after what was written
            if st.auto_deliver && st.end_at.is_none() {
                let pos = st.buf.len();
                st.end_at = Some((pos, ReadEnd::Eof));
                st.reader_waker.take()
            } else {
                None
            }
        } else {
            None
        };
        if let Some(w) = w {
            w.wake();
        }
    }
}
