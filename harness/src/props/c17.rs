//! C17 — closing or dropping a socket stops its listeners and disconnects all peers.

use crate::core::*;
use crate::fail;
use crate::props::parse_case;
use crate::realnet::{self, eventually, RawConn, Transport, LIMIT};
use crate::refcodec;
use crate::sim::{AnySocket, Kind, ALL_KINDS};

use serde::{Deserialize, Serialize};
use serde_json::{json, Value};
use std::time::Duration;

#[derive(Debug, Clone, Copy, Serialize, Deserialize, PartialEq, Eq, Hash)]
pub enum Prefix {
    BoundOnly,
    /// bound + n accepted raw peers
    Accepted(u8),
    /// connected out to a raw listener (plus one bind)
    ConnectedOut,
    /// accepted peers with messages in flight both ways
    MidTraffic,
    /// one raw client stalled in the middle of the handshake (after `offset` bytes)
    PendingHandshake(u8),
    /// like MidTraffic, and in addition one accepted peer has STOPPED READING while the
    /// application kept sending: the kernel buffers of its connection and the library's own
    /// write buffer are full (sending socket types only)
    Backlogged,
    /// three accepted peers; the application has polled every connection idle (a recv that
    /// went pending and was abandoned); AFTER that one connection becomes readable - peer 0
    /// sends a message nobody will read (0) or leaves (1) - and the application never looks
    /// again before it closes / drops the socket. The idle peers are the observers.
    LateActivity(u8),
    /// the socket's `connect()` towards a raw listener that accepts and then stays silent is
    /// abandoned by the caller after 50 ms (a timeout); the half-made connection is the
    /// observer: it must be closed by close / drop like any pending handshake
    AbandonedConnect,
}

#[derive(Debug, Clone, Serialize, Deserialize, PartialEq, Eq, Hash)]
pub struct CloseCase {
    pub kind: Kind,
    pub transport: Transport,
    pub prefix: Prefix,
    /// true = close().await, false = drop
    pub close: bool,
    /// number of endpoints bound
    pub binds: u8,
    /// fault injected just before close (ipc only): 1 = the socket file is replaced by a
    /// directory, so close cannot remove it - a failure it must report; 2 = the socket file has
    /// already been deleted by somebody else (the goal is met either way; only "no hang, no
    /// listener left" is asserted)
    #[serde(default)]
    pub sabotage: u8,
    /// 1 = `monitor()` is called before the first bind / connect and the receiver is kept until
    /// the end; 2 = called and the receiver dropped at once; 0 = no monitor
    #[serde(default)]
    pub monitor: u8,
}

pub fn close_outcome(c: &CloseCase) -> Outcome {
    let mut o = Outcome::new(hash_of(c));
    o.nontrivial = !matches!(c.prefix, Prefix::BoundOnly);
    o.class(format!("{:?}", c.prefix).split('(').next().unwrap().to_string());
    o.class(if c.close { "close" } else { "drop" });
    if c.monitor > 0 {
        o.class("with-a-monitor-installed");
    }
    if c.close && c.sabotage > 0 && c.transport == Transport::Ipc {
        o.class("close-meets-a-failure");
    }
    let c2 = c.clone();
    let (r, panics) = capture_panics(|| {
        realnet::run_net(async move {
            let c = c2;
            let kind = c.kind;
            let who = kind.name();
            let how = if c.close { "close" } else { "drop" };
            let mut f: Vec<Failure> = vec![];
            // let earlier cases' leftovers settle, then take the baseline
            for _ in 0..8 {
                tokio::task::yield_now().await;
            }
            let base_tasks = realnet::alive_tasks();
            let mut s = AnySocket::new(kind, None);
            let _monitor_rx = match c.monitor {
                1 => Some(realnet::sock_monitor(&mut s)),
                2 => {
                    drop(realnet::sock_monitor(&mut s));
                    None
                }
                _ => None,
            };
            let mut endpoints: Vec<String> = vec![];
            for _ in 0..c.binds.max(1) {
                match realnet::sock_bind(&mut s, &c.transport.bind_text()).await {
                    Ok(e) => endpoints.push(e.to_string()),
                    Err(e) => {
                        fail!(f, format!("C17/{}/setup-bind", who), "{:?}", e);
                        return f;
                    }
                }
            }
            let mut peers: Vec<RawConn> = vec![];
            let mut stalled: Vec<RawConn> = vec![];
            // raw listener for the connected-out prefix
            let mut out_listener: Option<tokio::net::TcpListener> = None;
            let mut out_unix: Option<tokio::net::UnixListener> = None;
            let peer_type = kind.a_compatible_peer();
            match c.prefix {
                Prefix::BoundOnly => {}
                Prefix::Accepted(_) | Prefix::PendingHandshake(_) | Prefix::LateActivity(_) => {
                    let count = match c.prefix {
                        Prefix::Accepted(n) => n,
                        Prefix::LateActivity(_) => 3,
                        _ => 1,
                    };
                    for i in 0..count {
                        match realnet::raw_connect(&endpoints[i as usize % endpoints.len()]).await {
                            Ok(mut rc) => {
                                if let Err(e) = rc.handshake(peer_type, None).await {
                                    fail!(f, format!("C17/{}/setup-handshake", who), "{}", e);
                                    return f;
                                }
                                peers.push(rc);
                            }
                            Err(e) => {
                                fail!(f, format!("C17/{}/setup-connect", who), "{}", e);
                                return f;
                            }
                        }
                    }
                    if let Prefix::PendingHandshake(off) = c.prefix {
                        match realnet::raw_connect(&endpoints[0]).await {
                            Ok(mut rc) => {
                                let hs = refcodec::handshake_bytes(peer_type, None);
                                let k = (off as usize).min(hs.len() - 1);
                                let _ = rc.write(&hs[..k]).await;
                                stalled.push(rc);
                            }
                            Err(e) => {
                                fail!(f, format!("C17/{}/setup-connect", who), "{}", e);
                                return f;
                            }
                        }
                        // let the accept loop pick it up
                        tokio::time::sleep(Duration::from_millis(5)).await;
                    }
                    if let Prefix::LateActivity(v) = c.prefix {
                        if kind.fair_queue_recv() {
                            use zeromq::SocketRecv;
                            for _ in 0..3 {
                                let _ = tokio::time::timeout(Duration::from_millis(5), s.recv()).await;
                            }
                        }
                        if v % 2 == 0 {
                            let m: Vec<Vec<u8>> = if kind == Kind::XPub { vec![vec![1u8, b'z']] } else { vec![vec![], b"late".to_vec()] };
                            let _ = peers[0].send_msg(&m).await;
                        } else {
                            drop(peers.remove(0));
                        }
                        // the reactor tells the socket's stream about it; the application does not look
                        tokio::time::sleep(Duration::from_millis(5)).await;
                    }
                }
                Prefix::MidTraffic | Prefix::Backlogged => {
                    for _ in 0..2 {
                        match realnet::raw_connect(&endpoints[0]).await {
                            Ok(mut rc) => {
                                if let Err(e) = rc.handshake(peer_type, None).await {
                                    fail!(f, format!("C17/{}/setup-handshake", who), "{}", e);
                                    return f;
                                }
                                peers.push(rc);
                            }
                            Err(e) => {
                                fail!(f, format!("C17/{}/setup-connect", who), "{}", e);
                                return f;
                            }
                        }
                    }
                    // messages in flight both ways (not consumed)
                    if kind == Kind::Req {
                        // exchange with REQ needs a single peer: drop the second one's use
                    }
                    for (i, p) in peers.iter_mut().enumerate() {
                        if kind != Kind::Req {
                            if let Err(e) = realnet::exchange(&mut s, kind, p, &format!("t{}", i)).await {
                                fail!(f, format!("C17/{}/setup-exchange", who), "{}", e);
                                return f;
                            }
                        }
                        // an inbound message left unread by the application
                        let _ = p.send_msg(&[vec![], b"unread".to_vec()]).await;
                    }
                    if kind.can_send() && !matches!(kind, Kind::Rep | Kind::Router | Kind::Req) {
                        use zeromq::SocketSend;
                        let _ = s.send(crate::sim::to_msg(&[b"in-flight".to_vec()])).await;
                    }
                    if c.prefix == Prefix::Backlogged && matches!(kind, Kind::Pub | Kind::XPub | Kind::Push | Kind::Dealer) {
                        // nobody reads from here on; keep sending until a send blocks (or, for
                        // the publishers, which never block, until ~13 MB have been offered)
                        use zeromq::SocketSend;
                        let big = vec![0x5au8; 64 << 10];
                        for i in 0..200 {
                            let m = crate::sim::to_msg(&[format!("t0-bulk-{}", i).into_bytes(), big.clone()]);
                            if tokio::time::timeout(Duration::from_millis(20), s.send(m)).await.is_err() {
                                break;
                            }
                        }
                    }
                    if kind.fair_queue_recv() {
                        // the usual state of a receiving application: every connection has been
                        // polled and found idle (their wakers are registered with the reactor),
                        // and the recv call that did so has been abandoned (timeout)
                        use zeromq::SocketRecv;
                        for _ in 0..4 {
                            let _ = tokio::time::timeout(Duration::from_millis(5), s.recv()).await;
                        }
                    }
                }
                Prefix::ConnectedOut | Prefix::AbandonedConnect => {
                    // the socket connects out to a raw listener which performs the handshake
                    let target = match c.transport {
                        Transport::Ipc => {
                            let p = realnet::fresh_ipc_path();
                            out_unix = Some(tokio::net::UnixListener::bind(&p).expect("raw unix listener"));
                            format!("ipc://{}", p.display())
                        }
                        Transport::TcpV6 => {
                            let l = tokio::net::TcpListener::bind("[::1]:0").await.expect("raw listener");
                            let port = l.local_addr().unwrap().port();
                            out_listener = Some(l);
                            format!("tcp://[::1]:{}", port)
                        }
                        _ => {
                            let l = tokio::net::TcpListener::bind("127.0.0.1:0").await.expect("raw listener");
                            let port = l.local_addr().unwrap().port();
                            out_listener = Some(l);
                            format!("tcp://127.0.0.1:{}", port)
                        }
                    };
                    if c.prefix == Prefix::AbandonedConnect {
                        let accept_silent = async {
                            let stream = if let Some(l) = &out_listener {
                                realnet::RawStream::Tcp(l.accept().await.expect("accept").0)
                            } else {
                                realnet::RawStream::Unix(out_unix.as_ref().unwrap().accept().await.expect("accept").0)
                            };
                            RawConn { stream, inbuf: vec![], traffic_from: None }
                        };
                        let abandoned = async {
                            // the caller gives up on connect() after 50 ms
                            let _ = tokio::time::timeout(Duration::from_millis(50), realnet::sock_connect(&mut s, &target)).await;
                        };
                        let (_, rc) = tokio::join!(abandoned, accept_silent);
                        stalled.push(rc);
                    } else {
                    let accept = async {
                        let stream = if let Some(l) = &out_listener {
                            realnet::RawStream::Tcp(l.accept().await.expect("accept").0)
                        } else {
                            realnet::RawStream::Unix(out_unix.as_ref().unwrap().accept().await.expect("accept").0)
                        };
                        let mut rc = RawConn { stream, inbuf: vec![], traffic_from: None };
                        rc.handshake(peer_type, None).await.map(|_| rc)
                    };
                    let (cr, ar) = tokio::join!(realnet::sock_connect(&mut s, &target), accept);
                    match (cr, ar) {
                        (Ok(()), Ok(rc)) => peers.push(rc),
                        (a, b) => {
                            fail!(f, format!("C17/{}/setup-connect-out", who), "{:?} / {:?}", a.err().map(|e| format!("{:?}", e)), b.err());
                            return f;
                        }
                    }
                    }
                }
            }
            // ---- fault injection: EVERY ipc endpoint of the socket is affected, so that close
            // meets as many failures as there are ipc binds
            let mut sabotaged: Vec<std::path::PathBuf> = vec![];
            if c.close && c.sabotage > 0 {
                for p in endpoints.iter().filter_map(|e| realnet::ipc_path_of(e)) {
                    let _ = std::fs::remove_file(&p);
                    if c.sabotage == 1 {
                        let _ = std::fs::create_dir(&p);
                        let _ = std::fs::write(p.join("keep"), b"x");
                    }
                    sabotaged.push(p);
                }
            }
            // ---- the operation
            if c.close {
                let errs = match tokio::time::timeout(LIMIT, realnet::sock_close(s)).await {
                    Ok(e) => e,
                    Err(_) => {
                        fail!(f, format!("C17/{}/close/close-hangs", who), "close() did not return within {:?}", LIMIT);
                        return f;
                    }
                };
                if sabotaged.is_empty() && !errs.is_empty() {
                    fail!(f, format!("C17/{}/close/spurious-error", who), "close() reported {:?} in a fault-free history", errs);
                }
                if c.sabotage == 1 && errs.len() < sabotaged.len() {
                    fail!(
                        f,
                        format!("C17/{}/close/failure-not-reported", who),
                        "{} socket file(s) had been replaced by directories ({:?}): close() could not remove them and reported {} error(s): {:?}",
                        sabotaged.len(),
                        sabotaged.iter().map(|p| p.display().to_string()).collect::<Vec<_>>(),
                        errs.len(),
                        errs
                    );
                }
                // by the time close returns: listeners gone
                for e in &endpoints {
                    if !realnet::connect_refused(e).await {
                        fail!(f, format!("C17/{}/close/endpoint-still-accepting-after-close", who), "a fresh connection to {} succeeded after close() returned", e);
                    }
                    if let Some(p) = realnet::ipc_path_of(e) {
                        if p.exists() && !sabotaged.contains(&p) {
                            fail!(f, format!("C17/{}/close/ipc-file-left-behind", who), "{} still exists after close() returned", p.display());
                        }
                    }
                }
            } else {
                drop(s);
                for e in &endpoints {
                    let e2 = e.clone();
                    let mut refused = false;
                    let start = std::time::Instant::now();
                    while start.elapsed() < LIMIT {
                        if realnet::connect_refused_once(&e2).await {
                            refused = true;
                            break;
                        }
                        tokio::time::sleep(Duration::from_millis(2)).await;
                    }
                    if !refused {
                        fail!(f, format!("C17/{}/drop/endpoint-still-accepting-after-drop", who), "{} still accepts connections {:?} after the socket was dropped", e, LIMIT);
                    }
                    if let Some(p) = realnet::ipc_path_of(e) {
                        if !eventually(LIMIT, || !p.exists()).await {
                            fail!(f, format!("C17/{}/drop/ipc-file-left-behind", who), "{} still exists {:?} after the socket was dropped", p.display(), LIMIT);
                        }
                    }
                }
            }
            // every connected peer observes end-of-stream
            for (i, p) in peers.iter_mut().enumerate() {
                if !p.await_end(LIMIT).await {
                    fail!(f, format!("C17/{}/{}/peer-not-disconnected", who, how), "established peer {} saw neither EOF nor reset within {:?}", i, LIMIT);
                }
            }
            for p in stalled.iter_mut() {
                if !p.await_end(Duration::from_secs(2)).await {
                    fail!(
                        f,
                        format!("C17/{}/{}/pending-handshake-connection-kept-open", who, how),
                        "a connection that was in the middle of its handshake is still open 2 s after the socket was {}",
                        if c.close { "closed" } else { "dropped" }
                    );
                }
            }
            // background tasks terminate
            drop(out_listener);
            drop(out_unix);
            if !eventually(Duration::from_secs(3), || realnet::alive_tasks() <= base_tasks).await {
                let sig = if stalled.is_empty() { "background-tasks-survive" } else { "pending-handshake-task-survives" };
                fail!(
                    f,
                    format!("C17/{}/{}/{}", who, how, sig),
                    "{} runtime tasks alive before the socket existed, {} still alive 3 s after it was {}",
                    base_tasks,
                    realnet::alive_tasks(),
                    if c.close { "closed" } else { "dropped" }
                );
            }
            drop(peers);
            drop(stalled);
            f
        })
    });
    if let Some(f) = r {
        o.failures = f;
    }
    for p in panics {
        o.fail(format!("C17/panic/{}", panic_sig(&p)), format!("{:?}: {}", c, p));
    }
    o
}

pub fn grid() -> Vec<CloseCase> {
    let mut v = vec![];
    for kind in ALL_KINDS {
        for transport in [Transport::TcpV4, Transport::TcpV6, Transport::Ipc] {
            for prefix in [Prefix::BoundOnly, Prefix::Accepted(2), Prefix::ConnectedOut, Prefix::MidTraffic, Prefix::PendingHandshake(10), Prefix::Backlogged, Prefix::LateActivity(0), Prefix::LateActivity(1), Prefix::AbandonedConnect] {
                if matches!(prefix, Prefix::LateActivity(_)) && !kind.fair_queue_recv() {
                    continue;
                }
                if prefix == Prefix::Backlogged && !matches!(kind, Kind::Pub | Kind::XPub | Kind::Push | Kind::Dealer) {
                    continue;
                }
                for close in [true, false] {
                    v.push(CloseCase { kind, transport, prefix, close, binds: 1, sabotage: 0, monitor: 0 });
                }
            }
        }
        // with a monitor installed (some back ends do extra work per peer only then)
        for transport in [Transport::TcpV4, Transport::Ipc] {
            for prefix in [Prefix::Accepted(2), Prefix::ConnectedOut, Prefix::MidTraffic] {
                for close in [true, false] {
                    v.push(CloseCase { kind, transport, prefix, close, binds: 1, sabotage: 0, monitor: if close { 1 } else { 2 } });
                    v.push(CloseCase { kind, transport, prefix, close, binds: 1, sabotage: 0, monitor: if close { 2 } else { 1 } });
                }
            }
        }
        // close meets a failure: the ipc socket file cannot be removed / is already gone
        for prefix in [Prefix::BoundOnly, Prefix::Accepted(2)] {
            for sabotage in [1u8, 2] {
                v.push(CloseCase { kind, transport: Transport::Ipc, prefix, close: true, binds: 1, sabotage, monitor: 0 });
                v.push(CloseCase { kind, transport: Transport::Ipc, prefix, close: true, binds: 2, sabotage, monitor: 0 });
                v.push(CloseCase { kind, transport: Transport::Ipc, prefix, close: true, binds: 3, sabotage, monitor: 0 });
            }
        }
    }
    v
}

pub fn run(ctx: &Ctx) -> (Report, PropertyMeta) {
    let mut report = Report::default();
    let t = ctx.tier;
    // one thread: parallel shards could be handed each other's just-released ports
    let mut ctx1 = ctx.clone();
    ctx1.threads = 1;
    let ctx = &ctx1;
    let g = grid();
    let r = run_cases(ctx, "close", &g, close_outcome);
    report.exhaustive_parts.push(format!("full grid: 9 socket types x {{TCP 127.0.0.1, TCP ::1, IPC}} x {{bound only, bound + 2 accepted peers, connected out, mid-traffic, one client stalled mid-handshake, (PUB/XPUB/PUSH/DEALER) a peer that stopped reading with all buffers full}} x {{close().await, drop}} = {} cells on the real runtime", g.len()));
    report.merge(r);
    let n = t.pick(150, 3000);
    let r = run_random(
        ctx,
        "close",
        n,
        8..=12,
        |s| CloseCase {
            kind: s.pick(&ALL_KINDS),
            transport: s.pick(&[Transport::TcpV4, Transport::TcpV6, Transport::TcpLocalhost, Transport::Ipc]),
            prefix: match s.below(8) {
                7 => Prefix::AbandonedConnect,
                6 => Prefix::LateActivity(s.below(2) as u8),
                0 => Prefix::BoundOnly,
                1 => Prefix::Accepted(s.range(1, 3) as u8),
                2 => Prefix::ConnectedOut,
                3 => Prefix::MidTraffic,
                5 => Prefix::Backlogged,
                _ => Prefix::PendingHandshake(s.pick(&[0u8, 1, 9, 10, 11, 63, 64, 65, 80, 200])),
            },
            close: s.bool(),
            binds: s.range(1, 3) as u8,
            sabotage: if s.chance(1, 8) { s.range(1, 2) as u8 } else { 0 },
            monitor: s.weighted(&[2, 1, 1]) as u8,
        },
        close_outcome,
    );
    report.sections.push(json!({"part": "random inner parameters: peer counts, stall offsets, several binds, tcp://localhost", "cases": n}));
    report.merge(r);
    realnet::cleanup_scratch();

    let meta = PropertyMeta {
        level: "exploration",
        rule: "real sockets on real TCP (127.0.0.1, ::1, localhost) and IPC transports on a current-thread tokio runtime, with raw clients speaking the reference codec. Exhaustive grid of socket type x transport x history prefix (bound only; bound with accepted peers; connected out to a raw listener; messages in flight both ways; one raw client stalled in the middle of its handshake; for the sending types a peer that has stopped reading while the application kept sending until a send blocked / 13 MB were offered) x {close().await, drop}; plus random inner parameters. Oracle: when close() returns (after a drop: within a watchdog limit) a fresh connect to every formerly bound endpoint is refused and IPC socket files are gone; close() reports no error in these fault-free histories; every established raw peer reads EOF or a reset; a connection that was mid-handshake is closed as well; the runtime's alive-task count returns to its value from before the socket existed. Non-trivial = the cell has at least one live connection or a pending handshake; distinct by cell".into(),
        assumptions: vec![
            "wall-clock limits (10 s for peers/listeners, 2-3 s for tasks) are watchdogs ~10^3-10^4 x the typical latency; the runtime is single-threaded and otherwise idle".into(),
            "failures injected into close itself are not generated: 'reported each failure it met' is asserted only as 'no spurious errors'".into(),
        ],
        exhaustive: true,
    };
    (report, meta)
}

pub fn replay(_ctx: &Ctx, kind: &str, case: &Value) -> Vec<Failure> {
    let r = match kind {
        "close" => parse_case::<CloseCase>(case).map(|c| close_outcome(&c).failures),
        _ => Err(vec![Failure::new("replay/unknown-kind", kind.to_string())]),
    }
    .unwrap_or_else(|e| e);
    realnet::cleanup_scratch();
    r
}
